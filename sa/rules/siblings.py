"""Sibling implementations of one interface: the two enum builders (EnumProperty.build / LiteralEnumProperty.build) and the two
enum merge functions (_merge_with_enum / _merge_with_literal_enum).

The siblings used to be compared statement for statement.  That is bound to the shape of the code (an extracted helper or an
inverted guard in ONE sibling is a difference although both still behave alike), so the comparison is replaced by the semantic
facts it was protecting.  Every fact is stated as a *scenario*: a valuation of the decisions the function takes (how many values
are left after the nulls are removed, how many distinct types they have, is the class name taken, ...), found by role and never
by spelling, under which the control flow of the function is simulated (`PathSim`).  The fact then says where every path must
end (an error, a NoneProperty, a nullable union, the enum itself) - whatever the nesting, the branch order or the polarity of
the tests.  Each sibling is checked on its own against the same facts.
"""
from __future__ import annotations

import ast
from dataclasses import dataclass
from typing import Any, Callable

from ..astutil import (ERROR_CLASSES, Locals, call_name, calls_in, constructs_error, error_names, local_names, names_in, norm, region, returns_error,
                       short, where)
from ..cfg import walk_own
from ..core import AnalysisError, Report
from ..pyindex import FuncInfo, dotted

# =====================================================================================================================
# PathSim: the paths of one function under a partial valuation of its decisions
# =====================================================================================================================

State = dict  # ("b", local) -> truthiness, ("n", local) -> `is None`, ("v", local) -> expression the local is bound to


@dataclass
class Event:
    kind: str                   # "test": an evaluated condition / loop header, "stmt": a simple statement that was executed
    node: ast.AST
    state: State                # what was known about the locals when the node was evaluated
    value: "bool | None" = None  # tests: the known truth value (None: undecided, both arms are explored)
    taken: "bool | None" = None  # tests: the arm this path took


@dataclass
class Path:
    events: list[Event]
    end: "ast.stmt | None"      # the Return / Raise that ends the path, None when the body falls through

    def stmts(self) -> list[ast.stmt]:
        return [e.node for e in self.events if e.kind == "stmt"]  # type: ignore[misc]

    def undecided(self) -> list[ast.AST]:
        return [e.node for e in self.events if e.kind == "test" and e.value is None]

    @property
    def end_state(self) -> State:
        return self.events[-1].state if self.events else {}


Leaf = Callable[[ast.expr, State, "PathSim"], "bool | None"]


class PathSim:
    """Enumerates the control-flow paths of a function.  Conditions are evaluated in three-valued logic: and / or / not /
    conditional expressions / `is None` / locals bound to a condition are handled here, everything else is asked from `leaf`
    (the rule's valuation of the atoms it knows by role).  A condition whose value is not known is explored both ways, so the
    result over-approximates the paths: it is indifferent to early return vs nested if, to branch order and to the polarity
    of tests.  Loops are taken zero times and once."""

    LIMIT = 20000

    def __init__(self, fn: ast.AST, leaf: "Leaf | None" = None, none_of: "Leaf | None" = None):
        self.fn = fn
        self.leaf = leaf
        self.none_of = none_of
        self._done: list[Path] = []
        # record classes whose instances unpack in the order of their positional construction (NamedTuple): name -> field names
        self.records: dict[str, list[str]] = {}

    # -- expressions ----------------------------------------------------------------------------------------------
    def truth(self, e: ast.expr, st: State) -> "bool | None":
        if isinstance(e, ast.BoolOp):
            vals = [self.truth(v, st) for v in e.values]
            if isinstance(e.op, ast.And):
                if any(v is False for v in vals):
                    return False
                return True if all(v is True for v in vals) else None
            if any(v is True for v in vals):
                return True
            return False if all(v is False for v in vals) else None
        if isinstance(e, ast.UnaryOp) and isinstance(e.op, ast.Not):
            v = self.truth(e.operand, st)
            return None if v is None else not v
        if isinstance(e, ast.NamedExpr):
            return self.truth(e.value, st)
        if isinstance(e, ast.Constant):
            return bool(e.value)
        if isinstance(e, ast.IfExp):
            t = self.truth(e.test, st)
            if t is not None:
                return self.truth(e.body if t else e.orelse, st)
            a, b = self.truth(e.body, st), self.truth(e.orelse, st)
            return a if a == b else None
        if isinstance(e, ast.Name):
            if ("b", e.id) in st:
                return st[("b", e.id)]
            if st.get(("n", e.id)) is True:
                return False
        if isinstance(e, ast.Compare) and len(e.ops) == 1 and isinstance(e.ops[0], (ast.Is, ast.IsNot)) and \
                isinstance(e.comparators[0], ast.Constant) and e.comparators[0].value is None:
            n = self.is_none(e.left, st)
            if n is not None:
                return n if isinstance(e.ops[0], ast.Is) else not n
        return self.leaf(e, st, self) if self.leaf is not None else None

    def is_none(self, e: ast.expr, st: State) -> "bool | None":
        if isinstance(e, ast.Constant):
            return e.value is None
        if isinstance(e, ast.NamedExpr):
            return self.is_none(e.value, st)
        if isinstance(e, ast.Name):
            if ("n", e.id) in st:
                return st[("n", e.id)]
            if ("v", e.id) in st and not isinstance(st[("v", e.id)], ast.Name):
                return self.is_none(st[("v", e.id)], st)
        if isinstance(e, ast.IfExp):
            t = self.truth(e.test, st)
            if t is not None:
                return self.is_none(e.body if t else e.orelse, st)
            a, b = self.is_none(e.body, st), self.is_none(e.orelse, st)
            return a if a == b else None
        if isinstance(e, (ast.JoinedStr, ast.BinOp, ast.List, ast.Tuple, ast.Set, ast.Dict, ast.ListComp, ast.SetComp, ast.DictComp,
                          ast.GeneratorExp, ast.Lambda, ast.Compare)):
            return False
        if isinstance(e, ast.Call) and isinstance(e.func, ast.Attribute) and isinstance(e.func.value, (ast.Constant, ast.JoinedStr)):
            return False  # a method of a string literal ("...".format / .join) returns a string
        return self.none_of(e, st, self) if self.none_of is not None else None

    def resolve(self, e: ast.expr, st: State) -> ast.expr:
        """what the expression stands for on this path: a local -> the expression it was last bound to, a conditional expression
        -> the arm selected by the known condition, cast(T, x) -> x"""
        for _ in range(8):
            if isinstance(e, ast.Name) and ("v", e.id) in st:
                e = st[("v", e.id)]
                break  # bound values are stored resolved
            if isinstance(e, ast.IfExp):
                t = self.truth(e.test, st)
                if t is None:
                    break
                e = e.body if t else e.orelse
                continue
            if isinstance(e, ast.NamedExpr):
                e = e.value
                continue
            if isinstance(e, ast.Call) and call_name(e).rsplit(".", 1)[-1] == "cast" and len(e.args) == 2:
                e = e.args[1]
                continue
            break
        return e

    # -- state --------------------------------------------------------------------------------------------------------
    @staticmethod
    def _forget(st: State, name: str) -> None:
        for k in ("b", "n", "v"):
            st.pop((k, name), None)

    def _bind(self, target: ast.AST, value: "ast.expr | None", before: State, st: State) -> None:
        if isinstance(target, ast.Name):
            self._forget(st, target.id)
            if value is not None:
                st[("v", target.id)] = self.resolve(value, before)
                b = self.truth(value, before)
                if b is not None:
                    st[("b", target.id)] = b
                n = self.is_none(value, before)
                if n is not None:
                    st[("n", target.id)] = n
        elif isinstance(target, (ast.Tuple, ast.List)):
            if value is not None and not isinstance(value, (ast.Tuple, ast.List)):
                value = self.resolve(value, before)   # `a, b = (x, y) if c else (y, x)` with c known on this path
                comps = record_components(value, self.records)
                if comps is not None:                 # `a, b = R(x, y)` / `R(first=x, second=y)` with R a tuple-like record
                    value = ast.Tuple(elts=comps, ctx=ast.Load())
            if isinstance(value, (ast.Tuple, ast.List)) and len(value.elts) == len(target.elts) and \
                    not any(isinstance(x, ast.Starred) for x in [*value.elts, *target.elts]):
                for t, v in zip(target.elts, value.elts):
                    self._bind(t, v, before, st)
            else:
                for t in target.elts:
                    self._bind(t.value if isinstance(t, ast.Starred) else t, None, before, st)
        # attribute / subscript stores do not change what is known about locals

    def _walrus(self, test: ast.expr, st: State) -> State:
        """the state after the assignment expressions of a test (`if (m := f(x)) is not None:` binds m on both arms)"""
        st1 = st
        for n in ast.walk(test):
            if isinstance(n, ast.NamedExpr):
                if st1 is st:
                    st1 = dict(st)
                self._bind(n.target, n.value, st, st1)
        return st1

    # -- statements ---------------------------------------------------------------------------------------------------
    def paths(self, init: "State | None" = None) -> list[Path]:
        self._done = []
        body = getattr(self.fn, "body", [])
        for _, trail, _sig in self._seq(body, dict(init or {}), []):
            self._finish(trail, None)
        return self._done

    def _finish(self, trail: list[Event], end: "ast.stmt | None") -> None:
        self._done.append(Path(trail, end))
        if len(self._done) > self.LIMIT:
            raise AnalysisError(f"path enumeration of {getattr(self.fn, 'name', '?')} exceeds {self.LIMIT} paths")

    def _seq(self, body: list[ast.stmt], st: State, trail: list[Event]) -> list[tuple[State, list[Event], "str | None"]]:
        cur = [(st, trail)]
        left: list[tuple[State, list[Event], str | None]] = []
        for s in body:
            nxt = []
            for st_, tr_ in cur:
                for st2, tr2, sig in self._stmt(s, st_, tr_):
                    if sig is None:
                        nxt.append((st2, tr2))
                    else:
                        left.append((st2, tr2, sig))
            cur = nxt
            if not cur:
                break
        return [(a, b, None) for a, b in cur] + left

    def _branch(self, test: ast.expr, st: State, taken: bool) -> State:
        """what taking this arm tells about a local that is tested directly"""
        pol = taken
        e = test
        while isinstance(e, ast.UnaryOp) and isinstance(e.op, ast.Not):
            e, pol = e.operand, not pol
        if isinstance(e, ast.Name):
            st = dict(st)
            st[("b", e.id)] = pol
        elif isinstance(e, ast.Compare) and len(e.ops) == 1 and isinstance(e.ops[0], (ast.Is, ast.IsNot)) and isinstance(e.left, ast.Name) \
                and isinstance(e.comparators[0], ast.Constant) and e.comparators[0].value is None:
            st = dict(st)
            st[("n", e.left.id)] = pol if isinstance(e.ops[0], ast.Is) else not pol
        return st

    def _stmt(self, s: ast.stmt, st: State, trail: list[Event]) -> list[tuple[State, list[Event], "str | None"]]:
        if isinstance(s, ast.Expr) and isinstance(s.value, ast.Constant):
            return [(st, trail, None)]  # docstring
        if isinstance(s, ast.If):
            st = self._walrus(s.test, st)
            v = self.truth(s.test, st)
            out = []
            if v is not False:
                out += self._seq(s.body, self._branch(s.test, st, True) if v is None else st, trail + [Event("test", s.test, st, v, True)])
            if v is not True:
                out += self._seq(s.orelse, self._branch(s.test, st, False) if v is None else st, trail + [Event("test", s.test, st, v, False)])
            return out
        if isinstance(s, (ast.For, ast.AsyncFor)):
            ev = Event("test", s.iter, st, None, None)
            out = self._seq(s.orelse, st, trail + [ev])  # no iteration
            st1 = dict(st)
            self._bind(s.target, None, st, st1)
            for st2, tr2, sig in self._seq(s.body, st1, trail + [ev]):
                if sig in (None, "continue", "break"):
                    out.append((st2, tr2, None))
            return out
        if isinstance(s, ast.While):
            v = self.truth(s.test, st)
            out = []
            if v is not True:
                out += self._seq(s.orelse, st, trail + [Event("test", s.test, st, v, False)])
            if v is not False:
                for st2, tr2, sig in self._seq(s.body, st, trail + [Event("test", s.test, st, v, True)]):
                    if sig in (None, "continue", "break"):
                        out.append((st2, tr2, None))
            return out
        if isinstance(s, ast.Try):
            res = []
            for st2, tr2, sig in self._seq(s.body, st, trail):
                if sig is None and s.orelse:
                    res += self._seq(s.orelse, st2, tr2)
                else:
                    res.append((st2, tr2, sig))
            for h in s.handlers:
                st1 = dict(st)
                if h.name:
                    self._forget(st1, h.name)
                res += self._seq(h.body, st1, trail)
            if not s.finalbody:
                return res
            out = []
            for st2, tr2, sig in res:
                if sig is None:
                    out += self._seq(s.finalbody, st2, tr2)
                else:
                    out.append((st2, tr2, sig))
            return out
        if isinstance(s, (ast.With, ast.AsyncWith)):
            st1 = dict(st)
            tr = list(trail)
            for item in s.items:
                tr.append(Event("test", item.context_expr, st, None, None))
                if item.optional_vars is not None:
                    self._bind(item.optional_vars, None, st, st1)
            return self._seq(s.body, st1, tr)
        if isinstance(s, ast.Match):
            out = []
            ev = Event("test", s.subject, st, None, None)
            for c in s.cases:
                st1 = dict(st)
                for n in ast.walk(c.pattern):
                    nm = getattr(n, "name", None)
                    if isinstance(nm, str):
                        self._forget(st1, nm)
                out += self._seq(c.body, st1, trail + [ev])
            return out + [(st, trail + [ev], None)]
        if isinstance(s, (ast.Return, ast.Raise)):
            self._finish(trail + [Event("stmt", s, st)], s)
            return []
        if isinstance(s, ast.Break):
            return [(st, trail, "break")]
        if isinstance(s, ast.Continue):
            return [(st, trail, "continue")]
        if isinstance(s, (ast.FunctionDef, ast.AsyncFunctionDef, ast.ClassDef, ast.Import, ast.ImportFrom, ast.Pass, ast.Global, ast.Nonlocal)):
            return [(st, trail, None)]
        st1 = st
        if isinstance(s, ast.Assign):
            st1 = dict(st)
            for t in s.targets:
                self._bind(t, s.value, st, st1)
        elif isinstance(s, ast.AnnAssign):
            if s.value is not None:
                st1 = dict(st)
                self._bind(s.target, s.value, st, st1)
        elif isinstance(s, ast.AugAssign):
            st1 = dict(st)
            self._bind(s.target, None, st, st1)
        else:
            # a walrus inside any other statement
            for n in walk_own(s):
                if isinstance(n, ast.NamedExpr):
                    st1 = dict(st1)
                    self._bind(n.target, n.value, st, st1)
        return [(st1, trail + [Event("stmt", s, st)], None)]


def record_components(v: "ast.AST | None", records: dict[str, list[str]]) -> "list[ast.expr] | None":
    """the components of a record built by a constructor call, in the order in which unpacking the record yields them (the order of
    the fields); None when v is not such a call or a component is not given explicitly"""
    if not isinstance(v, ast.Call):
        return None
    flds = records.get(call_name(v).rsplit(".", 1)[-1])
    if flds is None or len(v.args) > len(flds) or any(isinstance(a, ast.Starred) for a in v.args) or any(k.arg is None for k in v.keywords):
        return None
    given: dict[str, ast.expr] = dict(zip(flds, v.args))
    for k in v.keywords:
        if k.arg not in flds or k.arg in given:
            return None
        given[k.arg] = k.value  # type: ignore[index]
    return [given[x] for x in flds] if all(x in given for x in flds) else None


def tuple_records(ix: Any) -> dict[str, list[str]]:
    """the classes of the package that are tuples with named fields (typing.NamedTuple): class name -> fields in declaration order"""
    out: dict[str, list[str]] = {}
    for c in ix.classes.values():
        if any((dotted(b) or "").rsplit(".", 1)[-1] == "NamedTuple" for b in c.base_exprs):
            out[c.name] = [st.target.id for st in c.node.body if isinstance(st, ast.AnnAssign) and isinstance(st.target, ast.Name)]
    return {k: v for k, v in out.items() if v and sum(1 for c in ix.classes.values() if c.name == k) == 1}


def exclusive_helpers(ix: Any, family: "list[FuncInfo]") -> list[FuncInfo]:
    """module-level functions of the package that exist only for the given functions: called from one of them (or from a private
    helper of its region) by a name that resolves to the function, and called from nowhere else in the package.  Such a function
    is a piece of the family's implementation whatever its name and whichever module it lives in - a part that several siblings
    share has to be importable, so it cannot be spelt as a private helper of one of them"""
    inside: set[str] = set()
    for f in family:
        inside |= {g.qual for g in region_any(ix, f)}
    sites: dict[str, list[str]] = {}
    byq: dict[str, FuncInfo] = {}
    for g in ix.all_functions:
        for c in calls_in(g.node):
            nm = dotted(c.func)
            if not nm or nm.split(".", 1)[0] in ("self", "cls"):
                continue
            r = ix.resolve(g.module, nm)
            if r is not None and r[0] == "func" and r[1].cls is None and r[1].parent is None:
                h = r[1]
                top = g
                while top.parent is not None:
                    top = top.parent
                byq[h.qual] = h
                sites.setdefault(h.qual, []).append(top.qual)
    out: list[FuncInfo] = []
    changed = True
    while changed:
        changed = False
        for q, callers in sites.items():
            if q not in inside and all(c in inside for c in callers):
                inside |= {g.qual for g in region_any(ix, byq[q])}
                out.append(byq[q])
                changed = True
    return out


# =====================================================================================================================
# small evaluators shared by the scenarios
# =====================================================================================================================

def _cmp(op: ast.cmpop, a: Any, b: Any) -> "bool | None":
    if isinstance(op, ast.Lt):
        return a < b
    if isinstance(op, ast.LtE):
        return a <= b
    if isinstance(op, ast.Gt):
        return a > b
    if isinstance(op, ast.GtE):
        return a >= b
    if isinstance(op, (ast.Eq, ast.Is)):
        return a == b
    if isinstance(op, (ast.NotEq, ast.IsNot)):
        return a != b
    return None


def _chain(e: ast.Compare, val: Callable[[ast.expr], Any]) -> "bool | None":
    """a comparison chain whose operands all have a value under `val` (None: not known)"""
    xs = [val(x) for x in [e.left, *e.comparators]]
    if any(x is None for x in xs):
        return None
    res = True
    for op, a, b in zip(e.ops, xs, xs[1:]):
        r = _cmp(op, a, b)
        if r is None:
            return None
        res = res and r
    return res


def _error_test(e: ast.expr) -> "str | None":
    """the local that `isinstance(<local>, <error class(es)>)` asks about (also when the test binds it: `isinstance(x := f(), E)`)"""
    if isinstance(e, ast.Call) and call_name(e) == "isinstance" and len(e.args) == 2:
        a = e.args[0]
        while isinstance(a, ast.NamedExpr):
            a = a.target
        if isinstance(a, ast.Name) and any(k in ERROR_CLASSES for k in _class_names(e.args[1])):
            return a.id
    return None


def error_locals(fn: ast.AST) -> set[str]:
    """astutil.error_names, indifferent to how the local is bound: assignment, annotated assignment or assignment expression from an
    error constructor, or asked about by an isinstance test for an error class (wherever the test binds it)"""
    out = set(error_names(fn))
    for n in ast.walk(fn):
        if isinstance(n, (ast.NamedExpr, ast.AnnAssign)) and isinstance(n.target, ast.Name) and n.value is not None and constructs_error(n.value):
            out.add(n.target.id)
        elif isinstance(n, ast.Call):
            x = _error_test(n)
            if x is not None:
                out.add(x)
    return out


def _narrowed(test: ast.expr, taken: bool, st: State, depth: int = 0) -> dict[str, bool]:
    """what taking this arm of the test says about locals being an error value: {local: is an error}"""
    if isinstance(test, ast.UnaryOp) and isinstance(test.op, ast.Not):
        return _narrowed(test.operand, not taken, st, depth)
    if isinstance(test, ast.BoolOp) and (isinstance(test.op, ast.And) == taken):
        out: dict[str, bool] = {}
        for v in test.values:
            out.update(_narrowed(v, taken, st, depth))
        return out
    if isinstance(test, ast.NamedExpr):
        return _narrowed(test.value, taken, st, depth)
    if isinstance(test, ast.Name) and depth < 2 and isinstance(st.get(("v", test.id)), ast.expr) and not isinstance(st[("v", test.id)], ast.Name):
        return _narrowed(st[("v", test.id)], taken, st, depth + 1)   # a condition held in a local
    x = _error_test(test) if isinstance(test, ast.expr) else None
    return {x: taken} if x is not None else {}


def implied_atoms(test: ast.expr, taken: bool) -> list[tuple[ast.expr, bool]]:
    """the atoms whose truth value follows from the test having come out as `taken`: (atom, its value) - through not, the operands
    of an `and` that held, of an `or` that did not"""
    if isinstance(test, ast.UnaryOp) and isinstance(test.op, ast.Not):
        return implied_atoms(test.operand, not taken)
    if isinstance(test, ast.BoolOp):
        if isinstance(test.op, ast.And) == taken:
            return [x for v in test.values for x in implied_atoms(v, taken)]
        return []
    if isinstance(test, ast.NamedExpr):
        return implied_atoms(test.value, taken)
    return [(test, taken)]


def path_error_facts(p: Path) -> dict[str, bool]:
    """{local: holds an error value} at the end of the path, as far as the path itself says: bound to an error constructor / to a
    local known to hold one, or narrowed by the arm of an isinstance(<local>, <error class>) test that the path took; a later
    binding to something else forgets it"""
    facts: dict[str, bool] = {}

    def bind(t: ast.AST, v: "ast.AST | None") -> None:
        if isinstance(t, ast.Name):
            facts.pop(t.id, None)
            if v is not None and constructs_error(v):
                facts[t.id] = True
            elif isinstance(v, ast.Name) and v.id in facts:
                facts[t.id] = facts[v.id]
        elif isinstance(t, (ast.Tuple, ast.List)):
            for x in t.elts:
                bind(x.value if isinstance(x, ast.Starred) else x, None)

    for ev in p.events:
        n = ev.node
        if ev.kind == "stmt":
            if isinstance(n, ast.Assign):
                for t in n.targets:
                    bind(t, n.value)
            elif isinstance(n, (ast.AnnAssign, ast.AugAssign)):
                bind(n.target, n.value if isinstance(n, ast.AnnAssign) else None)
        for w in (walk_own(n) if isinstance(n, ast.stmt) else ast.walk(n)):
            if isinstance(w, ast.NamedExpr):
                bind(w.target, w.value)
        if ev.kind == "test" and ev.taken is not None and isinstance(n, ast.expr):
            facts.update(_narrowed(n, ev.taken, ev.state))
    return facts


def path_returns_error(p: Path, err_names: set[str]) -> bool:
    """the path ends by returning an error: the returned expression constructs one, or it is (a tuple with) a local that holds one on
    this path; a local the path says nothing about counts when the function narrows it to an error class somewhere (err_names)"""
    s = p.end
    if not isinstance(s, ast.Return) or s.value is None:
        return False
    if constructs_error(s.value):
        return True
    facts = path_error_facts(p)
    cands = [s.value] + (list(s.value.elts) if isinstance(s.value, ast.Tuple) else [])
    return any(isinstance(c, ast.Name) and facts.get(c.id, c.id in err_names) for c in cands)


def _strip(e: ast.expr) -> ast.expr:
    """the collection an expression passes on unchanged: `x or []`, list(x), tuple(x), cast(T, x), (y := x)"""
    while True:
        if isinstance(e, ast.BoolOp) and isinstance(e.op, ast.Or) and len(e.values) == 2 and isinstance(e.values[1], (ast.List, ast.Tuple)) \
                and not e.values[1].elts:
            e = e.values[0]
        elif isinstance(e, ast.Call) and not e.keywords and call_name(e).rsplit(".", 1)[-1] in ("list", "tuple") and len(e.args) == 1:
            e = e.args[0]
        elif isinstance(e, ast.Call) and not e.keywords and call_name(e).rsplit(".", 1)[-1] == "cast" and len(e.args) == 2:
            e = e.args[1]
        elif isinstance(e, ast.NamedExpr):
            e = e.value
        else:
            return e


def _is_none_test(e: ast.expr, var: str) -> "bool | None":
    """True: e is `var is None`, False: e is `var is not None` (also through `not`), None: something else"""
    pol = True
    while isinstance(e, ast.UnaryOp) and isinstance(e.op, ast.Not):
        e, pol = e.operand, not pol
    if isinstance(e, ast.Compare) and len(e.ops) == 1 and isinstance(e.ops[0], (ast.Is, ast.IsNot)) and isinstance(e.left, ast.Name) and \
            e.left.id == var and isinstance(e.comparators[0], ast.Constant) and e.comparators[0].value is None:
        return pol if isinstance(e.ops[0], ast.Is) else not pol
    return None


def _class_names(e: ast.expr) -> list[str]:
    xs = e.elts if isinstance(e, (ast.Tuple, ast.List, ast.Set)) else [e]
    return [(dotted(x) or norm(x)).rsplit(".", 1)[-1] for x in xs]


def _private_call(e: ast.AST) -> bool:
    return any(call_name(c).rsplit(".", 1)[-1].startswith("_") and not call_name(c).rsplit(".", 1)[-1].startswith("__") for c in calls_in(e))


def _claim_all(rep: Report, rid: str, key: str, paths: list[Path], good: Callable[[Path], bool], relevant: Callable[[ast.AST], bool],
               message: str, where_: str, rhs: str) -> None:
    """every path of the scenario satisfies `good`.  A path that does not, but only exists because a decision that matters could
    not be evaluated, is not a violation: the fact cannot be decided (exit 2)."""
    if not paths:
        raise AnalysisError(f"anchor missing: no path for the scenario of {key}")
    bad = [p for p in paths if not good(p)]
    decided = [p for p in bad if not any(relevant(t) for t in p.undecided())]
    if bad and not decided:
        t = next(t for p in bad for t in p.undecided() if relevant(t))
        raise AnalysisError(f"anchor missing: {key}: cannot evaluate the decision `{norm(t)[:80]}`")
    rep.check(not decided, rid, key, message, where_, lhs=[_end_text(p) for p in decided[:2]], rhs=rhs)


def _end_text(p: Path) -> str:
    return norm(p.end)[:90] if p.end is not None else "<falls through>"


# =====================================================================================================================
# phases: a function that ends by handing over to a private helper is the same function written in two pieces
# =====================================================================================================================

class _RenameApart(ast.NodeTransformer):
    def __init__(self, names: set[str], suffix: str) -> None:
        self.names, self.suffix = names, suffix

    def visit_Name(self, n: ast.Name) -> ast.AST:
        return ast.copy_location(ast.Name(id=n.id + self.suffix, ctx=n.ctx), n) if n.id in self.names else n

    def visit_arg(self, n: ast.arg) -> ast.AST:  # parameters of nested functions / lambdas that shadow a renamed local
        if n.arg in self.names:
            n.arg += self.suffix
        return n

    def visit_ExceptHandler(self, n: ast.ExceptHandler) -> ast.AST:
        if n.name and n.name in self.names:
            n.name += self.suffix
        return self.generic_visit(n)


def region_any(ix: Any, f: FuncInfo, depth: int = 2) -> list[FuncInfo]:
    """astutil.region, whatever the receiver of the call is spelt like (`<expression>._helper(...)`): a private function or method
    of the same module counts when it is the only one of its name there"""
    out = list(region(ix, f, depth))
    seen = {g.qual for g in out}
    frontier = list(out)
    for _ in range(depth):
        nxt: list[FuncInfo] = []
        for g in frontier:
            for c in calls_in(g.node):
                last = c.func.attr if isinstance(c.func, ast.Attribute) else c.func.id if isinstance(c.func, ast.Name) else ""
                if not last.startswith("_") or last.startswith("__"):
                    continue
                cands = [h for h in ix.all_functions if h.name == last and h.module is g.module]
                if len(cands) == 1 and cands[0].qual not in seen:
                    seen.add(cands[0].qual)
                    out.append(cands[0])
                    nxt.append(cands[0])
        frontier = nxt
    return out


def _returns_in(s: ast.AST) -> bool:
    todo = [s]
    while todo:
        n = todo.pop()
        if isinstance(n, ast.Return):
            return True
        if n is not s and isinstance(n, (ast.FunctionDef, ast.AsyncFunctionDef, ast.ClassDef, ast.Lambda)):
            continue
        todo += list(ast.iter_child_nodes(n))
    return False


class _Inliner:
    """A function with the private helpers of its region written out in place - extracting a helper moves code, not behaviour, so
    roles and paths are looked for in the function *as if it had not been cut into pieces*:

    * `return cls._second_phase(a=x, b=y)` (or `r = helper(...)` directly followed by `return r`) -> `a' = x; b' = y; <body of the
      helper over a', b'>`: exact for a call in return position (the helper's returns become the function's returns);
    * any other call of a helper that the statement evaluates unconditionally (the value of an assignment, the test of an `if`,
      an argument, the receiver of a method call, ...) -> the helper's body before the statement, every `return v` of it rewritten
      to `returned' = v` with the statements after it moved into the arms that go on (no early exit is left), and `returned'`
      in place of the call.  A helper with a return inside a loop / try / with is left alone.

    Only private helpers of the function's region are inlined (region_any), only when every parameter can be bound (the receiver
    of a method call is its `self`); the helper's parameters and locals are renamed apart, so nothing depends on the pieces
    using the same or different spellings."""

    MAX_STMTS = 400

    def __init__(self, ix: Any, f: FuncInfo, depth: int = 2, family: "list[FuncInfo] | None" = None):
        self.f = f
        self.helpers = {h.name: h for h in region_any(ix, f, depth)[1:]}
        # functions that exist only for f and its siblings (exclusive_helpers) are pieces of f as well, with their own private
        # helpers; they are called by their plain (imported) name
        self.shared: set[str] = set()
        for h in exclusive_helpers(ix, [f, *[g for g in family if g is not f]]) if family is not None else []:
            if h.name not in self.helpers and isinstance(ix.resolve(f.module, h.name), tuple) and ix.resolve(f.module, h.name)[1] is h:
                self.helpers[h.name] = h
                self.shared.add(h.name)
                for g in region_any(ix, h, depth)[1:]:
                    self.helpers.setdefault(g.name, g)
        self.depth = depth
        self.n = 0
        self.own = local_names(f.node) | {p.arg for p in f.params}

    def run(self) -> ast.AST:
        import copy

        fn = copy.deepcopy(self.f.node)
        fn.body = self._block(fn.body, (self.f.name,))
        return ast.fix_missing_locations(fn) if self.n else self.f.node

    def _unrolled(self, s: ast.stmt) -> "list[ast.stmt] | None":
        """`for x in <constant sequence>: body` -> `x = e0; body; x = e1; body; ...` when the sequence is written out (in the loop
        header or as a module-level constant of the function's module) and the body neither breaks nor continues: a table of
        cases walked by a loop is the same program as the cases written one after the other"""
        import copy

        if not isinstance(s, ast.For) or s.orelse or not isinstance(s.target, ast.Name):
            return None
        it: "ast.expr | None" = s.iter
        if isinstance(it, ast.Name) and it.id not in self.own:
            it = self.f.module.variables.get(it.id)
        if not isinstance(it, (ast.Tuple, ast.List)) or not (0 < len(it.elts) <= 8) or any(isinstance(x, ast.Starred) for x in it.elts):
            return None
        todo: list[ast.AST] = list(s.body)
        while todo:
            n = todo.pop()
            if isinstance(n, (ast.Break, ast.Continue)):
                return None
            if isinstance(n, (ast.For, ast.AsyncFor, ast.While, ast.FunctionDef, ast.AsyncFunctionDef, ast.ClassDef, ast.Lambda)):
                continue
            todo += list(ast.iter_child_nodes(n))
        out: list[ast.stmt] = []
        for el in it.elts:
            out.append(ast.copy_location(ast.Assign(targets=[ast.Name(id=s.target.id, ctx=ast.Store())], value=copy.deepcopy(el)), s))
            out += [copy.deepcopy(x) for x in s.body]
        self.n += 1
        return out

    def _block(self, body: list[ast.stmt], stack: tuple[str, ...]) -> list[ast.stmt]:
        out: list[ast.stmt] = []
        skip = False
        for s, nxt in zip(body, [*body[1:], None]):
            if skip:
                skip = False
                continue
            if isinstance(s, ast.Return) and isinstance(s.value, ast.Call):
                got = self._expand(s, s.value, stack)
                if got is not None:
                    out += got
                    continue
            # `x = helper(...)` directly followed by `return x` is the same hand-over
            tgt = s.targets[0] if isinstance(s, ast.Assign) and len(s.targets) == 1 else s.target if isinstance(s, ast.AnnAssign) else None
            if isinstance(tgt, ast.Name) and isinstance(getattr(s, "value", None), ast.Call) and isinstance(nxt, ast.Return) and \
                    isinstance(nxt.value, ast.Name) and nxt.value.id == tgt.id:
                got = self._expand(nxt, s.value, stack)  # type: ignore[union-attr]
                if got is not None:
                    out += got
                    skip = True
                    continue
            flat = self._unrolled(s)
            if flat is not None:
                out += self._block(flat, stack)
                continue
            out += self._hoist(s, stack)
            if not isinstance(s, (ast.FunctionDef, ast.AsyncFunctionDef, ast.ClassDef)):
                for fld in ("body", "orelse", "finalbody"):
                    sub = getattr(s, fld, None)
                    if isinstance(sub, list) and sub and isinstance(sub[0], ast.stmt):
                        setattr(s, fld, self._block(sub, stack))
                for h in getattr(s, "handlers", []) or []:
                    h.body = self._block(h.body, stack)
                for c in getattr(s, "cases", []) or []:
                    c.body = self._block(c.body, stack)
            out.append(s)
        return out

    # -- calls in other than return position ---------------------------------------------------------------------------------------
    def _unconditional(self, node: ast.AST, only: "tuple[str, ...] | None", out: list[tuple[ast.AST, str, "int | None", ast.Call]]) -> None:
        """the outermost helper calls that evaluating `node` always evaluates, in order: (parent, field, index, call)"""
        for fld, val in ast.iter_fields(node):
            if only is not None and fld not in only:
                continue
            for i, ch in enumerate(val if isinstance(val, list) else [val]):
                if not isinstance(ch, ast.AST):
                    continue
                if (isinstance(node, ast.IfExp) and fld in ("body", "orelse")) or (isinstance(node, ast.BoolOp) and fld == "values" and i > 0):
                    continue   # evaluated on some paths only
                if isinstance(node, ast.Compare) and fld == "comparators" and i > 0:
                    continue
                if isinstance(ch, (ast.Lambda, ast.ListComp, ast.SetComp, ast.DictComp, ast.GeneratorExp, ast.FunctionDef, ast.AsyncFunctionDef,
                                   ast.ClassDef, ast.Await, ast.Yield, ast.YieldFrom)):
                    continue
                if isinstance(node, ast.stmt) and isinstance(ch, (ast.stmt, ast.ExceptHandler, ast.match_case)):
                    continue   # nested blocks are statements of their own
                if isinstance(ch, ast.Call) and self._helper_of(ch) is not None:
                    out.append((node, fld, i if isinstance(val, list) else None, ch))
                    continue
                self._unconditional(ch, None, out)

    def _helper_of(self, c: ast.Call) -> "FuncInfo | None":
        last = c.func.attr if isinstance(c.func, ast.Attribute) else c.func.id if isinstance(c.func, ast.Name) else ""
        if last in self.shared and not isinstance(c.func, ast.Name):
            return None
        return self.helpers.get(last)

    def _hoist(self, s: ast.stmt, stack: tuple[str, ...]) -> list[ast.stmt]:
        if isinstance(s, (ast.FunctionDef, ast.AsyncFunctionDef, ast.ClassDef, ast.While, ast.Try, ast.Match)):
            return []
        only = ("test",) if isinstance(s, ast.If) else ("iter",) if isinstance(s, (ast.For, ast.AsyncFor)) else \
            ("items",) if isinstance(s, (ast.With, ast.AsyncWith)) else None
        found: list[tuple[ast.AST, str, "int | None", ast.Call]] = []
        self._unconditional(s, only, found)
        pre: list[ast.stmt] = []
        for parent, fld, i, call in found:
            got = self._expand_value(s, call, stack)
            if got is None:
                continue
            stmts, res = got
            pre += stmts
            name = ast.copy_location(ast.Name(id=res, ctx=ast.Load()), call)
            if i is None:
                setattr(parent, fld, name)
            else:
                getattr(parent, fld)[i] = name
        return pre

    def _structured(self, stmts: list[ast.stmt], res: str, budget: list[int]) -> "list[ast.stmt] | None":
        """the statements with every `return v` rewritten to `res = v` and nothing executed after it"""
        import copy

        out: list[ast.stmt] = []
        for i, s in enumerate(stmts):
            budget[0] -= 1
            if budget[0] < 0:
                return None
            if isinstance(s, ast.Return):
                v = copy.deepcopy(s.value) if s.value is not None else ast.Constant(value=None)
                out.append(ast.copy_location(ast.Assign(targets=[ast.Name(id=res, ctx=ast.Store())], value=v), s))
                return out
            if not _returns_in(s):
                out.append(copy.deepcopy(s))
                continue
            if isinstance(s, ast.If):
                rest = list(stmts[i + 1:])
                a, b = self._structured(list(s.body) + rest, res, budget), self._structured(list(s.orelse) + rest, res, budget)
                if a is None or b is None:
                    return None
                out.append(ast.copy_location(ast.If(test=copy.deepcopy(s.test), body=a, orelse=b), s))
                return out
            return None
        anchor = stmts[-1] if stmts else self.f.node
        out.append(ast.copy_location(ast.Assign(targets=[ast.Name(id=res, ctx=ast.Store())], value=ast.Constant(value=None)), anchor))
        return out

    def _expand_value(self, s: ast.stmt, c: ast.Call, stack: tuple[str, ...]) -> "tuple[list[ast.stmt], str] | None":
        got = self._prepare(s, c, stack)
        if got is None:
            return None
        h, new, ren, suffix, last = got
        res = f"returned{suffix}"
        body = self._structured(list(h.node.body), res, [self.MAX_STMTS])
        if body is None:
            self.n -= 1
            return None
        new += [ren.visit(st) for st in body]
        return self._block(new, stack + (last,)), res

    # -- binding the helper's parameters ---------------------------------------------------------------------------------------------
    def _prepare(self, s: ast.stmt, c: ast.Call, stack: tuple[str, ...]) -> "tuple[FuncInfo, list[ast.stmt], _RenameApart, str, str] | None":
        import copy

        h = self._helper_of(c)
        if h is None:
            return None
        last = h.name
        head = norm(c.func.value) if isinstance(c.func, ast.Attribute) else ""
        if last in stack or len(stack) > self.depth or isinstance(h.node, ast.AsyncFunctionDef):
            return None
        a = h.node.args
        if a.vararg or a.kwarg or any(isinstance(x, ast.Starred) for x in c.args) or any(k.arg is None for k in c.keywords):
            return None
        if any(isinstance(n, (ast.Yield, ast.YieldFrom, ast.Global, ast.Nonlocal)) for n in ast.walk(h.node)):
            return None
        allpos = [*a.posonlyargs, *a.args]
        bound: dict[str, ast.expr] = {}
        for p, d in zip(allpos[len(allpos) - len(a.defaults):], a.defaults):
            bound[p.arg] = d
        for p, d in zip(a.kwonlyargs, a.kw_defaults):
            if d is not None:
                bound[p.arg] = d
        pos = [p.arg for p in allpos]
        keep: set[str] = set()
        plain_class = isinstance(c.func, ast.Attribute) and (dotted(c.func.value) or "")[:1].isupper()
        if h.kind in ("method", "classmethod", "property") and pos:
            implicit, pos = pos[0], pos[1:]
            if head == implicit:
                keep.add(implicit)          # self._h(...) / cls._h(...): the same object under the same name
            elif h.kind == "classmethod" and plain_class:
                bound[implicit] = c.func.value  # type: ignore[union-attr]
            elif h.kind == "method" and isinstance(c.func, ast.Attribute) and not plain_class:
                bound[implicit] = c.func.value   # <expression>._h(...): the receiver is the method's `self`
            else:
                return None
        elif h.kind == "function" and head:
            return None
        if len(c.args) > len(pos):
            return None
        for p_, v in zip(pos, c.args):
            bound[p_] = v
        every = {p.arg for p in [*allpos, *a.kwonlyargs]}
        for k in c.keywords:
            if k.arg not in every:
                return None
            bound[k.arg] = k.value  # type: ignore[index]
        if any(p not in bound and p not in keep for p in every):
            return None
        self.n += 1
        suffix = f"\u00b7{self.n}"   # a middle dot is a legal identifier character that no hand-written local uses
        ren = _RenameApart((local_names(h.node) | every) - keep, suffix)
        new: list[ast.stmt] = []
        for p_ in [x for x in [*[q.arg for q in allpos], *[q.arg for q in a.kwonlyargs]] if x in bound and x not in keep]:
            new.append(ast.copy_location(ast.Assign(targets=[ast.Name(id=p_ + suffix, ctx=ast.Store())], value=copy.deepcopy(bound[p_])), s))
        return h, new, ren, suffix, last

    def _expand(self, s: ast.Return, c: ast.Call, stack: tuple[str, ...]) -> "list[ast.stmt] | None":
        import copy

        got = self._prepare(s, c, stack)
        if got is None:
            return None
        h, new, ren, _, last = got
        new += [ren.visit(copy.deepcopy(st)) for st in h.node.body]
        new.append(ast.copy_location(ast.Return(value=None), s))
        return self._block(new, stack + (last,))


def inline_tail_calls(ix: Any, f: FuncInfo, family: "list[FuncInfo] | None" = None) -> ast.AST:
    """f's definition with the private helpers of its region written out in place (f.node itself when there is none); the name is
    historical: calls in return position were the first to be written out.  With `family` (f and its sibling implementations) the
    functions of the package that only they call are written out as well"""
    return _Inliner(ix, f, family=family).run()


# =====================================================================================================================
# the two enum builders
# =====================================================================================================================

def _filters_over(fn: ast.AST, is_src: Callable[[ast.expr], bool]) -> list[tuple[ast.AST, bool, str]]:
    """constructs of fn that drop elements of the source collection: (node, drops only by identity with None, text).
    Comprehensions with conditions, filter(pred, src), loops over src with a conditional append / continue."""
    out: list[tuple[ast.AST, bool, str]] = []
    for n in ast.walk(fn):
        if isinstance(n, (ast.ListComp, ast.SetComp, ast.GeneratorExp, ast.DictComp)):
            for g in n.generators:
                if is_src(g.iter) and g.ifs:
                    ok = isinstance(g.target, ast.Name) and all(_keeps_non_null(c, g.target.id) for c in g.ifs)
                    out.append((n, ok, norm(n)))
        elif isinstance(n, ast.Call) and call_name(n).rsplit(".", 1)[-1] in ("filter", "filterfalse") and len(n.args) == 2 and is_src(n.args[1]):
            p = n.args[0]
            ok = call_name(n).rsplit(".", 1)[-1] == "filter" and isinstance(p, ast.Lambda) and len(p.args.args) == 1 and \
                _keeps_non_null(p.body, p.args.args[0].arg)
            out.append((n, ok, norm(n)))
        elif isinstance(n, (ast.For, ast.AsyncFor)) and is_src(n.iter) and isinstance(n.target, ast.Name):
            conds = [s for s in n.body if isinstance(s, ast.If) and n.target.id in names_in(s.test)]
            for s in conds:
                skips = any(isinstance(x, ast.Continue) for x in s.body)
                t = _is_none_test(s.test, n.target.id)
                ok = (t is True) if skips else (t is False and not s.orelse)
                out.append((s, ok, norm(s.test)))
    return out


def _unpacked_record_defs(lc: Locals, records: dict[str, list[str]]) -> None:
    """`a, b = m` where m (through plain aliases) is bound to a record built as R(x, y), or to a tuple written out, binds a to x and b
    to y: these bindings are added to the table of definitions (as plain assignments), so that roles found from what a local is
    bound from pass through a result that travels as a record.  Bindings of m that do not unpack into as many targets are no
    source of the targets (the unpacking would fail); a binding of unknown make-up (the result of a call) stays a source as a whole"""
    def sources(nm: str, seen: frozenset = frozenset()) -> list[ast.AST]:
        out: list[ast.AST] = []
        for k, _, v in lc.defs.get(nm, []):
            if k != "assign" or v is None:
                continue
            if isinstance(v, ast.Name) and v.id not in seen:
                out += sources(v.id, seen | {nm})
            else:
                out.append(v)
        return out

    for nm, ds in lc.defs.items():
        new_ds: list[tuple[str, ast.AST, "ast.AST | None"]] = []
        for k, st, v in ds:
            new_ds.append((k, st, v))
            if not (k.startswith("assign[") and k.count("[") == 1 and isinstance(v, ast.Name)):
                continue
            i = int(k[len("assign["):-1])
            tgt = st.targets[0] if isinstance(st, ast.Assign) and len(st.targets) == 1 else getattr(st, "target", None)
            if not isinstance(tgt, (ast.Tuple, ast.List)) or any(isinstance(x, ast.Starred) for x in tgt.elts):
                continue
            refined: list[tuple[str, ast.AST, "ast.AST | None"]] = []
            n_known = 0
            for src in sources(v.id):
                comps = record_components(src, records) or (list(src.elts) if isinstance(src, ast.Tuple) else None)
                if comps is None:
                    refined.append((k, st, src))          # a value of unknown make-up: the target is computed from all of it
                elif any(isinstance(x, ast.Starred) for x in comps):
                    refined.append((k, st, src))
                elif len(comps) == len(tgt.elts):
                    n_known += 1
                    refined.append(("assign", st, comps[i]))
                else:
                    n_known += 1                           # would not unpack into these targets: no source of them
            if n_known:
                new_ds[-1:] = refined
        ds[:] = new_ds


def _keeps_non_null(cond: ast.expr, var: str) -> bool:
    parts = cond.values if isinstance(cond, ast.BoolOp) and isinstance(cond.op, ast.And) else [cond]
    return all(_is_none_test(p, var) is False for p in parts)


class _Builder:
    """roles of the locals of one enum builder (found from what they are bound from, never from their spelling)"""

    def __init__(self, ix: Any, f: FuncInfo, cls_name: str, family: "list[FuncInfo] | None" = None):
        self.ix, self.f, self.K = ix, f, cls_name
        # the builder with its later phases written out in place (`return cls._second_phase(...)`), and with the functions that
        # only the builders call (a part the siblings share)
        self.fn = inline_tail_calls(ix, f, family)
        self.lc = Locals(self.fn)
        self.records = tuple_records(ix)
        _unpacked_record_defs(self.lc, self.records)
        self.locals = local_names(self.fn)
        # the parameters, and the locals that only ever stand for one (a phase's parameter bound to the caller's)
        self.params = {p.arg for p in f.params}
        for _ in range(3):
            self.params |= {nm for nm, ds in self.lc.defs.items() if ds and all(k == "assign" and isinstance(v, ast.Name) and v.id in self.params
                                                                             for k, _, v in ds)}
        self.helpers = {h.name: h for h in region(ix, f)[1:]}
        self.err = error_locals(self.fn)
        # E: the schema's enum list; L: the list without nulls; T: the set of member types; ty: the single member type
        self.E = self._closure(lambda v: self._enum_read(_strip(v)))
        self.filters = _filters_over(self.fn, self.is_E)
        self.filter_helpers: set[str] = set()
        for h in self.helpers.values():      # a helper that receives the enum list and filters it
            for c in calls_in(self.fn):
                if call_name(c).rsplit(".", 1)[-1] != h.name:
                    continue
                hp = [p.arg for p in h.params if p.arg not in ("self", "cls")]
                passed = {hp[i] for i, a in enumerate(c.args) if i < len(hp) and self.is_E(a)} | {k.arg for k in c.keywords if k.arg and self.is_E(k.value)}
                if passed:
                    got = _filters_over(h.node, lambda e, passed=passed: isinstance(_strip(e), ast.Name) and _strip(e).id in passed)  # type: ignore[union-attr]
                    if got:
                        self.filters += got
                        self.filter_helpers.add(h.name)
        fnodes = {id(n) for n, _, _ in self.filters}
        self.L = self._closure(lambda v: id(_strip(v)) in fnodes or (isinstance(_strip(v), ast.Call) and
                                                                     call_name(_strip(v)).rsplit(".", 1)[-1] in self.filter_helpers))
        # loops that append the kept elements: the list the loop appends to
        cond_ids = {id(n) for n, _, _ in self.filters if isinstance(n, ast.If)}
        for loop in ast.walk(self.fn):
            if isinstance(loop, (ast.For, ast.AsyncFor)) and any(id(x) in cond_ids for x in loop.body):
                for c in calls_in(loop):
                    if isinstance(c.func, ast.Attribute) and c.func.attr in ("append", "add") and isinstance(c.func.value, ast.Name):
                        self.L.add(c.func.value.id)
        # ... and a list made from it element by element (a comprehension without condition, map, sorted / reversed): as many
        # elements, none of them null - whatever is done to the elements is not this rule's business
        for _ in range(3):
            self.L |= self._closure(lambda v: self._elementwise(_strip(v)), set(self.L))
        self.T = {nm for nm, ds in self.lc.defs.items() for _, _, v in ds if v is not None and self._types_of_L(v)}
        self.ty = {nm for nm, ds in self.lc.defs.items() for k, _, v in ds if v is not None and k.startswith("assign") and
                   names_in(v) & self.T and not (isinstance(v, ast.Call) and call_name(v) == "len") and nm not in self.T and
                   not isinstance(v, (ast.Compare, ast.BoolOp))}
        self.existing = {nm for nm, ds in self.lc.defs.items() for _, _, v in ds if v is not None and self._registry_read(v) is not None}
        self.conv = {nm for nm, ds in self.lc.defs.items() for _, _, v in ds if isinstance(v, ast.Call) and isinstance(v.func, ast.Attribute)
                     and v.func.attr == "convert_value"}
        self.ctors = [c for c in calls_in(self.fn) if call_name(c) in (cls_name, "cls") and any(k.arg == "values" for k in c.keywords)]
        # the member table being built (the `values=` argument of the construction); it maps names to values when the class
        # declares `values` as a dict
        self.tables = {kw.value.id for c in self.ctors for kw in c.keywords if kw.arg == "values" and isinstance(kw.value, ast.Name)}
        self.tables |= self._closure(lambda v: False, set(self.tables))   # ... and the locals that only stand for it (a helper's parameter)
        fld = ix.find_field(ix.cls(cls_name), "values")
        self.mapping = fld is not None and fld[1] is not None and norm(fld[1]).lower().startswith(("dict", "mapping", "typing.dict"))

    # -- role predicates -----------------------------------------------------------------------------------------------
    def _closure(self, seed: Callable[[ast.expr], bool], start: "set[str] | None" = None) -> set[str]:
        names: set[str] = set(start or ())
        changed = True
        while changed:
            changed = False
            for nm, ds in self.lc.defs.items():
                if nm in names:
                    continue
                for k, _, v in ds:
                    if v is None or not k.startswith("assign") or "[" in k:
                        continue
                    s = _strip(v)
                    if seed(v) or (isinstance(s, ast.Name) and s.id in names):
                        names.add(nm)
                        changed = True
                        break
        return names

    def _elementwise(self, e: ast.expr) -> bool:
        """e has one element for every element of the null-free list"""
        if isinstance(e, (ast.ListComp, ast.GeneratorExp)) and len(e.generators) == 1 and not e.generators[0].ifs:
            return self.is_L(e.generators[0].iter)
        if isinstance(e, ast.Call) and not e.keywords:
            fn = call_name(e).rsplit(".", 1)[-1]
            if fn in ("sorted", "reversed", "list", "tuple") and len(e.args) == 1:
                return self.is_L(e.args[0]) or self._elementwise(e.args[0])
            if fn == "map" and len(e.args) == 2:
                return self.is_L(e.args[1])
        return False

    def _enum_read(self, e: ast.expr) -> bool:
        return isinstance(e, ast.Attribute) and e.attr == "enum" and isinstance(e.value, ast.Name) and e.value.id in self.params

    def is_E(self, e: ast.expr) -> bool:
        s = _strip(e)
        return self._enum_read(s) or (isinstance(s, ast.Name) and s.id in self.E)

    def is_L(self, e: ast.expr) -> bool:
        s = _strip(e)
        return isinstance(s, ast.Name) and s.id in self.L

    def _types_of_L(self, v: ast.expr) -> bool:
        has_type = any(isinstance(n, ast.Name) and n.id == "type" for n in ast.walk(v))
        return has_type and bool(names_in(v) & self.L) and not isinstance(v, (ast.Compare, ast.BoolOp))

    def table_view(self, e: ast.expr) -> "tuple[str, str] | None":
        """(what of the member table the expression shows, whose table): 'full' = names and values, 'keys' = member names only,
        'vals' = values only; 'new' = the table being built, 'old' = the table of the class that holds the name.  A table that maps
        names to values shows only its names when it is iterated (set(d), sorted(d), list(d), d.keys())."""
        if isinstance(e, ast.Name) and e.id in self.tables:
            return ("full", "new")
        if isinstance(e, ast.Attribute) and e.attr == "values" and isinstance(e.value, ast.Name) and e.value.id in self.existing:
            return ("full", "old")
        if isinstance(e, ast.Call) and not e.keywords:
            if isinstance(e.func, ast.Attribute) and not e.args and e.func.attr in ("items", "keys", "values", "copy"):
                inner = self.table_view(e.func.value)
                if inner is not None and inner[0] == "full":
                    return ({"items": "full", "copy": "full", "keys": "keys", "values": "vals"}[e.func.attr], inner[1])
                return None
            fn = call_name(e)
            if fn in ("set", "frozenset", "sorted", "list", "tuple", "dict") and len(e.args) == 1:
                inner = self.table_view(e.args[0])
                if inner is None:
                    return None
                if isinstance(e.args[0], ast.Call) or fn == "dict" or not self.mapping:
                    return inner          # a view of items / keys / values keeps what it shows; dict(d) is d
                return ("keys", inner[1])  # iterating the mapping itself
        return None

    @staticmethod
    def _registry_read(v: ast.expr) -> "str | None":
        """'item' for <x>.classes_by_name[k], 'get' for <x>.classes_by_name.get(k)"""
        if isinstance(v, ast.Subscript) and (dotted(v.value) or "").rsplit(".", 1)[-1] == "classes_by_name":
            return "item"
        if isinstance(v, ast.Call) and isinstance(v.func, ast.Attribute) and v.func.attr == "get" and \
                (dotted(v.func.value) or "").rsplit(".", 1)[-1] == "classes_by_name":
            return "get"
        return None

    # -- valuation of the decisions under a scenario ---------------------------------------------------------------------
    def sim(self, sc: dict[str, Any]) -> PathSim:
        def size(e: ast.expr, st: State, sim: PathSim) -> "int | None":
            if isinstance(e, ast.Constant) and isinstance(e.value, int) and not isinstance(e.value, bool):
                return e.value
            if isinstance(e, ast.Name) and ("v", e.id) in st:
                e = st[("v", e.id)]
            if isinstance(e, ast.Call) and call_name(e) == "len" and len(e.args) == 1:
                a = _strip(e.args[0])
                for _ in range(4):
                    if isinstance(a, ast.Name):
                        if a.id in self.L:
                            return sc.get("nL")
                        if a.id in self.E:
                            return sc.get("nE")
                        if a.id in self.T:
                            return sc.get("nT")
                        if ("v", a.id) in st:
                            a = _strip(st[("v", a.id)])
                            continue
                    break
                if self._enum_read(a):
                    return sc.get("nE")
            return None

        def sym(e: ast.expr, st: State) -> Any:
            """the member type (scenario) or the builtin types it is compared with"""
            if isinstance(e, ast.Name):
                if e.id in self.ty:
                    return sc.get("type")
                if e.id in ("str", "int", "float", "bool", "bytes", "list", "dict") and e.id not in self.locals:
                    return e.id
            if isinstance(e, (ast.Tuple, ast.List, ast.Set)):
                xs = [sym(x, st) for x in e.elts]
                return None if any(x is None for x in xs) else tuple(xs)
            return None

        def leaf(e: ast.expr, st: State, sim: PathSim) -> "bool | None":
            if isinstance(e, ast.Name):
                for role, key in ((self.L, "nL"), (self.E, "nE"), (self.T, "nT")):
                    if e.id in role and sc.get(key) is not None:
                        return sc[key] > 0
                if e.id in self.existing:
                    return sc.get("P")
                return None
            if isinstance(e, ast.Compare):
                r = _chain(e, lambda x: size(x, st, sim))
                if r is not None:
                    return r
                if len(e.ops) == 1:
                    op, a, b = e.ops[0], e.left, e.comparators[0]
                    # the single member type against the supported types
                    sa_, sb_ = sym(a, st), sym(b, st)
                    if sa_ is not None and sb_ is not None and (isinstance(sa_, str) != isinstance(sb_, str) or isinstance(op, (ast.Is, ast.IsNot, ast.Eq, ast.NotEq))):
                        if isinstance(op, (ast.In, ast.NotIn)) and isinstance(sb_, tuple):
                            return (sa_ in sb_) == isinstance(op, ast.In)
                        if isinstance(op, (ast.Is, ast.IsNot, ast.Eq, ast.NotEq)) and isinstance(sa_, str) and isinstance(sb_, str):
                            return _cmp(op, sa_, sb_)
                    # is the class name taken
                    if isinstance(op, (ast.In, ast.NotIn)) and (dotted(b) or "").rsplit(".", 1)[-1] == "classes_by_name" and sc.get("P") is not None:
                        return sc["P"] == isinstance(op, ast.In)
                    # the new member table against the one of the class that holds the name
                    if isinstance(op, (ast.Eq, ast.NotEq)) and sc.get("B") is not None:
                        va, vb = self.table_view(a), self.table_view(b)
                        if va is not None and vb is not None and va[0] == vb[0] and {va[1], vb[1]} == {"new", "old"}:
                            # B: False = same members, True = other member names, "values" = same names with other values
                            differ = sc["B"] is True or (sc["B"] == "values" and va[0] in ("full", "vals"))
                            return differ == isinstance(op, ast.NotEq)
                return None
            if isinstance(e, ast.Call) and call_name(e) == "isinstance" and len(e.args) == 2 and isinstance(e.args[0], ast.Name):
                x, kinds = e.args[0].id, _class_names(e.args[1])
                if x in self.existing and (self.K in kinds or "cls" in kinds):
                    if sc.get("P") is False:
                        return False
                    return sc.get("A")
                if x in self.conv and set(kinds) & ERROR_CLASSES:
                    return sc.get("D")
            if isinstance(e, ast.Call) and call_name(e) == "isinstance" and len(e.args) == 2 and set(_class_names(e.args[1])) & ERROR_CLASSES:
                # whatever the local is called and however far the value has travelled (helper results, aliases): what it holds on
                # THIS path decides - the result of convert_value is an error exactly in the scenario of a rejected default, an object
                # the builder has just made (a constructor, evolve of one) is none
                r = sim.resolve(e.args[0], st)
                if isinstance(r, ast.Call):
                    if isinstance(r.func, ast.Attribute) and r.func.attr == "convert_value":
                        return sc.get("D")
                    last = call_name(r).rsplit(".", 1)[-1]
                    if last in ("evolve", "cls") or (last not in ERROR_CLASSES and any(k.name == last for k in self.ix.classes.values())):
                        return False
            if isinstance(e, ast.Call) and call_name(e) == "isinstance" and len(e.args) == 2:
                # is the value an instance of a class of the package / a builtin type: decided by what the local holds on THIS path
                asked = set(_class_names(e.args[1]))
                known = {k.name for k in self.ix.classes.values()} | self._BUILTIN
                have = self._kinds_of(sim.resolve(e.args[0], st)) if asked and asked <= known and not asked & ERROR_CLASSES else None
                if have is not None:
                    return bool(asked & have)
            return None

        def none_of(e: ast.expr, st: State, sim: PathSim) -> "bool | None":
            kind = self._registry_read(e)
            if kind == "item":
                return False
            if kind == "get" and sc.get("P") is not None:
                return not sc["P"]
            return None

        ps = PathSim(self.fn, leaf, none_of)
        ps.records = self.records
        return ps

    # -- what kind of object an expression is -------------------------------------------------------------------------------
    _BUILTIN = {"tuple", "list", "dict", "set", "frozenset", "str", "int", "float", "bool", "bytes"}

    def _kinds_of(self, r: ast.expr) -> "set[str] | None":
        """the classes (package classes with their ancestors, builtin types) the value of the expression is an instance of, as far
        as the expression itself tells: something written out (a tuple, a list, ...), an object constructed by calling a class of
        the package, the result of a function or method of the package that declares what it returns; None: not known"""
        lit = {ast.Tuple: "tuple", ast.List: "list", ast.ListComp: "list", ast.Dict: "dict", ast.DictComp: "dict", ast.Set: "set", ast.SetComp: "set",
               ast.JoinedStr: "str"}.get(type(r))
        if lit is not None:
            return {lit}
        if isinstance(r, ast.Constant):
            return {type(r.value).__name__} | ({"int"} if isinstance(r.value, bool) else set())
        if not isinstance(r, ast.Call):
            return None
        nm = dotted(r.func) or ""
        if nm == "cls":
            nm = self.K
        got = self.ix.resolve(self.f.module, nm) if nm else None
        if got is None and nm:
            cands = [c for c in self.ix.classes.values() if c.name == nm]
            hs = [h for h in self.helpers.values() if h.name == nm.rsplit(".", 1)[-1]] if "." not in nm or nm.split(".")[0] in ("self", "cls") else []
            got = ("class", cands[0]) if len(cands) == 1 else ("func", hs[0]) if len(hs) == 1 else None
        if got is None:
            return None
        if got[0] == "class":
            return self._ancestry(got[1])
        if got[0] == "func" and got[1].node.returns is not None:
            alts: list[ast.expr] = [got[1].node.returns]
            heads: set[str] = set()
            while alts:
                a = alts.pop()
                if isinstance(a, ast.Constant) and isinstance(a.value, str):
                    try:
                        a = ast.parse(a.value, mode="eval").body
                    except SyntaxError:
                        return None
                if isinstance(a, ast.BinOp) and isinstance(a.op, ast.BitOr):
                    alts += [a.left, a.right]
                    continue
                if isinstance(a, ast.Subscript):
                    h = (dotted(a.value) or "").rsplit(".", 1)[-1]
                    if h in ("Union", "Optional"):
                        alts += list(a.slice.elts) if isinstance(a.slice, ast.Tuple) else [a.slice]
                        if h == "Optional":
                            heads.add("NoneType")
                        continue
                    a = a.value
                if isinstance(a, ast.Constant) and a.value is None:
                    heads.add("NoneType")
                    continue
                h = (dotted(a) or "").rsplit(".", 1)[-1]
                h = {"Tuple": "tuple", "List": "list", "Dict": "dict", "Set": "set"}.get(h, h)
                if h in self._BUILTIN:
                    heads.add(h)
                    continue
                cands = [c for c in self.ix.classes.values() if c.name == h]
                if len(cands) != 1:
                    return None
                # a declared class stands for itself and its subclasses: only what all of them are is known
                return None if self.ix.subclasses(cands[0]) else self._ancestry(cands[0]) if not alts and not heads else None
            return heads or None
        return None

    def _ancestry(self, c: Any) -> set[str]:
        out = {k.name for k in self.ix.mro(c)}
        for k in self.ix.mro(c):
            out |= {"tuple" if b.rsplit(".", 1)[-1] == "NamedTuple" else b.rsplit(".", 1)[-1] for b in self.ix.ext_bases(k)}
        return out

    def relevant(self, t: ast.AST) -> bool:
        return bool(names_in(t) & (self.locals - self.params)) or _private_call(t)

    # -- where a path ends ---------------------------------------------------------------------------------------------
    def calls_of(self, node: ast.AST) -> set[str]:
        """names called by the node, and by the private helpers of the builder that it calls"""
        out: set[str] = set()
        todo = [node]
        seen: set[str] = set()
        while todo:
            n = todo.pop()
            for c in calls_in(n):
                cn = call_name(c)
                out.add(cn)
                last = cn.rsplit(".", 1)[-1]
                if last in self.helpers and last not in seen:
                    seen.add(last)
                    todo.append(self.helpers[last].node)
        return out

    def end_kind(self, p: Path) -> str:
        s = p.end
        if s is None:
            return "fall"
        if isinstance(s, ast.Raise):
            return "raise"
        if path_returns_error(p, self.err):
            return "error"
        assert isinstance(s, ast.Return)
        v = s.value
        first = v.elts[0] if isinstance(v, ast.Tuple) and v.elts else v
        r = first
        if isinstance(first, ast.Name) and ("v", first.id) in p.end_state:
            r = p.end_state[("v", first.id)]
        calls = self.calls_of(r) if r is not None else set()
        if any(c.rsplit(".", 1)[0].endswith("NoneProperty") or c == "NoneProperty" for c in calls):
            return "none"
        if any(c.rsplit(".", 1)[0].endswith("UnionProperty") or c == "UnionProperty" for c in calls):
            return "union"
        return "value"

    def constructs(self, p: Path) -> bool:
        ids = {id(c) for c in self.ctors}
        return any(id(n) in ids for s in p.stmts() for n in walk_own(s))

    def registers(self, p: Path) -> bool:
        """the path passes a statement that builds the Schemas with a new classes_by_name table, or stores into the table"""
        for s in p.stmts():
            for n in walk_own(s):
                if isinstance(n, ast.keyword) and n.arg == "classes_by_name":
                    return True
                if isinstance(n, ast.Subscript) and isinstance(n.ctx, ast.Store) and (dotted(n.value) or "").rsplit(".", 1)[-1] == "classes_by_name":
                    return True
        return False


def enum_builder_parity(rep: Report, ctx: Any, rid: str) -> None:
    """Entry point kept under its historical name: the facts below are checked on each builder independently."""
    ix = ctx.py
    rep.rule(rid, "each enum builder (EnumProperty.build, LiteralEnumProperty.build), on its own: nulls are removed from the value "
                  "list by identity with None only; a list of nulls only becomes a NoneProperty; values of more than one type "
                  "or of a type other than str/int are rejected; a null member makes a nullable union (with a null-typed "
                  "member schema), never an enum member; the members are computed from the null-free list; a class name that "
                  "is taken is reused only by an enum of the same class with the same members; the default goes through "
                  "convert_value and a rejected default returns the error without registering the class")
    n_facts = 0
    family = [g for g in (ix.cls(c).methods.get("build") for c in ("EnumProperty", "LiteralEnumProperty")) if g is not None]
    for cname in ("EnumProperty", "LiteralEnumProperty"):
        f = ix.cls(cname).methods.get("build")
        rep.require(f, f"{cname}.build")
        b = _Builder(ix, f, cname, family)
        w = where(f, f.node)
        k = short(f)
        # ---- nulls are dropped by identity ---------------------------------------------------------------------------
        rep.require(b.filters, f"null extraction in {k}")
        bad = [(n, t) for n, ok, t in b.filters if not ok]
        rep.check(not bad, rid, f"{k}::null-extraction",
                  "members are dropped by something other than identity with None (falsy members such as 0 or '' would be "
                  "treated as null)", where(f, bad[0][0]) if bad else w, lhs=[t[:80] for _, t in bad][:2] or [t[:80] for _, _, t in b.filters][:1],
                  rhs="[v for v in enum if v is not None]")
        rep.require(b.L, f"the null-free value list of {k}")
        rep.require(b.T, f"the set of member types of {k}")
        rep.require(b.ty, f"the single member type of {k}")
        rep.require(b.ctors, f"construction of the {cname} in {k}")
        rep.require(b.conv, f"conversion of the default in {k}")
        n_facts += 1

        def run(**sc: Any) -> list[Path]:
            # decisions a scenario does not speak about take their everyday value (a supported type, a free class name, a valid
            # default), so that a path that leaves the allowed region is followed to a definite end
            return b.sim({"type": "str", "P": False, "D": False, **sc}).paths()

        # ---- only nulls -> NoneProperty ----------------------------------------------------------------------------------
        _claim_all(rep, rid, f"{k}::only-null", run(nE=1, nL=0, nT=0), lambda p: b.end_kind(p) == "none" and not b.constructs(p), b.relevant,
                   "an enum that lists only null is not turned into a NoneProperty", w, "return NoneProperty.build(...)")
        # ---- one type, a supported one -----------------------------------------------------------------------------------
        _claim_all(rep, rid, f"{k}::single-type", run(nE=2, nL=2, nT=2), lambda p: b.end_kind(p) == "error" and not b.constructs(p), b.relevant,
                   "values of more than one type are not rejected", w, "return PropertyError(...)")
        for ty in ("float", "bool"):
            _claim_all(rep, rid, f"{k}::supported-type[{ty}]", run(nE=2, nL=2, nT=1, type=ty),
                       lambda p: b.end_kind(p) == "error" and not b.constructs(p), b.relevant,
                       f"members of type {ty} are not rejected", w, "return PropertyError(...)")
        n_facts += 4
        for ty in ("str", "int"):
            # ---- a null member makes the property nullable ---------------------------------------------------------------
            def nullable(p: Path) -> bool:
                made_null = any(isinstance(c, ast.Call) and any(kw.arg == "type" and norm(kw.value).endswith("NULL") for kw in c.keywords)
                                for s in p.stmts() for c in _calls_through(b, s))
                return b.end_kind(p) == "union" and not b.constructs(p) and made_null

            _claim_all(rep, rid, f"{k}::null-member[{ty}]", run(nE=3, nL=2, nT=1, type=ty), nullable, b.relevant,
                       "null among the values does not lead to a nullable union (null-typed member + the enum without null)", w,
                       "oneOf [Schema(type=NULL), enum without null] -> UnionProperty.build")
            # ---- no null: the enum itself, members from the null-free list -------------------------------------------------
            plain = run(nE=2, nL=2, nT=1, type=ty, P=False)
            built = [p for p in plain if b.constructs(p)]
            rep.check(bool(built) and not any(b.end_kind(p) in ("none", "union") for p in plain), rid, f"{k}::plain[{ty}]",
                      f"a {ty} enum without null is not built as {cname}", w, lhs=sorted({b.end_kind(p) for p in plain}), rhs=f"{cname}(...)")
            n_facts += 2
        # members come from the null-free list
        for c in b.ctors:
            v = next(kw.value for kw in c.keywords if kw.arg == "values")
            deps = _deps(b, v)
            rep.check(bool(deps & b.L) and not (deps & b.E) and not any(b._enum_read(n) for n in ast.walk(v)), rid, f"{k}::members-null-free",
                      "the member table is not computed from the list the nulls were removed from", where(f, c), lhs=sorted(deps),
                      rhs="values_from_list(<null-free list>) / set(<null-free list>)")
            n_facts += 1
        # ---- a taken class name ----------------------------------------------------------------------------------------------
        rep.require(b.existing, f"lookup of the class name in classes_by_name in {k}")
        for a_, b_ in ((False, False), (False, True), (True, True)):
            _claim_all(rep, rid, f"{k}::existing-class[same-class={a_},members-differ={b_}]", run(nE=2, nL=2, nT=1, type="str", P=True, A=a_, B=b_),
                       lambda p: b.end_kind(p) == "error" and not b.registers(p), b.relevant,
                       "the class name is taken by " + ("an enum with other members" if a_ else "something that is not this kind of enum") +
                       " and the builder does not report a conflict", w, "return PropertyError(...)")
        if b.mapping:
            _claim_all(rep, rid, f"{k}::existing-class[same-class=True,same-names-other-values]", run(nE=2, nL=2, nT=1, P=True, A=True, B="values"),
                       lambda p: b.end_kind(p) == "error" and not b.registers(p), b.relevant,
                       "the class name is taken by an enum with the same member names but other values and the builder does not report a "
                       "conflict (the comparison looks at the member names only)", w, "return PropertyError(...)")
            n_facts += 1
        reuse = run(nE=2, nL=2, nT=1, type="str", P=True, A=True, B=False)
        rep.check(any(b.constructs(p) for p in reuse), rid, f"{k}::existing-class[same-class=True,members-differ=False]",
                  "an identical enum can no longer be declared twice", w, lhs=sorted({b.end_kind(p) for p in reuse}), rhs=f"{cname}(...)")
        n_facts += 4
        # ---- the default ---------------------------------------------------------------------------------------------------------
        conv_calls = [v for nm in b.conv for v in b.lc.values_of(nm) if isinstance(v, ast.Call)]
        rep.check(any("default" in norm(a) for c in conv_calls for a in [*c.args, *[kw.value for kw in c.keywords]]), rid,
                  f"{k}::default-converted", "convert_value is not applied to the schema's default", w, lhs=[norm(c) for c in conv_calls][:2],
                  rhs="convert_value(data.default)")
        _claim_all(rep, rid, f"{k}::default-rejected", run(nE=2, nL=2, nT=1, type="str", P=False, D=True),
                   lambda p: b.end_kind(p) == "error" and not b.registers(p), b.relevant,
                   "a default that convert_value rejects does not end the build with that error (or the class is registered anyway)", w,
                   "return <error>, schemas (nothing registered)")

        def accepted(p: Path) -> bool:
            if b.end_kind(p) != "value" or not b.registers(p):
                return False
            return _carries_converted_default(b, p)

        _claim_all(rep, rid, f"{k}::default-accepted", run(nE=2, nL=2, nT=1, type="str", P=False, D=False), accepted, b.relevant,
                   "the property that is returned and registered does not carry the converted default", w,
                   "evolve(prop, default=<convert_value result>) registered in classes_by_name")
        n_facts += 3
    rep.floor("enum_builder_facts", n_facts, 17)


def _calls_through(b: _Builder, s: ast.AST) -> list[ast.Call]:
    out = []
    todo = [s]
    seen: set[str] = set()
    while todo:
        n = todo.pop()
        it = walk_own(n) if isinstance(n, ast.stmt) and not isinstance(n, (ast.FunctionDef, ast.AsyncFunctionDef)) else ast.walk(n)
        for c in it:
            if isinstance(c, ast.Call):
                out.append(c)
                last = call_name(c).rsplit(".", 1)[-1]
                if last in b.helpers and last not in seen:
                    seen.add(last)
                    todo.append(b.helpers[last].node)
    return out


def _deps(b: _Builder, e: ast.expr) -> set[str]:
    """locals the expression is computed from; the null-free list is a leaf (what it is computed from is the business of the
    null-extraction fact)"""
    seen: set[str] = set()
    todo = list(names_in(e) & b.locals)
    while todo:
        nm = todo.pop()
        if nm in seen:
            continue
        seen.add(nm)
        if nm in b.L:
            continue
        for v in b.lc.values_of(nm):
            todo += list(names_in(v) & b.locals)
    return seen


def _carries_converted_default(b: _Builder, p: Path) -> bool:
    """the returned property is (bound to) a call with default=<local bound to convert_value(...)>"""
    s = p.end
    if not isinstance(s, ast.Return) or s.value is None:
        return False
    first = s.value.elts[0] if isinstance(s.value, ast.Tuple) and s.value.elts else s.value
    st = p.end_state
    r = st.get(("v", first.id), first) if isinstance(first, ast.Name) else first
    for c in calls_in(r):
        for kw in c.keywords:
            if kw.arg == "default":
                v = kw.value
                if isinstance(v, ast.Name) and v.id in b.conv:
                    return True
                if isinstance(v, ast.Call) and isinstance(v.func, ast.Attribute) and v.func.attr == "convert_value":
                    return True
    return False


# =====================================================================================================================
# the two enum merge functions
# =====================================================================================================================

class _Merge:
    """merge_properties seen from one enum class K: the dispatcher with the private helpers it hands over to written out in place
    (_Inliner: calls in return position, helper calls in tests, loops over constant tables unrolled), simulated under scenarios that
    say which property class each of the two arguments has.  Which helper does the work, how many there are and what they are
    called is not asked."""

    def __init__(self, ix: Any, f: FuncInfo, cls_name: str):
        self.ix, self.f, self.K = ix, f, cls_name
        self.fn = _Inliner(ix, f, depth=3).run()
        ps = [p.arg for p in f.params]
        if len(ps) != 2:
            raise AnalysisError(f"anchor missing: the two properties merged by {f.name}")
        self.p = {ps[0]: 1, ps[1]: 2}
        self.locals = local_names(self.fn)
        self.err = error_locals(self.fn)
        self.class_names_all = {c.name for c in ix.classes.values()}
        self._mro: dict[str, set[str]] = {}

    def mro(self, cname: str) -> set[str]:
        if cname not in self._mro:
            self._mro[cname] = {k.name for k in self.ix.mro(self.ix.cls(cname))}
        return self._mro[cname]

    # -- what an expression stands for on a path ---------------------------------------------------------------------------------------
    def deep(self, e: ast.expr, st: State, sim: PathSim, depth: int = 0) -> ast.expr:
        """PathSim.resolve, followed through the constants of the module and the fields of a record that was constructed in sight
        (`flavour.prop_type` with flavour bound to `_Flavour(prop_type=K, ...)` is K)"""
        e = sim.resolve(e, st)
        if depth > 5:
            return e
        if isinstance(e, ast.Name) and e.id not in self.locals and e.id not in self.p and e.id in self.f.module.variables:
            return self.deep(self.f.module.variables[e.id], st, sim, depth + 1)
        if isinstance(e, ast.Attribute):
            base = self.deep(e.value, st, sim, depth + 1)
            if isinstance(base, ast.Call) and not any(k.arg is None for k in base.keywords):
                v = next((k.value for k in base.keywords if k.arg == e.attr), None)
                last = call_name(base).rsplit(".", 1)[-1]
                if v is None and last in self.class_names_all and not any(isinstance(x, ast.Starred) for x in base.args):
                    flds = list(self.ix.cls(last).fields)
                    if e.attr in flds and flds.index(e.attr) < len(base.args):
                        v = base.args[flds.index(e.attr)]
                if v is not None:
                    return self.deep(v, st, sim, depth + 1)
        return e

    def applied(self, e: ast.expr, st: State, sim: PathSim) -> ast.expr:
        """a call of a local / field that holds a `lambda x: body` is body with x replaced by the argument"""
        import copy

        if isinstance(e, ast.Call) and not e.keywords:
            fn = self.deep(e.func, st, sim)
            a = fn.args if isinstance(fn, ast.Lambda) else None
            if a is not None and not (a.vararg or a.kwarg or a.kwonlyargs or a.defaults) and len(a.args) + len(a.posonlyargs) == len(e.args):
                ps = [x.arg for x in [*a.posonlyargs, *a.args]]
                args = list(e.args)

                class S(ast.NodeTransformer):
                    def visit_Name(self, n: ast.Name) -> ast.AST:
                        return copy.deepcopy(args[ps.index(n.id)]) if n.id in ps else n

                return S().visit(copy.deepcopy(fn.body))
        return e

    def class_names(self, e: ast.expr, st: State, sim: PathSim) -> "list[str] | None":
        """the classes an isinstance test names (tuples, module constants and record fields followed); None: not known"""
        e = self.deep(e, st, sim)
        out: list[str] = []
        for x in (e.elts if isinstance(e, (ast.Tuple, ast.List, ast.Set)) else [e]):
            x = self.deep(x, st, sim)
            if isinstance(x, (ast.Tuple, ast.List, ast.Set)):
                sub = self.class_names(x, st, sim)
                if sub is None:
                    return None
                out += sub
                continue
            nm = (dotted(x) or "").rsplit(".", 1)[-1]
            if nm not in self.class_names_all:
                return None
            out.append(nm)
        return out

    def side(self, e: ast.expr, st: State, sim: PathSim) -> "int | None":
        """1 / 2: the expression stands for the first / second property on this path"""
        e = sim.resolve(e, st)
        if isinstance(e, ast.Name):
            return self.p.get(e.id)
        return None

    def values_side(self, e: ast.expr, st: State, sim: PathSim) -> "int | None":
        """the property whose member table the expression reads (p.values, set(p.values.items()), f(p) with f a lambda that
        reads its argument's values, ...)"""
        e = self.applied(sim.resolve(e, st), st, sim)
        hits = set()
        for n in ast.walk(e):
            if isinstance(n, ast.Attribute) and n.attr == "values":
                s = self.side(n.value, st, sim)
                if s is not None:
                    hits.add(s)
        return next(iter(hits)) if len(hits) == 1 else None

    def subset(self, e: ast.expr, st: State, sim: PathSim, depth: int = 0) -> "tuple[int, int, bool] | None":
        """(i, j, strict): the expression decides `members of property i are a (strict) subset of the members of property j`"""
        if isinstance(e, ast.Compare) and len(e.ops) == 1 and isinstance(e.ops[0], (ast.LtE, ast.GtE, ast.Lt, ast.Gt)):
            a, b = self.values_side(e.left, st, sim), self.values_side(e.comparators[0], st, sim)
            if a and b and a != b:
                i, j = (a, b) if isinstance(e.ops[0], (ast.LtE, ast.Lt)) else (b, a)
                return (i, j, isinstance(e.ops[0], (ast.Lt, ast.Gt)))
        if isinstance(e, ast.Call) and isinstance(e.func, ast.Attribute) and e.func.attr in ("issubset", "issuperset") and len(e.args) == 1:
            a, b = self.values_side(e.func.value, st, sim), self.values_side(e.args[0], st, sim)
            if a and b and a != b:
                return (a, b, False) if e.func.attr == "issubset" else (b, a, False)
        if isinstance(e, ast.Call) and depth == 0 and not e.keywords and len(e.args) == 2:
            # a helper of the module that decides the subset relation of its two parameters (one the inliner left alone)
            h = next((g for g in self.ix.all_functions if g.name == call_name(e).rsplit(".", 1)[-1] and g.module is self.f.module and g.cls is None), None)
            sides = [self.side(a, st, sim) for a in e.args]
            if h is not None and len(h.params) == 2 and all(sides) and sides[0] != sides[1]:
                rets = [r.value for r in ast.walk(h.node) if isinstance(r, ast.Return) and r.value is not None]
                if len(rets) == 1:
                    inner = _Merge.__new__(_Merge)
                    inner.__dict__.update(self.__dict__)
                    inner.p = {h.params[0].arg: sides[0], h.params[1].arg: sides[1]}
                    return inner.subset(rets[0], {}, PathSim(h.node), depth + 1)
        return None

    def sim(self, sc: dict[str, Any]) -> PathSim:
        kinds = sc["kinds"]  # side -> name of the property class the argument has

        def leaf(e: ast.expr, st: State, sim: PathSim) -> "bool | None":
            if isinstance(e, ast.Call) and call_name(e) == "isinstance" and len(e.args) == 2:
                s = self.side(e.args[0], st, sim)
                names = self.class_names(e.args[1], st, sim) if s is not None else None
                if s is None or names is None:
                    return None
                return any(n in self.mro(kinds[s]) for n in names)
            sub = self.subset(e, st, sim) if isinstance(e, (ast.Compare, ast.Call)) else None
            if sub is not None:
                i, j, strict = sub
                rel = sc.get("subset", {})
                if rel.get((i, j)) is None or (strict and rel.get((j, i)) is None):
                    return None
                return rel[(i, j)] and not (strict and rel[(j, i)])
            if isinstance(e, ast.Compare) and len(e.ops) == 1 and isinstance(e.ops[0], (ast.Is, ast.IsNot, ast.Eq, ast.NotEq)):
                a, b = e.left, e.comparators[0]
                for x, y in ((a, b), (b, a)):
                    if isinstance(x, ast.Attribute) and x.attr == "value_type" and isinstance(y, ast.Name) and y.id in ("int", "str", "float", "bool"):
                        s = self.side(x.value, st, sim)
                        if s is not None and kinds[s] == self.K and sc.get("value_type"):
                            return _cmp(e.ops[0], sc["value_type"], y.id)
                # type(a) is type(b): the two arguments have the same class
                if all(isinstance(x, ast.Call) and call_name(x) == "type" and len(x.args) == 1 for x in (a, b)):
                    sa_, sb_ = self.side(a.args[0], st, sim), self.side(b.args[0], st, sim)   # type: ignore[attr-defined]
                    if sa_ and sb_:
                        return _cmp(e.ops[0], kinds[sa_], kinds[sb_])
            return None

        return PathSim(self.fn, leaf)

    def relevant(self, t: ast.AST) -> bool:
        return bool(names_in(t) & (self.locals | set(self.p))) or _private_call(t)

    def is_error(self, p: Path) -> bool:
        return p.end is not None and (isinstance(p.end, ast.Raise) or path_returns_error(p, self.err))

    def result_base(self, p: Path, sim: PathSim) -> "tuple[int | None, int | None, int | None]":
        """(side of the property the result is built from, side its `values` come from, side its `class_info` comes from)"""
        if not isinstance(p.end, ast.Return) or p.end.value is None:
            return (None, None, None)
        st = p.end_state
        v = sim.resolve(p.end.value, st)
        if not isinstance(v, ast.Call) or not v.args:
            return (None, None, None)
        base = sim.resolve(v.args[0], st)
        vs = ci = None
        if isinstance(base, ast.Call) and base.args:  # evolve(<prop>, values=..., class_info=...)
            for kw in base.keywords:
                r = sim.resolve(kw.value, st)
                if isinstance(r, ast.Attribute):
                    s = self.side(r.value, st, sim)
                    if kw.arg == "values" and r.attr == "values":
                        vs = s
                    if kw.arg == "class_info" and r.attr == "class_info":
                        ci = s
            base = sim.resolve(base.args[0], st)
        return (self.side(base, st, sim), vs, ci)


def enum_merge_parity(rep: Report, ctx: Any, rid: str) -> None:
    """Entry point kept under its historical name: the facts below are checked for each enum class independently."""
    ix = ctx.py
    rep.rule(rid, "merge_properties, for each enum class K (EnumProperty, LiteralEnumProperty) on its own, whichever helpers do the "
                  "work: two K merge to the one whose members are a subset of the other's (both directions are tried, values and "
                  "class come from the narrower one) and are an error when neither is; a K merges with a property of another class "
                  "only when that is an IntProperty / StringProperty matching the enum's value type (result built from the enum); "
                  "with every other property class of the package (AnyProperty, which merges with everything, apart) it is an error")
    n = 0
    f = ix.func("merge_properties.merge_properties")
    plain = sorted(c.name for c in ix.property_classes() if c.name != "AnyProperty")
    rep.require("IntProperty" in plain and "StringProperty" in plain, "the property classes IntProperty and StringProperty")
    for cname in ("EnumProperty", "LiteralEnumProperty"):
        m = _Merge(ix, f, cname)
        w = where(f, f.node)
        k = f"{short(f)}[{cname}]"
        both = {1: cname, 2: cname}
        # ---- two enums ------------------------------------------------------------------------------------------------------
        for s12, s21 in ((False, False), (True, False), (False, True), (True, True)):
            sim = m.sim({"kinds": both, "subset": {(1, 2): s12, (2, 1): s21}})
            paths = sim.paths()
            key = f"{k}::two-enums[1<=2:{s12},2<=1:{s21}]"
            if not (s12 or s21):
                _claim_all(rep, rid, key, paths, m.is_error, m.relevant, "enums with incompatible member lists are merged", w, "return PropertyError(...)")
            else:
                want = 1 if s12 else 2

                def narrow(p: Path, sim: PathSim = sim, want: int = want, both_: bool = s12 and s21) -> bool:
                    if m.is_error(p):
                        return False
                    _, vs, ci = m.result_base(p, sim)
                    return vs is not None and vs == ci and (both_ or vs == want)

                _claim_all(rep, rid, key, paths, narrow, m.relevant,
                           "the merged enum does not take its members and class from the property whose members are the subset", w,
                           f"values / class_info of property {want}")
            n += 1
        # ---- one enum, one property of another class ------------------------------------------------------------------------------
        for es in (1, 2):
            for other in plain:
                if other == cname:
                    continue
                for vt in ("int", "str"):
                    kinds = {es: cname, 3 - es: other}
                    sim = m.sim({"kinds": kinds, "value_type": vt})
                    paths = sim.paths()
                    key = f"{k}::enum-with-plain[enum={es},plain={other},value_type={vt}]"
                    if ("IntProperty" in m.mro(other) and vt == "int") or ("StringProperty" in m.mro(other) and vt == "str"):
                        def from_enum(p: Path, sim: PathSim = sim, es: int = es) -> bool:
                            return not m.is_error(p) and m.result_base(p, sim)[0] == es

                        _claim_all(rep, rid, key, paths, from_enum, m.relevant,
                                   "an enum and a plain property of its value type do not merge into the enum", w, f"built from property {es}")
                    else:
                        _claim_all(rep, rid, key, paths, m.is_error, m.relevant,
                                   "an enum is merged with a property that is not of its value type", w, "return PropertyError(...)")
                    n += 1
    rep.floor("enum_merge_facts", n, 60)
