"""Cross-checks of sibling implementations of one interface (Engler-style): the two enum builders, the two enum
merge functions. Differences outside a frozen allow-list are reported."""
from __future__ import annotations

import ast
import difflib
import re
from typing import Any

from ..astutil import Locals, names_in, norm, resolved_text, short, where
from ..core import Report


def _stmts(f: Any) -> list[ast.stmt]:
    body = list(f.node.body)
    if body and isinstance(body[0], ast.Expr) and isinstance(body[0].value, ast.Constant):
        body = body[1:]
    return body


def _alpha(f: Any) -> list[str]:
    """statements of f with local variables renamed in order of first binding (alpha-equivalence)"""
    import copy

    order: list[str] = []
    params = {p.arg for p in f.params}
    for n in ast.walk(f.node):
        if isinstance(n, ast.Name) and isinstance(n.ctx, ast.Store) and n.id not in order and n.id not in params:
            order.append(n.id)
    # walk order of ast.walk is breadth-first; sort by position instead
    pos: dict[str, tuple[int, int]] = {}
    for n in ast.walk(f.node):
        if isinstance(n, ast.Name) and isinstance(n.ctx, ast.Store) and n.id not in params:
            p_ = (n.lineno, n.col_offset)
            if n.id not in pos or p_ < pos[n.id]:
                pos[n.id] = p_
    names = sorted(pos, key=lambda k: pos[k])
    ren = {nm: f"v{i}" for i, nm in enumerate(names)}

    class R(ast.NodeTransformer):
        def visit_Name(self, node: ast.Name) -> ast.AST:
            if node.id in ren:
                return ast.copy_location(ast.Name(id=ren[node.id], ctx=node.ctx), node)
            return node

    out = []
    for st in _stmts(f):
        out.append(_normalise(ast.unparse(R().visit(copy.deepcopy(st)))))
    return out


def _normalise(src: str) -> str:
    src = src.replace("LiteralEnumProperty", "K").replace("EnumProperty", "K")
    src = src.replace("_merge_with_literal_enum", "_merge_with_K").replace("_merge_with_enum", "_merge_with_K")
    src = src.replace("literal enum", "enum")
    return src


def enum_builder_parity(rep: Report, ctx: Any, rid: str) -> None:
    ix = ctx.py
    rep.rule(rid, "EnumProperty.build and LiteralEnumProperty.build are statement-for-statement equal modulo the class name and "
                  "the representation of `values`; null members are extracted by identity (`is not None`) in both")
    a = ix.cls("EnumProperty").methods.get("build")
    b = ix.cls("LiteralEnumProperty").methods.get("build")
    rep.require(a and b, "enum builders")
    sa_, sb_ = _alpha(a), _alpha(b)
    rep.floor("enum_builder_statements", min(len(sa_), len(sb_)), 12)
    vname_a = next((x.split(" ")[0].split(":")[0] for x in sa_ if "values_from_list" in x), "values")
    allowed = re.compile(r"^(values|" + re.escape(vname_a) + r")\b.*=")  # the one intended difference: dict of named members vs set of values
    sm = difflib.SequenceMatcher(a=sa_, b=sb_, autojunk=False)
    n_diff = 0
    for tag, i1, i2, j1, j2 in sm.get_opcodes():
        if tag == "equal":
            for k in range(i1, i2):
                rep.ok(rid, f"enum-builders::stmt[{sa_[k][:50]}]", "EnumProperty.build", "= LiteralEnumProperty.build")
            continue
        left, right = sa_[i1:i2], sb_[j1:j2]
        if all(allowed.match(x) for x in left + right):
            rep.ok(rid, "enum-builders::values-representation", left[:1], right[:1], nontrivial=False)
            continue
        n_diff += 1
        rep.fail(rid, f"enum-builders::differs[{(left or right)[0][:60]}]",
                 "the two enum builders disagree outside the values representation: "
                 f"EnumProperty.build has {left[:2]}, LiteralEnumProperty.build has {right[:2]}",
                 where(a, a.node) + " / " + where(b, b.node), lhs=left[:2], rhs=right[:2])
    # null extraction by identity in both
    for f in (a, b):
        # the extraction (any spelling, any form): the first assignment computed from the schema's `enum` list, which is read either
        # directly (data.enum) or through locals bound to it (`enum = data.enum or []`)
        lc = Locals(f.node)
        enum_l = set(lc.bound_from(lambda v: v.startswith("data.enum"), "assign"))
        cands = [n for n in ast.walk(f.node) if isinstance(n, ast.Assign) and not norm(n.value).startswith("data.enum") and isinstance(n.targets[0], ast.Name)
                 and (names_in(n.value) & enum_l or "data.enum" in norm(n.value))]
        cands.sort(key=lambda n: n.lineno)
        rep.require(cands, f"null extraction in {short(f)}")
        n = cands[0]
        v = n.value
        ok = isinstance(v, ast.ListComp) and len(v.generators) == 1 and len(v.generators[0].ifs) == 1 and \
            isinstance(v.generators[0].ifs[0], ast.Compare) and isinstance(v.generators[0].ifs[0].ops[0], ast.IsNot) and \
            isinstance(v.generators[0].ifs[0].comparators[0], ast.Constant) and v.generators[0].ifs[0].comparators[0].value is None \
            and norm(v.elt) == norm(v.generators[0].target) and norm(v.generators[0].ifs[0].left) == norm(v.elt)
        rep.check(ok, rid, f"{short(f)}::null-extraction",
                  "members are dropped by something other than identity with None (falsy members such as 0 or '' would be "
                  "treated as null)", where(f, n), lhs=norm(v)[:80], rhs="[v for v in enum if v is not None]")


def enum_merge_parity(rep: Report, ctx: Any, rid: str) -> None:
    ix = ctx.py
    a = ix.func("merge_properties._merge_with_enum")
    b = ix.func("merge_properties._merge_with_literal_enum")
    sa_, sb_ = _alpha(a), _alpha(b)

    def canon(s: str) -> str:
        s = re.sub(r"_values_are_subset\((\w+), (\w+)\)", r"\1.values <= \2.values", s)
        s = re.sub(r"'[^']*can\\?'t[^']*'|\"[^\"]*can't[^\"]*\"", "'MSG'", s)
        s = re.sub(r"f'can\\?'t combine enum of type|f\"can't combine enum of type", "f'MSG", s)
        return s

    ca, cb = [canon(x) for x in sa_], [canon(x) for x in sb_]
    sm = difflib.SequenceMatcher(a=ca, b=cb, autojunk=False)
    for tag, i1, i2, j1, j2 in sm.get_opcodes():
        if tag == "equal":
            for k in range(i1, i2):
                rep.ok(rid, f"enum-merge::stmt[{ca[k][:50]}]", "_merge_with_enum", "= _merge_with_literal_enum")
            continue
        left, right = ca[i1:i2], cb[j1:j2]
        # message texts may differ
        if all("PropertyError(detail=" in x for x in left + right) and len(left) == len(right):
            continue
        rep.fail(rid, f"enum-merge::differs[{(left or right)[0][:60]}]",
                 f"the two enum merge functions disagree: {left[:2]} vs {right[:2]}", where(a, a.node) + " / " + where(b, b.node),
                 lhs=left[:2], rhs=right[:2])
