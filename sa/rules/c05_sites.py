"""Names of template holes for C05's construct keys (rule-private helper of sa/rules/c05.py).

A hole that prints a field of a macro parameter (`{{ body.content_type }}` inside `macro send(body)`) prints a field of whatever object
the macro's callers hand over.  Which macro the line sits in - written in place, extracted into a macro of the same template, moved
into an imported template, reached through a forwarding macro - says nothing about which document text reaches which generated
text; the object does.  Such a hole is therefore named where the object is named: at every call of the macro, with the argument the
caller writes put in the place of the parameter (`endpoint.bodies[*].content_type` in `<top>`), transitively up to the scope that
takes the object from the render variables or binds it itself.  A hole that prints a parameter *as such* (`{{ content }}`: the caller
supplies text, not an object) and a hole of a macro whose callers cannot all be enumerated (the macro is handed around as a value,
or called through an import whose template name is computed) keep the name of the place they are written in.
"""
from __future__ import annotations

from typing import Any, Iterator

from jinja2 import nodes

from ..jinja_interp import expr_text

TOP = "<top>"
MAX_DEPTH = 6
MAX_NAMES = 12


def _own(body: list[nodes.Node]) -> Iterator[nodes.Node]:
    """nodes of a scope, not descending into macros defined inside it"""
    stack = list(reversed(body))
    while stack:
        n = stack.pop()
        yield n
        if isinstance(n, nodes.Macro):
            continue
        stack.extend(reversed(list(n.iter_child_nodes())))


def _atomic(n: nodes.Node) -> bool:
    return isinstance(n, (nodes.Name, nodes.Getattr, nodes.Getitem, nodes.Call, nodes.Const))


class SiteNames:
    def __init__(self, jx: Any) -> None:
        self.jx = jx
        self.scopes: dict[tuple[str, str], list[nodes.Node]] = {}
        self.params: dict[tuple[str, str], list[str]] = {}
        self.defaults: dict[tuple[str, str], dict[str, nodes.Node]] = {}
        self.callers: dict[tuple[str, str], list[tuple[str, str, nodes.Call]]] = {}
        self.open: set[tuple[str, str]] = set()      # macros with callers that cannot be enumerated
        open_names: set[str] = set()
        for tn, ti in jx.templates.items():
            self.scopes[(tn, TOP)] = list(ti.tree.body)
            for mn, m in ti.macros.items():
                self.scopes[(tn, mn)] = list(m.body)
                names = [a.name for a in m.args]
                self.params[(tn, mn)] = names
                self.defaults[(tn, mn)] = dict(zip(names[len(names) - len(m.defaults):], m.defaults)) if m.defaults else {}
        for tn, ti in jx.templates.items():
            bound: dict[str, tuple[str, str]] = {mn: (tn, mn) for mn in ti.macros}   # name in this template -> macro
            modules: dict[str, str] = {}                                            # import alias -> template
            dynamic: set[str] = set()
            for n in ti.tree.find_all((nodes.FromImport, nodes.Import)):
                src = n.template.value if isinstance(n.template, nodes.Const) and isinstance(n.template.value, str) else None
                if isinstance(n, nodes.Import):
                    if src is None:
                        dynamic.add(n.target)
                    else:
                        modules[n.target] = src
                    continue
                for nm in n.names:
                    orig, alias = nm if isinstance(nm, tuple) else (nm, nm)
                    if src is None:
                        open_names.add(orig)
                    elif src in jx.templates and orig in jx.templates[src].macros:
                        bound[alias] = (src, orig)
            for (t2, scope), body in list(self.scopes.items()):
                if t2 != tn:
                    continue
                callees: set[int] = set()
                for n in _own(body):
                    if isinstance(n, nodes.Call):
                        f = n.node
                        key = None
                        if isinstance(f, nodes.Name) and f.name in bound:
                            key = bound[f.name]
                        elif isinstance(f, nodes.Getattr) and isinstance(f.node, nodes.Name):
                            if f.node.name in modules:
                                key = (modules[f.node.name], f.attr)
                            elif f.node.name in dynamic:
                                open_names.add(f.attr)
                        if key is not None and key in self.scopes:
                            callees.add(id(f))
                            if any(isinstance(a, nodes.Node) for a in (n.dyn_args, n.dyn_kwargs)):
                                self.open.add(key)
                            self.callers.setdefault(key, []).append((tn, scope, n))
                for n in _own(body):
                    # the macro as a value (in a tuple that is looped over, passed on, tested): whoever receives it may call it
                    if isinstance(n, nodes.Name) and n.ctx == "load" and n.name in bound and id(n) not in callees:
                        self.open.add(bound[n.name])
                    elif isinstance(n, nodes.Getattr) and isinstance(n.node, nodes.Name) and n.node.name in modules \
                            and id(n) not in callees and (modules[n.node.name], n.attr) in self.scopes:
                        self.open.add((modules[n.node.name], n.attr))
        for key in self.scopes:
            if key[1] in open_names:
                self.open.add(key)

    # ------------------------------------------------------------------------------------------------------------------
    def names(self, template: str, macro: str, expr: str, hole: str) -> list[tuple[str, str, str, str]]:
        """(template, scope, expression, hole) under which the hole `hole` of `{{ expr }}` written in template::macro is reported.
        Works on the canonical expression texts (sa/jinja_canon.py: a loop / set variable reads as its definition, so a variable
        bound from a parameter mentions the parameter)."""
        here = [(template, macro, expr, hole)]
        if macro == TOP:
            return here
        params = self.params.get((template, macro), [])
        probe = hole or expr
        if not any(_mentions(expr, p) or _mentions(hole, p) for p in params):
            return [(template, TOP, expr, hole)]      # reads render variables / globals only: those are the template's, not the macro's
        if not any(probe[i + len(p):i + len(p) + 1] in (".", "[") for p in params for i in _ident_spans(probe, p)):
            return here      # prints no field of a parameter object
        out: set[tuple[str, str, str, str]] = set()

        def go(scope: tuple[str, str], e: str, h: str, seen: tuple[tuple[str, str], ...]) -> bool:
            reads = {p for p in self.params.get(scope, []) if _mentions(e, p) or _mentions(h, p)}
            if scope[1] == TOP or not reads:
                out.add((scope[0], TOP, e, h))
                return True
            if scope in self.open or scope in seen or len(seen) >= MAX_DEPTH or not self.callers.get(scope):
                return False
            for ct, cs, call in self.callers[scope]:
                argmap = self._bind(scope, call)
                if not reads <= set(argmap):
                    return False
                sub = {p: argmap[p] for p in reads}
                if not go((ct, cs), _subst(e, sub), _subst(h, sub), (*seen, scope)):
                    return False
            return True

        if not go((template, macro), expr, hole, ()) or not out or len(out) > MAX_NAMES:
            return here
        return sorted(out)

    def _bind(self, key: tuple[str, str], call: nodes.Call) -> dict[str, str]:
        names = self.params.get(key, [])
        out: dict[str, str] = {}
        for p, a in zip(names, call.args):
            out[p] = _arg_text(a)
        for k in call.kwargs:
            if k.key in names:
                out[k.key] = _arg_text(k.value)
        for p, d in self.defaults.get(key, {}).items():
            out.setdefault(p, _arg_text(d))
        return out


def _arg_text(a: nodes.Node) -> str:
    t = expr_text(a)
    return t if _atomic(a) or (t.startswith("(") and t.endswith(")")) else f"({t})"


def _ident_spans(text: str, name: str) -> list[int]:
    """start offsets at which `name` stands in `text` as a variable (not part of a longer word, not an attribute, not in a string)"""
    out: list[int] = []
    i, n, quote = 0, len(text), ""
    while i < n:
        c = text[i]
        if quote:
            if c == "\\":
                i += 2
                continue
            if c == quote:
                quote = ""
            i += 1
            continue
        if c in "'\"":
            quote = c
            i += 1
            continue
        if text.startswith(name, i):
            before = text[i - 1] if i else ""
            after = text[i + len(name)] if i + len(name) < n else ""
            if not (before and (before.isalnum() or before in "_.")) and not (after and (after.isalnum() or after in "_=")):
                out.append(i)
                i += len(name)
                continue
        i += 1
    return out


def _mentions(text: str, name: str) -> bool:
    return bool(_ident_spans(text, name))


def _subst(text: str, mapping: dict[str, str]) -> str:
    spans = sorted((i, p) for p in mapping for i in _ident_spans(text, p))
    out, pos = [], 0
    for i, p in spans:
        if i < pos:
            continue
        out.append(text[pos:i])
        out.append(mapping[p])
        pos = i + len(p)
    out.append(text[pos:])
    return "".join(out)
