"""C19 - generation writes only where told, never clobbers, converges on overwrite."""
from __future__ import annotations

import ast
from typing import Any

from ..astutil import call_name, cfg_of, norm, short, stmt_calls, where
from ..cfg import CFG, ENTRY, EXIT
from ..charclass import S, members
from ..core import PKG, Report
from ..domain import CONFIG, CONST, ENUM, IDENT, NUM, WORD
from .effects import effect_sites

LEVEL = ("effect analysis: every filesystem/process effect site of the package is enumerated; its path operand (string "
         "structure from the abstract interpreter) must be project_dir/package_dir joined with literal or sanitised components, "
         "and E6 proves over all code points that the sanitisers used for components cannot produce '/', '\\\\', NUL, '.' or "
         "'..'; CFG dominance shows no effect precedes the overwrite decision and that models/ and api/ are removed on every "
         "path; the overwrite flag reaches Config unmodified.")

SAFE = {CONFIG, CONST, WORD, IDENT, NUM, ENUM}


def run(rep: Report, ctx: Any) -> str:
    ix = ctx.py
    it, ji = ctx.flow
    ch = ctx.chars
    t = ctx.tables
    rep.rule("R19.1", "every effect's path is <project_dir|package_dir>/<CONST or sanitised component>...; sanitiser alphabets "
                      "contain no path separator / NUL and results cannot be '.' or '..'; post-hooks run with cwd=project_dir")
    rep.rule("R19.2", "no effect before the existing-directory decision; the decision returns an error unless config.overwrite; "
                      "the --overwrite flag reaches Config.overwrite unmodified")
    rep.rule("R19.3", "models/ and api/ are removed on every path before being rebuilt; every other written file has a "
                      "document-independent name")
    rep.assumptions += ["--output-path, project/package name overrides and the working directory are the user's own (CONFIG)",
                        "post-hook commands come from the configuration"]
    cfgs: dict[str, CFG] = {}
    effs = [e for e in effect_sites(ix)]
    # keep only effects whose operand is a path / process (drop str.replace & co.)
    real = []
    for e in effs:
        av = it.node_av.get(id(e.target)) if e.target is not None else None
        if e.what in ("replace", "rename") and (av is None or "Path" not in av.types):
            continue
        real.append((e, av))
    rep.floor("effect_sites", len(real), 20)
    proj = ix.cls("Project")
    for e, av in real:
        key = f"{short(e.func)}::{e.what}({norm(e.target)[:50] if e.target is not None else ''})"
        if e.func.cls is not proj:
            rep.fail("R19.1", key, "filesystem/process effect outside Project", e.where)
            continue
        if av is None:
            rep.fail("R19.1", key, "path operand could not be evaluated", e.where)
            continue
        alts = av.alts
        if alts is None:
            # a bare directory field (self.project_dir / self.package_dir / cwd variable bound to it)
            ok = bool(av.labels) and av.labels <= {CONFIG, CONST, WORD} and _rooted(e.func.node, e.target)
            rep.check(ok, "R19.1", key, f"path operand `{norm(e.target)}` is not one of the output directories", e.where,
                      lhs=sorted(av.labels), rhs="self.project_dir / self.package_dir")
            continue
        bad: list[str] = []
        for alt in alts:
            first = alt[0] if alt else None
            if first is None or first.kind != "hole" or not (first.text.endswith("project_dir") or first.text.endswith("package_dir")):
                bad.append(f"does not start at the output directory: {list(alt)[:3]}")
                continue
            if not first.labels <= {CONFIG, CONST, WORD}:
                bad.append(f"output directory derived from {sorted(first.labels)}")
            for p in alt[1:]:
                if p.kind == "lit":
                    segs = p.text.split("/")
                    if any(s in ("..",) for s in segs) or "\\" in p.text or "\x00" in p.text:
                        bad.append(f"literal component {p.text!r}")
                elif p.kind == "hole":
                    if not p.labels <= SAFE:
                        bad.append(f"component `{p.text}` labelled {sorted(p.labels - SAFE)}")
                else:
                    bad.append("macro result in a path")
        rep.check(not bad, "R19.1", key, f"path may leave the output directory: {bad[:3]}", e.where,
                  lhs=[repr(list(a)) for a in sorted(alts, key=repr)][:2], rhs="<output dir>/(CONST|sanitised)*")
    # sanitiser alphabets for path components
    sep = 0
    for c in "/\\\x00":
        sep |= 1 << ord(c)
    dot = 1 << ord(".")
    for cls_name, modes in (("PythonIdentifier", (False, True)), ("ClassName", (None,))):
        f = ix.func(f"{cls_name}.__new__")
        for mode in modes:
            args = {"value": ch.TOP, "prefix": ch.PREFIX, "cls": None}
            tag = cls_name
            if mode is not None:
                args["skip_snake_case"] = mode
                tag += "[raw]" if mode else "[snake]"
            out, paths = ch.run_function(f, args)
            rep.require(isinstance(out, S), f"E6 result of {cls_name}")
            rep.check(not (out.any & sep), "R19.1", f"{tag}::no-separator",
                      f"result may contain {[repr(chr(c)) for c in members(out.any & sep)]}", where=f"{f.module.rel}:{f.node.lineno}",
                      lhs="alphabet (E6, all code points)", rhs="no '/', '\\\\', NUL")
            rep.check(not (out.first & dot) and not out.empty, "R19.1", f"{tag}::not-dot",
                      "result may be empty or start with '.': could be '.' or '..'", where=f"{f.module.rel}:{f.node.lineno}",
                      lhs="first characters (E6)", rhs="never '.', never empty")
    for fn in ("kebab_case", "snake_case"):
        f = ix.func(f"utils.{fn}")
        out, _ = ch.run_function(f, {"value": ch.TOP})
        rep.require(isinstance(out, S), f"E6 result of {fn}")
        rep.check(not (out.any & (sep | dot)), "R19.1", f"{fn}::no-separator-no-dot",
                  f"result may contain {[repr(chr(c)) for c in members(out.any & (sep | dot))]}", where=f"{f.module.rel}:{f.node.lineno}",
                  lhs="alphabet (E6)", rhs="no '/', '\\\\', NUL, '.'")
    # project_dir / package_dir definitions
    for fld in ("project_dir", "package_dir", "project_name", "package_name"):
        fv = it.fields.get((proj.qual, fld))
        rep.require(fv is not None, f"Project.{fld}")
        rep.check(fv.labels <= {CONFIG, CONST, WORD}, "R19.1", f"Project.{fld}",
                  f"Project.{fld} may contain text labelled {sorted(fv.labels - {CONFIG, CONST, WORD})}",
                  where=f"{proj.module.rel}:{proj.node.lineno}", lhs=sorted(fv.labels), rhs="{CONFIG, CONST, WORD}")
    # post hooks: cwd = project_dir, command from config
    runs = [(e, av) for e, av in real if e.what == "run"]
    for e, av in runs:
        kw = {k.arg: k.value for k in e.node.keywords}
        cmd = e.node.args[0] if e.node.args else None
        cav = it.node_av.get(id(cmd)) if cmd is not None else None
        rep.check("cwd" in kw and cav is not None and cav.labels <= {CONFIG, CONST}, "R19.1", f"{short(e.func)}::run-cwd-and-command",
                  "post-hook process not confined to project_dir or command not from configuration", e.where,
                  lhs=(sorted(cav.labels) if cav else None), rhs="cwd=project_dir, command labelled CONFIG")

    # ---- R19.2 -------------------------------------------------------------------------------------------------
    build = proj.methods.get("build")
    rep.require(build, "Project.build")
    cfg = cfg_of(build, cfgs)
    # effect summary: methods of Project with (transitive) effects
    eff_methods = {e.func.name for e, _ in real}
    changed = True
    while changed:
        changed = False
        for m in proj.methods.values():
            if m.name in eff_methods:
                continue
            if any(isinstance(c, ast.Call) and isinstance(c.func, ast.Attribute) and isinstance(c.func.value, ast.Name) and
                   c.func.value.id == "self" and c.func.attr in eff_methods for c in ast.walk(m.node)):
                eff_methods.add(m.name)
                changed = True
    tries = [s for s in cfg.stmts() if isinstance(s, ast.Try) and any(stmt_calls(x, "project_dir.mkdir") for x in s.body)]
    rep.require(tries, "the mkdir decision in Project.build")
    tr = tries[0]
    handler_ok = False
    for h in tr.handlers:
        if h.type is not None and "FileExistsError" in norm(h.type):
            for n in ast.walk(h):
                if isinstance(n, ast.If) and "overwrite" in norm(n.test) and isinstance(n.test, ast.UnaryOp) and \
                        any(isinstance(r, ast.Return) and "GeneratorError" in norm(r) for r in n.body):
                    handler_ok = True
    rep.check(handler_ok, "R19.2", "Project.build::existing-directory-decision",
              "an existing output directory does not lead to `return [GeneratorError]` unless config.overwrite", where(build, tr),
              lhs=norm(tr)[:120], rhs="except FileExistsError: if not self.config.overwrite: return [GeneratorError(...)]")
    n_calls = 0
    for s in cfg.stmts():
        if isinstance(s, ast.Try) or s in tr.body:
            continue
        callee = [c.func.attr for c in ast.walk(s) if isinstance(c, ast.Call) and isinstance(c.func, ast.Attribute) and
                  isinstance(c.func.value, ast.Name) and c.func.value.id == "self" and c.func.attr in eff_methods]
        direct = [e for e, _ in real if e.func is build and any(x is e.node for x in ast.walk(s))]
        if not callee and not direct:
            continue
        n_calls += 1
        rep.check(cfg.is_dominated_by(s, lambda n: n is tr), "R19.2", f"Project.build::{norm(s)[:50]}",
                  "an effect can happen before the existing-directory decision", where(build, s), lhs=norm(s)[:60],
                  rhs="dominated by the mkdir try")
    rep.floor("effectful_steps_in_build", n_calls, 4)
    init = proj.methods.get("__init__")
    rep.check(not any(e.func is init for e, _ in real), "R19.2", "Project.__init__::no-effects", "effect in Project.__init__",
              where(init, init.node) if init else "")
    # overwrite flag plumbing (shared with C16 R16.1)
    cli_gen = ix.func("cli.generate")
    pc = ix.func("cli._process_config")
    ok = False
    for c in ast.walk(cli_gen.node):
        if isinstance(c, ast.Call) and call_name(c) == "_process_config":
            kw = {k.arg: norm(k.value) for k in c.keywords}
            ok = kw.get("overwrite") == "overwrite" and kw.get("output_path") == "output_path"
    assigns = [n for n in ast.walk(pc.node) if isinstance(n, (ast.Assign, ast.AugAssign, ast.AnnAssign)) and
               any(isinstance(x, ast.Name) and x.id in ("overwrite", "output_path") and isinstance(x.ctx, ast.Store) for x in ast.walk(n))]
    fs = [c for c in ast.walk(pc.node) if isinstance(c, ast.Call) and call_name(c).endswith("from_sources")]
    passed = False
    for c in fs:
        argtxt = [norm(a) for a in c.args] + [f"{k.arg}={norm(k.value)}" for k in c.keywords]
        passed = "overwrite" in argtxt and ("output_path=output_path" in argtxt or "output_path" in argtxt)
    rep.check(ok and passed and not assigns, "R19.2", "cli::overwrite-plumbing",
              "the --overwrite / --output-path values are modified or not forwarded verbatim on their way to Config", where(pc, pc.node),
              lhs=[norm(a)[:60] for a in assigns], rhs="forwarded unmodified")

    # ---- R19.3 -----------------------------------------------------------------------------------------------------
    for mname, dname in (("_build_models", "models"), ("_build_api", "api")):
        m = proj.methods.get(mname)
        rep.require(m, f"Project.{mname}")
        c2 = cfg_of(m, cfgs)
        rm = [s for s in c2.stmts() if stmt_calls(s, "rmtree")]
        rep.check(bool(rm) and c2.every_path_passes(ENTRY, EXIT, lambda n: n in rm), "R19.3", f"Project.{mname}::rmtree-on-every-path",
                  f"{dname}/ is not removed on every path through {mname}: stale modules of an earlier generation survive", where(m, m.node),
                  lhs=[norm(s) for s in rm], rhs="on every path from entry to exit")
        # every write into the directory comes after the rmtree
        for e, av in real:
            if e.func is m and e.what in ("write_text", "mkdir") and av is not None and av.alts and any(
                    any(p.kind == "lit" and f"/{dname}" in p.text for p in alt) for alt in av.alts):
                st = next((s for s in c2.stmts() if any(x is e.node for x in ast.walk(s)) and not isinstance(s, (ast.For, ast.If))), None)
                if st is None:
                    continue
                rep.check(c2.is_dominated_by(st, lambda n: n in rm), "R19.3", f"Project.{mname}::{e.what}({norm(e.target)[:30]})",
                          f"a write into {dname}/ is not preceded by its removal", e.where, lhs=norm(st)[:60], rhs="dominated by rmtree")
    # build() reaches both rebuild steps on every path after the decision
    for mname in ("_build_models", "_build_api"):
        calls = [s for s in cfg.stmts() if stmt_calls(s, f"self.{mname}")]
        rets = [s for s in cfg.stmts() if isinstance(s, ast.Return) and "GeneratorError" not in norm(s)]
        ok3 = bool(calls) and all(cfg.is_dominated_by(r, lambda n: n in calls) for r in rets)
        rep.check(ok3, "R19.3", f"Project.build::always-{mname}", f"{mname} is skipped on some successful path", where(build, build.node),
                  lhs=[norm(c) for c in calls], rhs="dominates every successful return")
    # document-dependent file names only under models/ and api/
    for e, av in real:
        if e.what != "write_text" or av is None or not av.alts:
            continue
        for alt in av.alts:
            dyn = [p for p in alt[1:] if p.kind == "hole"]
            if dyn:
                lits = "".join(p.text for p in alt if p.kind == "lit")
                rep.check(lits.startswith("/models/") or lits.startswith("/api/"), "R19.3", f"{short(e.func)}::dynamic-name({dyn[0].text[:40]})",
                          "a file with a document-dependent name is written outside models/ and api/ (never cleaned up)", e.where,
                          lhs=lits, rhs="under /models/ or /api/")
    rep.not_decided += ["histories across different metadata flavours (excluded by the property) and file-system races"]
    return LEVEL


def _rooted(fn: ast.AST, target: ast.expr | None) -> bool:
    """target is self.project_dir / self.package_dir or a local assigned from one of them"""
    if target is None:
        return False
    t = norm(target)
    if t in ("self.project_dir", "self.package_dir"):
        return True
    if isinstance(target, ast.Name):
        for n in ast.walk(fn):
            if isinstance(n, ast.Assign) and any(norm(x) == t for x in n.targets) and norm(n.value) in ("self.project_dir", "self.package_dir"):
                return True
    return False
