"""C19 - generation writes only where told, never clobbers, converges on overwrite."""
from __future__ import annotations

import ast
from typing import Any

from ..astutil import Locals, call_name, cfg_of, constructs_error, norm, region, resolved_text, short, terminals, where
from ..cfg import CFG, ENTRY, EXIT, walk_own
from ..charclass import S, members
from ..core import PKG, Report
from ..domain import CONFIG, CONST, ENUM, IDENT, NUM, WORD
from .c19loc import FieldFlow, Placement, below
from .c19run import command_callee, state_probe
from .effects import (callee_of, constant_of, effect_argument, effect_sites, in_context, local_sources, operand_av,
                      is_probe, performing, reach, root_canonical, state_dependence)

LEVEL = ("effect analysis: every filesystem/process effect site of the package is enumerated; its path operand (string "
         "structure from the abstract interpreter) must be project_dir/package_dir joined with literal or sanitised components, "
         "and E6 proves over all code points that the sanitisers used for components cannot produce '/', '\\\\', NUL, '.' or "
         "'..'; CFG dominance shows no effect precedes the overwrite decision and that models/ and api/ are removed on every "
         "path and are filled only after a creation that refuses a path still in place; control dependence shows that no write or "
         "process - nor whether the command reaches the builder at all - depends on what the filesystem already holds, apart from the "
         "refusal of an existing directory, which is decided about project_dir itself; the overwrite "
         "flag reaches Config unmodified.")

# what the output directories themselves may be made of: the user's own choice (--output-path, project / package name overrides,
# the working directory) or the sanitised title
ROOT = {CONFIG, CONST, WORD}
# what a computed component BELOW an output directory may be made of: text of the package, a number, an enum member, or the result of
# a sanitiser whose alphabet E6 bounds (IDENT, WORD). Configuration text is not among them: only the choice of the output location is
# the user's own - a name from the configuration that becomes a file or directory name below it (a module-name override, a prefix)
# confines the generation no better than a name from the document unless it has passed a sanitiser
SAFE = {CONST, WORD, IDENT, NUM, ENUM}
OUTPUT_DIRS = ("project_dir", "package_dir")
# probes that say whether a path is there
EXISTENCE = {"exists", "lexists", "is_dir", "isdir"}


def _outdir(text: str) -> str:
    """'project_dir' / 'package_dir' when the expression reads that attribute of the project (`self.package_dir`), else ''"""
    head, _, last = text.rpartition(".")
    return last if head.isidentifier() and last in OUTPUT_DIRS else ""


def run(rep: Report, ctx: Any) -> str:
    ix = ctx.py
    it, ji = ctx.flow
    ch = ctx.chars
    t = ctx.tables
    rep.rule("R19.1", "every effect's path is <project_dir|package_dir>/<CONST or sanitised component>...: only the output directories "
                      "themselves may carry the user's configuration verbatim, every computed component below them - whether the name "
                      "comes from the document or from the configuration - is the result of a sanitiser (IDENT / WORD), a number, an "
                      "enum member or text of the package; sanitiser alphabets contain no path separator / NUL and results cannot be "
                      "'.' or '..'; post-hooks run with cwd=project_dir")
    rep.rule("R19.2", "no effect before the existing-directory decision - the exclusive creation of an output directory whose "
                      "FileExistsError is caught, or a test of its existence; the decision is taken about project_dir itself (on every "
                      "path, through whatever locals), not about another directory or a path below it, and returns an error unless "
                      "config.overwrite; "
                      "the values of --overwrite and --output-path arrive - themselves, never rebound, nothing computed from them - in "
                      "the fields of the same names of every Config constructed from the command line, and these fields are not "
                      "assigned (nor replaced in a copy) afterwards")
    rep.rule("R19.3", "models/ and api/ are removed on every path before being rebuilt, and filled only once they are known to be new: "
                      "every write below them follows, on every path, a creation of the directory that fails when the path is still "
                      "there (or the removal cannot fail silently); nothing but these rebuilt directories (or paths below them) is ever "
                      "removed or moved; every other written file has a document-independent name")
    rep.rule("R19.4", "what a generation writes and runs is a function of the document and the configuration, not of what the filesystem "
                      "already holds: no file write / copy / process is control-dependent on an observation of the filesystem (a probe "
                      "such as exists / is_file / stat / read / listing, an OSError handler around a filesystem operation, a helper "
                      "containing one, or a local carrying its outcome) and none takes such an outcome as an argument; the one "
                      "sanctioned dependence is the refusal of an existing directory (R19.2). Creating a directory and removing a path "
                      "are not counted: doing so only when needed gives the same tree. The same holds for whether a generation runs at "
                      "all: every step from the generate command towards Project.build (followed through imports made inside a "
                      "function, constructors and methods of the objects built) is independent of such observations; on that way the "
                      "content of a file that is read (the document, the configuration file) is an input, not an observation, unless "
                      "the path read leads to the output location - existence, kind, time stamps, sizes and listings always are")
    rep.rule("R19.5", "where told: on every path through the constructor of Project on which Config.output_path is set, project_dir ends up "
                      "denoting that very location (the value itself, Path(...) of it, its absolute / resolved form, or the working "
                      "directory joined with it) - tests on the field are decided by its being set however they are written, "
                      "assignments made and values returned by helpers are followed; package_dir is project_dir or a path joined below "
                      "it without a step back; neither is assigned outside the constructor")
    rep.assumptions += ["--output-path, project/package name overrides and the working directory are the user's own (CONFIG)",
                        "post-hook commands come from the configuration"]
    cfgs: dict[str, CFG] = {}
    # floors are settled when everything has been looked at: a count that falls short aborts the analysis (exit 2) only when nothing has
    # been reported - a violation that also moves an anchor (the output directory is composed differently, so nothing is recognised as
    # lying below models/ any more) is reported as the violation it is, not hidden behind the shortfall it causes
    short_of: list[tuple[str, int, int]] = []

    def floor(what: str, n: int, minimum: int) -> None:
        rep.indexed[what] = n
        if n < minimum:
            short_of.append((what, n, minimum))

    # an effect performed by a helper on a path it is handed (`_render_to(path, ...)`) is stated at each call of the helper, with the
    # argument as its path: destinations and the order of effects read the same whether a write is spelled out or routed through a helper
    effs = in_context(ix, effect_sites(ix))
    # keep only effects whose operand is a path / process (drop str.replace & co.)
    real = []
    for e in effs:
        av = operand_av(it, e.target)
        if e.what in ("replace", "rename") and (av is None or "Path" not in av.types):
            continue
        # the directory a path starts from is named by value: a local it is carried through (`pkg = self.package_dir`) is followed
        real.append((e, root_canonical(ix, av, [e.func, e.site_func])))
    # the floor counts destinations (kind of effect + structure of its path: literal text, a mark per computed component, the directory
    # it starts from), not syntactic sites: one helper writing for several callers, or several sites writing the same kind of file, count
    # by what they write to
    def _dests(e: Any, av: Any) -> set[tuple]:
        if av is None or not av.alts:
            return {(e.what, norm(e.target) if e.target is not None else "")}
        return {(e.what, "".join(p.text if p.kind == "lit" else "{}" for p in alt[1:]), alt[0].text.rsplit(".", 1)[-1] if alt else "")
                for alt in av.alts}

    rep.indexed["effect_sites"] = len(real)
    floor("effect_destinations", len({d for e, av in real for d in _dests(e, av)}), 11)
    proj = ix.cls("Project")
    for e, av in real:
        key = f"{short(e.func)}::{e.what}({norm(e.target)[:50] if e.target is not None else ''})"
        if e.func.cls is not proj:
            rep.fail("R19.1", key, "filesystem/process effect outside Project", e.where)
            continue
        if av is None:
            rep.fail("R19.1", key, "path operand could not be evaluated", e.where)
            continue
        alts = av.alts
        if alts is None:
            # a bare directory field (self.project_dir / self.package_dir / cwd variable bound to it)
            ok = bool(av.labels) and av.labels <= ROOT and _rooted(e.func.node, e.target)
            rep.check(ok, "R19.1", key, f"path operand `{norm(e.target)}` is not one of the output directories", e.where,
                      lhs=sorted(av.labels), rhs="self.project_dir / self.package_dir")
            continue
        bad: list[str] = []
        for alt in alts:
            first = alt[0] if alt else None
            if first is None or first.kind != "hole" or not _outdir(first.text):
                bad.append(f"does not start at the output directory: {list(alt)[:3]}")
                continue
            if not first.labels <= ROOT:
                bad.append(f"output directory derived from {sorted(first.labels)}")
            for p in alt[1:]:
                if p.kind == "lit":
                    segs = p.text.split("/")
                    if any(s in ("..",) for s in segs) or "\\" in p.text or "\x00" in p.text:
                        bad.append(f"literal component {p.text!r}")
                elif p.kind == "hole":
                    if not p.labels <= SAFE:
                        bad.append(f"component `{p.text}` labelled {sorted(p.labels - SAFE)}: not sanitised")
                else:
                    bad.append("macro result in a path")
        rep.check(not bad, "R19.1", key, f"path may leave the output directory: {bad[:3]}", e.where,
                  lhs=[repr(list(a)) for a in sorted(alts, key=repr)][:2], rhs="<output dir>/(CONST|IDENT|WORD|NUM|ENUM)*")
    # sanitiser alphabets for path components
    sep = 0
    for c in "/\\\x00":
        sep |= 1 << ord(c)
    dot = 1 << ord(".")
    for cls_name, modes in (("PythonIdentifier", (False, True)), ("ClassName", (None,))):
        f = ix.func(f"{cls_name}.__new__")
        for mode in modes:
            args = {"value": ch.TOP, "prefix": ch.PREFIX, "cls": None}
            tag = cls_name
            if mode is not None:
                args["skip_snake_case"] = mode
                tag += "[raw]" if mode else "[snake]"
            out, paths = ch.run_function(f, args)
            rep.require(isinstance(out, S), f"E6 result of {cls_name}")
            rep.check(not (out.any & sep), "R19.1", f"{tag}::no-separator",
                      f"result may contain {[repr(chr(c)) for c in members(out.any & sep)]}", where=f"{f.module.rel}:{f.node.lineno}",
                      lhs="alphabet (E6, all code points)", rhs="no '/', '\\\\', NUL")
            rep.check(not (out.first & dot) and not out.empty, "R19.1", f"{tag}::not-dot",
                      "result may be empty or start with '.': could be '.' or '..'", where=f"{f.module.rel}:{f.node.lineno}",
                      lhs="first characters (E6)", rhs="never '.', never empty")
    for fn in ("kebab_case", "snake_case"):
        f = ix.func(f"utils.{fn}")
        out, _ = ch.run_function(f, {"value": ch.TOP})
        rep.require(isinstance(out, S), f"E6 result of {fn}")
        rep.check(not (out.any & (sep | dot)), "R19.1", f"{fn}::no-separator-no-dot",
                  f"result may contain {[repr(chr(c)) for c in members(out.any & (sep | dot))]}", where=f"{f.module.rel}:{f.node.lineno}",
                  lhs="alphabet (E6)", rhs="no '/', '\\\\', NUL, '.'")
    # project_dir / package_dir definitions
    for fld in ("project_dir", "package_dir", "project_name", "package_name"):
        fv = it.fields.get((proj.qual, fld))
        rep.require(fv is not None, f"Project.{fld}")
        rep.check(fv.labels <= ROOT, "R19.1", f"Project.{fld}",
                  f"Project.{fld} may contain text labelled {sorted(fv.labels - ROOT)}",
                  where=f"{proj.module.rel}:{proj.node.lineno}", lhs=sorted(fv.labels), rhs="{CONFIG, CONST, WORD}")
    # post hooks: cwd = project_dir, command from config
    runs = [(e, av) for e, av in real if e.what == "run"]
    for e, av in runs:
        kw = {k.arg: k.value for k in e.site.keywords}
        cmd = e.site.args[0] if e.site.args else None
        cav = it.node_av.get(id(cmd)) if cmd is not None else None
        rep.check("cwd" in kw and cav is not None and cav.labels <= {CONFIG, CONST}, "R19.1", f"{short(e.func)}::run-cwd-and-command",
                  "post-hook process not confined to project_dir or command not from configuration", e.where,
                  lhs=(sorted(cav.labels) if cav else None), rhs="cwd=project_dir, command labelled CONFIG")

    # ---- R19.2 -------------------------------------------------------------------------------------------------
    build = proj.methods.get("build")
    rep.require(build, "Project.build")
    cfg = cfg_of(build, cfgs)
    # effect summary: methods of Project with (transitive) effects
    eff_methods = {e.func.qual for e, _ in real} | {e.site_func.qual for e, _ in real}
    changed = True
    while changed:
        changed = False
        for m in proj.methods.values():
            if m.qual in eff_methods:
                continue
            if any(isinstance(c, ast.Call) and getattr(callee_of(ix, m, c), "qual", None) in eff_methods for c in ast.walk(m.node)):
                eff_methods.add(m.qual)
                changed = True

    # the existing-directory decision: the statement that finds out whether the output directory is already there - its creation with
    # the FileExistsError caught, or a test of its existence - in build itself or in a private helper build delegates to. It is looked
    # for by what it asks about (a path that leads to one of the output directories); that it asks about project_dir itself is
    # then a check of its own, so that a decision taken about another directory is reported as such, not lost as a missing anchor
    def about_outdir(f: Any, x: "ast.expr | None") -> bool:
        return x is not None and any(_outdir(t.strip()) or any(f".{d}" in t for d in OUTPUT_DIRS) for t in resolved_text(x, f.node).split(" <- "))

    def is_project_dir(f: Any, x: "ast.expr | None") -> bool:
        srcs = local_sources(f.node, x) if x is not None else []
        return bool(srcs) and all(_outdir(norm(y)) == "project_dir" for y in srcs)

    def existence_probe(f: Any, n: ast.AST) -> "ast.expr | None":
        """the path whose being there the call asks about"""
        if isinstance(n, ast.Call) and call_name(n).rsplit(".", 1)[-1] in EXISTENCE and is_probe(ix, f, n):
            own = isinstance(n.func, ast.Attribute) and not n.args
            return n.func.value if own else (n.args[0] if n.args else None)   # type: ignore[union-attr]
        return None

    def creation_subject(f: Any, s_: ast.stmt) -> "ast.expr | None":
        if isinstance(s_, ast.Try) and any(h.type is not None and "FileExistsError" in norm(h.type) for h in s_.handlers):
            for e, _ in real:
                # a creation that tolerates an existing path (exist_ok) asks nothing
                if e.site_func is f and e.what in ("mkdir", "makedirs") and e.origin is None and about_outdir(f, e.target) \
                        and _exclusive_creation(ix, e) and any(x is e.node for b in s_.body for x in ast.walk(b)):
                    return e.target
        return None

    def probed(f: Any) -> dict[str, ast.expr]:
        """locals of f that hold the outcome of an existence probe -> the path asked about"""
        return {name: sub for name, ds in Locals(f.node).defs.items() for _k, _st, v in ds if v is not None
                for sub in [existence_probe(f, v)] if sub is not None}

    def test_subject(f: Any, s_: ast.stmt) -> "ast.expr | None":
        if isinstance(s_, ast.If):
            held = probed(f)
            for n in ast.walk(s_.test):
                sub = existence_probe(f, n) or (held.get(n.id) if isinstance(n, ast.Name) else None)
                if sub is not None and about_outdir(f, sub):
                    return sub
            # `if a: if b: ...` asks what `if a and b: ...` asks: the outer statement is where the decision starts
            if s_.body and isinstance(s_.body[0], ast.If):
                return test_subject(f, s_.body[0])
        return None

    found = [(g, s_, sub) for g in region(ix, build) for s_ in cfg_of(g, cfgs).stmts()
             for sub in [creation_subject(g, s_) or test_subject(g, s_)] if sub is not None]
    rep.require(found, "the existing-directory decision (creation of an output directory with a FileExistsError handler, or a test of its "
                       "existence) in Project.build or a helper it calls")
    found = [t for t in found if not any(isinstance(o[1], ast.If) and o[1].body and o[1].body[0] is t[1] for o in found)]
    found.sort(key=lambda t: not is_project_dir(t[0], t[2]))   # stable: the one about project_dir first, else the first met
    dfn, tr, subject = found[0]
    decision_nodes = {id(e.node) for e, _ in real if e.site_func is dfn and isinstance(tr, ast.Try)
                      and any(x is e.node for b in tr.body for x in ast.walk(b))}

    # when the directory exists and config.overwrite is false, every way through the handler ends in a returned error - however the
    # test is written (`if not overwrite: return err` / `if overwrite: ... else: return err` / `if overwrite: return None; return err`)
    def no_overwrite(t: ast.expr) -> "bool | None":
        if isinstance(t, (ast.Name, ast.Attribute)) and any(x.strip().endswith("overwrite") for x in resolved_text(t, dfn.node).split(" <- ")):
            return False
        return None

    handler_ok = False
    refusals: set[ast.stmt] = set()   # the statements of build that leave it with the refusal
    if isinstance(tr, ast.Try):
        for h in tr.handlers:
            if h.type is not None and "FileExistsError" in norm(h.type):
                terms, falls = terminals(h.body, no_overwrite)
                handler_ok = bool(terms) and not falls and all(isinstance(x, ast.Return) and constructs_error(x.value) for x in terms)
                if dfn is build:
                    refusals |= terms
    else:
        # a test of existence: with the directory there and config.overwrite false, every way on from the test ends in a returned error
        held = probed(dfn)

        def there_no_overwrite(t: ast.expr) -> "bool | None":
            if existence_probe(dfn, t) is not None or (isinstance(t, ast.Name) and t.id in held):
                return True
            return no_overwrite(t)

        terms, falls = terminals(_from(dfn.node, tr), there_no_overwrite)
        handler_ok = bool(terms) and not falls and all(isinstance(x, ast.Return) and constructs_error(x.value) for x in terms)
        if dfn is build and handler_ok:
            refusals |= terms
    about = is_project_dir(dfn, subject)
    rep.check(handler_ok and about, "R19.2", "Project.build::existing-directory-decision",
              "an existing output directory does not lead to a returned GeneratorError unless config.overwrite" if not handler_ok else
              f"the existing-directory decision is taken about `{norm(subject)}` = {[norm(x)[:40] for x in local_sources(dfn.node, subject)][:3]}, "
              "not (on every path) about project_dir itself: an output directory that exists is written into without --overwrite "
              "whenever the other path is not there", where(dfn, tr),
              lhs=norm(tr)[:120], rhs="except FileExistsError: if not self.config.overwrite: return [GeneratorError(...)]  (about self.project_dir)")
    # the point of build after which the decision has been taken: the try itself, or - when a helper takes it - the test of the
    # helper's result whose error arm leaves build with that error
    point: ast.stmt | None = tr
    if dfn is not build:
        def is_decision_call(n: ast.AST) -> bool:
            return isinstance(n, ast.Call) and callee_of(ix, build, n) is dfn

        holders = {name for name, ds in Locals(build.node).defs.items() for _k, _st, v in ds
                   if v is not None and any(is_decision_call(x) for x in ast.walk(v))}

        def is_result(x: ast.AST) -> bool:
            return (isinstance(x, ast.Name) and x.id in holders) or is_decision_call(x) or \
                (isinstance(x, ast.NamedExpr) and is_result(x.value))

        def refused(t: ast.expr) -> "bool | None":
            """the test, given that the helper returned its error"""
            if is_result(t):
                return True
            if isinstance(t, ast.Compare) and len(t.ops) == 1 and is_result(t.left) and isinstance(t.comparators[0], ast.Constant) \
                    and t.comparators[0].value is None:
                return isinstance(t.ops[0], (ast.IsNot, ast.NotEq))
            if isinstance(t, ast.Call) and call_name(t) == "isinstance" and t.args and is_result(t.args[0]):
                return True
            return None

        point = None
        for s_ in cfg.stmts():
            if isinstance(s_, ast.If) and any(is_result(x) for x in ast.walk(s_.test)):
                terms, falls = terminals([s_], refused)
                if terms and not falls and all(isinstance(x, ast.Return) and x.value is not None and
                                               (any(is_result(y) for y in ast.walk(x.value)) or constructs_error(x.value)) for x in terms):
                    point = s_
                    refusals |= terms
                    break
        rep.check(point is not None, "R19.2", "Project.build::decision-propagated",
                  f"the error returned by {short(dfn)} (existing directory, no overwrite) does not make build return it", where(build, build.node),
                  lhs=sorted(holders), rhs="if <result> is not None: return [<result>]")
        # inside the helper nothing else happens before the decision
        cd = cfg_of(dfn, cfgs)
        for e, _ in real:
            if e.func is dfn and id(e.node) not in decision_nodes:
                for st in cd.stmts():
                    if any(x is e.node for x in walk_own(st)):
                        rep.check(cd.is_dominated_by(st, lambda n: n is tr), "R19.2", f"{short(dfn)}::{norm(st)[:50]}",
                                  "an effect can happen before the existing-directory decision", where(dfn, st), lhs=norm(st)[:60],
                                  rhs="dominated by the mkdir try")
    n_calls = 0
    for s in cfg.stmts():
        if isinstance(s, ast.Try) or s is point:
            continue
        own = [c for c in walk_own(s) if isinstance(c, ast.Call)]
        callee = [g.name for g in (callee_of(ix, build, c) for c in own) if g is not None and g.qual in eff_methods and g is not dfn]
        direct = [e for e, _ in real if e.func is build and id(e.node) not in decision_nodes and any(x is e.node for x in own)]
        if not callee and not direct:
            continue
        n_calls += 1
        rep.check(point is not None and cfg.is_dominated_by(s, lambda n: n is point), "R19.2", f"Project.build::{norm(s)[:50]}",
                  "an effect can happen before the existing-directory decision", where(build, s), lhs=norm(s)[:60],
                  rhs="dominated by the decision (mkdir try / test of its result)")
    floor("effectful_steps_in_build", n_calls, 2)
    init = proj.methods.get("__init__")
    rep.check(not any(e.func is init for e, _ in real), "R19.2", "Project.__init__::no-effects", "effect in Project.__init__",
              where(init, init.node) if init else "")
    # overwrite flag plumbing: the values the command receives for --overwrite / --output-path arrive - themselves, never rebound,
    # nothing computed from them - in the fields of the same names of every Config constructed on the way, through whatever chain of
    # calls of the package, by position, by keyword, through locals or through a keyword dictionary; no field is assigned afterwards
    cli_gen = ix.func("cli.generate")
    cfgc = ix.cls("Config")
    flow = FieldFlow(ix, cfgc)
    plumbed = ("overwrite", "output_path")
    rep.require(all(nm in flow.fields for nm in plumbed) and all(any(p.arg == nm for p in cli_gen.params) for nm in plumbed),
                "the overwrite / output_path options of the generate command and the fields of Config of the same names")
    ok = all([flow.arrives(cli_gen, nm, nm) for nm in plumbed])
    rep.check(ok, "R19.2", "cli::overwrite-plumbing",
              "the --overwrite / --output-path values are modified or not forwarded verbatim on their way to Config", where(cli_gen, cli_gen.node),
              lhs=flow.notes[:4], rhs="forwarded unmodified into Config(overwrite=, output_path=)")
    later: list[str] = []
    for f in ix.all_functions:
        for n in ast.walk(f.node):
            if isinstance(n, ast.Attribute) and n.attr in plumbed and isinstance(n.ctx, (ast.Store, ast.Del)):
                later.append(f"{where(f, n)}: {norm(n)} is assigned")
            elif isinstance(n, ast.Call):
                cn = call_name(n).rsplit(".", 1)[-1]
                if cn in ("setattr", "delattr", "__setattr__") and any(isinstance(a, ast.Constant) and a.value in plumbed for a in n.args):
                    later.append(f"{where(f, n)}: {norm(n)[:60]}")
                elif any(k.arg in plumbed for k in n.keywords) and callee_of(ix, f, n) is None and not flow.is_ctor(f, n) \
                        and any(fv is not None and cfgc.qual in (fv.types or ()) for a in n.args for fv in [it.node_av.get(id(a))]):
                    later.append(f"{where(f, n)}: {norm(n)[:60]} makes a copy of the configuration with another value")
    rep.check(not later, "R19.2", "Config::overwrite-and-output-path-set-once",
              "Config.overwrite / Config.output_path are given a value after the configuration has been built from the command line",
              later[0].split(": ")[0] if later else where(cli_gen, cli_gen.node), lhs=later[:3], rhs="set by the constructor only")

    # ---- R19.5 -----------------------------------------------------------------------------------------------------
    # where told: whenever --output-path is given, project_dir is that very location, however the constructor is laid out
    init = proj.methods.get("__init__")
    rep.require(init, "Project.__init__")
    given = Placement(ix, "output_path")
    held = given.final(init, "project_dir")
    wrong = [(g, x) for g, _gv, x in held if not (isinstance(x, ast.AST) and given.denotes(g, _gv, x))]
    rep.check(bool(held) and not wrong, "R19.5", "Project.project_dir::is-the-output-path-when-given",
              "with --output-path given, project_dir is not (on every path) the location it names: "
              f"{[x if isinstance(x, str) else norm(x)[:70] for _g, x in wrong][:3]}",
              where(wrong[0][0], wrong[0][1]) if wrong and isinstance(wrong[0][1], ast.AST) and hasattr(wrong[0][1], "lineno") else where(init, init.node),
              lhs=[x if isinstance(x, str) else norm(x)[:70] for _g, x in wrong][:3] or [norm(x)[:70] for _g, _v, x in held][:3],
              rhs="config.output_path (itself, Path(...) of it, .absolute() / .resolve(), cwd / it)")
    anyway = Placement(ix, "output_path", decided=False)
    pk = anyway.final(init, "package_dir")
    outside = [(g, x) for g, _gv, x in pk if not below(g, x, "project_dir")]
    rep.check(bool(pk) and not outside, "R19.5", "Project.package_dir::project_dir-or-below",
              f"package_dir is not project_dir or a path joined below it: {[x if isinstance(x, str) else norm(x)[:70] for _g, x in outside][:3]}",
              where(outside[0][0], outside[0][1]) if outside and isinstance(outside[0][1], ast.AST) and hasattr(outside[0][1], "lineno") else where(init, init.node),
              lhs=[x if isinstance(x, str) else norm(x)[:70] for _g, x in outside][:3] or [norm(x)[:70] for _g, _v, x in pk][:3],
              rhs="self.project_dir | self.project_dir / <component>")
    inits = {g.qual for g in region(ix, init)} | {g.qual for g in proj.methods.values() if any(
        callee_of(ix, init, c) is g for c in ast.walk(init.node) if isinstance(c, ast.Call))}
    moved = [f"{where(f, n)}: {norm(n)}" for f in ix.all_functions for n in ast.walk(f.node)
             if isinstance(n, ast.Attribute) and n.attr in OUTPUT_DIRS and isinstance(n.ctx, (ast.Store, ast.Del)) and f.qual not in inits]
    rep.check(not moved, "R19.5", "Project::output-directories-set-in-constructor-only",
              "project_dir / package_dir are assigned outside the constructor: the effects that follow go to another place than the one "
              "the existing-directory decision was taken for", moved[0].split(": ")[0] if moved else where(init, init.node),
              lhs=moved[:3], rhs="assigned in Project.__init__ (and the helpers it calls) only")

    # ---- R19.3 -----------------------------------------------------------------------------------------------------
    def place(av_: Any, dname: str) -> str | None:
        """'is': the path is <package_dir>/<dname> itself; 'inside': a path below it; None: anything else / unknown"""
        if av_ is None or not av_.alts:
            return None
        got = set()
        for alt in av_.alts:
            if len(alt) < 2 or alt[0].kind != "hole" or _outdir(alt[0].text) != "package_dir" or alt[1].kind != "lit":
                return None
            if alt[1].text == f"/{dname}" and len(alt) == 2:
                got.add("is")
            elif alt[1].text == f"/{dname}" or alt[1].text.startswith(f"/{dname}/"):
                got.add("inside")
            else:
                return None
        return "is" if got == {"is"} else "inside"

    rebuilt = ("models", "api")
    successes = [s_ for s_ in cfg.stmts() if isinstance(s_, ast.Return) and s_ not in refusals and not constructs_error(s_.value)]

    def always(e: Any) -> bool:
        """an effect stated at a call of the helper that performs it happens whenever the call does: on every path through the helper"""
        o = e.origin
        if o is None:
            return True
        co = cfg_of(o.func, cfgs)
        at = [s_ for s_ in co.stmts() if any(x is o.node for x in walk_own(s_))]
        return bool(at) and co.every_path_passes(ENTRY, EXIT, lambda n: n in at) and always(o)

    def removed_first_inside(r: Any, w: Any) -> bool:
        """removal r and write w are stated at the same call (one helper performs both, e.g. remove-and-recreate): inside the
        helper the removal comes before the write on every path"""
        ro, wo = r.origin, w.origin
        if ro is None or wo is None or ro.func is not wo.func:
            return False
        if ro.node is wo.node:
            return removed_first_inside(ro, wo)
        ch_ = cfg_of(ro.func, cfgs)
        first = [s_ for s_ in ch_.stmts() if any(x is ro.node for x in walk_own(s_))]
        then = [s_ for s_ in ch_.stmts() if any(x is wo.node for x in walk_own(s_))]
        return bool(first) and bool(then) and all(ch_.is_dominated_by(s_, lambda n: n in first) for s_ in then)

    # everything is stated from build, the one entry of a generation, through whatever methods and helpers it runs: which method
    # removes, recreates and fills a directory is layout
    fresh_total: dict[str, int] = {}
    for dname in rebuilt:
        removing = [e for e, av in real if e.what == "rmtree" and place(av, dname) == "is" and always(e)]
        removals = {id(e.node) for e in removing}
        rm = performing(ix, build, lambda c: id(c) in removals, cfgs, must=True)
        rep.check(bool(rm) and bool(successes) and all(cfg.is_dominated_by(r, lambda n: n in rm) for r in successes), "R19.3",
                  f"Project.build::{dname}-removed-on-every-path",
                  f"{dname}/ is not removed on every successful path through build: stale modules of an earlier generation survive",
                  where(build, build.node), lhs=[norm(s_)[:60] for s_ in rm], rhs="a removal dominates every successful return")

        # every write into the directory comes after the rmtree
        def preceded(f: Any, st: ast.stmt, node: ast.Call, marks: set[int], depth: int = 4) -> bool:
            """statement st of f, at which the write `node` happens, always runs after one of the calls in `marks` (the removals, the
            creations): such a call dominates it in f, or st calls a helper in which this holds (remove-and-recreate extracted into
            one helper)"""
            cf = cfg_of(f, cfgs)
            rm_f = performing(ix, f, lambda c: id(c) in marks, cfgs, must=True)
            if cf.is_dominated_by(st, lambda n: n in rm_f):
                return True
            if depth <= 0 or any(x is node for x in walk_own(st)):
                return False
            callees = {g for g in (callee_of(ix, f, c) for c in walk_own(st) if isinstance(c, ast.Call)) if g is not None and g != f}
            inner = [(g, s2) for g in callees for s2 in performing(ix, g, lambda c: c is node, cfgs)]
            return bool(inner) and all(preceded(g, s2, node, marks, depth - 1) for g, s2 in inner)

        # the directory is known to be new when it is filled: the removal may have left it in place (errors ignored, e.g. a symbolic
        # link, which rmtree refuses), so either the removal reports its failure or the directory is created by a call that fails on
        # a path that is still there - a creation that tolerates it would let the run write through whatever stayed
        strict = bool(removing) and all(_strict_removal(ix, r, cfgs) for r in removing)
        creations = {id(e.node) for e, av in real if e.what in ("mkdir", "makedirs") and place(av, dname) == "is" and always(e)
                     and _exclusive_creation(ix, e)}
        n_fresh = 0
        for e, av in real:
            if e.what in ("write_text", "write_bytes", "mkdir", "makedirs", "open-w", "touch") and place(av, dname) is not None:
                for st in performing(ix, build, lambda c: c is e.node, cfgs, depth=4):
                    rep.check(preceded(build, st, e.node, removals) or any(r.node is e.node and removed_first_inside(r, e) for r in removing),
                              "R19.3", f"{short(e.func)}::{e.what}({norm(e.target)[:30]})",
                              f"a write into {dname}/ is not preceded by its removal", e.where, lhs=norm(st)[:60], rhs="dominated by rmtree")
                    if place(av, dname) == "inside":
                        n_fresh += 1
                        rep.check(strict or preceded(build, st, e.node, creations), "R19.3",
                                  f"{short(e.func)}::{e.what}({norm(e.target)[:30]})::into-new-directory",
                                  f"a write below {dname}/ is not preceded on every path by a creation of {dname}/ that fails when the "
                                  f"path is still there (the removal ignores errors): what the removal left in place - a symbolic link, "
                                  f"stale modules - is written through / kept", e.where, lhs=norm(st)[:60],
                                  rhs=f"dominated by an exclusive mkdir of {dname}/ (no exist_ok), or a removal that does not ignore errors")
        fresh_total[dname] = n_fresh
    # nothing else is ever removed or moved: only the directories that are rebuilt from the document on every run belong to the
    # generator entirely; everything else in the output location may hold the user's files
    destructive = {"rmtree", "unlink", "rmdir", "remove", "rename", "replace", "move", "removedirs"}
    for e, av in real:
        if e.what in destructive:
            owned = [d for d in rebuilt if place(av, d) is not None]
            rep.check(bool(owned), "R19.3", f"{short(e.func)}::{e.what}({norm(e.target)[:50]})::rebuilt-directory-only",
                      f"`{norm(e.node)[:80]}` removes or moves a path that is not (inside) one of the rebuilt directories "
                      f"{list(rebuilt)}: user files in the output location are lost on regeneration", e.where,
                      lhs=([repr(list(a)) for a in sorted(av.alts, key=repr)][:2] if av is not None and av.alts else norm(e.target)),
                      rhs="<package_dir>/models or <package_dir>/api (or below)")
    # document-dependent file names only under models/ and api/
    for e, av in real:
        if e.what != "write_text" or av is None or not av.alts:
            continue
        for alt in av.alts:
            dyn = [p for p in alt[1:] if p.kind == "hole"]
            if dyn:
                lits = "".join(p.text for p in alt if p.kind == "lit")
                rep.check(lits.startswith("/models/") or lits.startswith("/api/"), "R19.3", f"{short(e.func)}::dynamic-name({dyn[0].text[:40]})",
                          "a file with a document-dependent name is written outside models/ and api/ (never cleaned up)", e.where,
                          lhs=lits, rhs="under /models/ or /api/")
    floor("writes_below_rebuilt_directories", sum(fresh_total.values()), 4)

    # ---- R19.4 -----------------------------------------------------------------------------------------------------
    # regenerating converges on what a fresh generation produces only if every file is written (and every hook run) again, whatever
    # an earlier run left behind. Directory creation and removal are left out (see the rule text); the refusal of an existing
    # directory - the statements with which build returns the decision's error - is the one exit that may depend on an observation
    idempotent = {"mkdir", "makedirs"} | destructive
    producing = {id(e.site) for e, _ in real if e.what not in idempotent}
    touching = {id(e.site) for e, _ in real}
    n_indep = 0
    for d in state_dependence(ix, build, producing, touching, {id(x) for x in refusals}, cfgs):
        n_indep += 1
        rep.check(not d.on, "R19.4", f"{short(d.func)}::{norm(d.call)[:50]}::independent-of-existing-files",
                  f"`{norm(d.call)[:70]}` happens, or gets its arguments, depending on what the filesystem already holds ({d.on[:3]}): "
                  f"regenerating over an earlier generation no longer gives the tree a fresh generation produces", where(d.func, d.call),
                  lhs=d.on[:3], rhs="decided by the document and the configuration only")
    floor("state_independent_writes", n_indep, 10)
    # whether a generation runs at all is decided the same way: on the way from the command down to Project.build - through the import
    # made inside the command, the constructor, the method of the object just built - every step towards build (and anything written
    # on the way) is looked at like the writes inside build. Up there the document and the configuration file are read: their content
    # is what the generation is a function of, so reading the content of a file is an observation only when the path read leads to the
    # output location; existence, kind, metadata (time stamps, sizes) and listings always are
    callee = command_callee(it)
    inside = {g.qual for g in reach(ix, build)} | {g.qual for g in (reach(ix, init) if init else [])}
    running = {id(c) for g in reach(ix, cli_gen, callee) for c in ast.walk(g.node)
               if isinstance(c, ast.Call) and callee(ix, g, c) is build}
    rep.require(running, "the call of Project.build on the way from the generate command")
    n_run = 0
    for d in state_dependence(ix, cli_gen, producing | running, touching, {id(x) for x in refusals}, cfgs, callee=callee, probe=state_probe):
        if d.func.qual in inside:
            continue
        n_run += 1
        rep.check(not d.on, "R19.4", f"{short(d.func)}::{norm(d.call)[:50]}::independent-of-existing-files",
                  f"`{norm(d.call)[:70]}` - a step from the command towards Project.build - happens, or gets its arguments, depending on what "
                  f"the filesystem already holds ({d.on[:3]}): whether a generation runs is no longer decided by the document and the "
                  f"configuration, regenerating over an earlier generation may leave it as it is", where(d.func, d.call),
                  lhs=d.on[:3], rhs="decided by the document and the configuration only")
    floor("steps_from_command_to_build", n_run, 1)
    if short_of:
        if not rep.findings:
            rep.floor(*short_of[0])
        rep.observe("instance counts below their floors, next to the violations reported: " + ", ".join(f"{w}={n} < {m}" for w, n, m in short_of))
    rep.not_decided += ["histories across different metadata flavours (excluded by the property) and file-system races"]
    return LEVEL


def _exclusive_creation(ix: Any, e: Any) -> bool:
    """the directory creation fails when the path already exists: os.mkdir always; Path.mkdir / os.makedirs unless exist_ok is (or may
    be) true"""
    if e.what == "mkdir" and not (isinstance(e.site.func, ast.Attribute) and e.site.func.value is e.site_target):
        return True
    v = constant_of(effect_argument(ix, e, "exist_ok", 2), False)
    return v is not ... and not v


def _strict_removal(ix: Any, e: Any, cfgs: dict) -> bool:
    """the rmtree reports a failure: errors are not ignored, not handed to a callback, and not caught where it stands (other than the
    directory not being there at all)"""
    ign = constant_of(effect_argument(ix, e, "ignore_errors", 1), False)
    cbs = [constant_of(effect_argument(ix, e, "onerror", 2), None), constant_of(effect_argument(ix, e, "onexc", -1), None)]
    if ign is ... or ign or any(c is not None for c in cbs):
        return False
    cf = cfg_of(e.site_func, cfgs)
    for st in cf.stmts():
        if any(x is e.site for x in walk_own(st)):
            for h in cf.succ.get(st, ()):
                if isinstance(h, ast.ExceptHandler):
                    ts = [] if h.type is None else (h.type.elts if isinstance(h.type, ast.Tuple) else [h.type])
                    if not ts or any(norm(t).rsplit(".", 1)[-1] != "FileNotFoundError" for t in ts):
                        return False
    return True


def _from(fn: ast.AST, st: ast.stmt) -> list[ast.stmt]:
    """st and the statements that follow it in the block it stands in"""
    for n in ast.walk(fn):
        for fld in ("body", "orelse", "finalbody"):
            blk = getattr(n, fld, None)
            if isinstance(blk, list) and any(x is st for x in blk):
                return blk[next(i for i, x in enumerate(blk) if x is st):]
    return [st]


def _rooted(fn: ast.AST, target: ast.expr | None) -> bool:
    """target is self.project_dir / self.package_dir, or a local that stands for nothing but these (through however many locals)"""
    if target is None:
        return False
    srcs = local_sources(fn, target)
    return bool(srcs) and all(_outdir(norm(x)) for x in srcs)
