"""C19 - generation writes only where told, never clobbers, converges on overwrite."""
from __future__ import annotations

import ast
from typing import Any

from ..astutil import bool_atoms, call_name, cfg_of, constructs_error, norm, short, stmt_calls, truth_table, where
from ..cfg import CFG, ENTRY, EXIT, walk_own
from ..charclass import S, members
from ..core import PKG, Report
from ..domain import CONFIG, CONST, ENUM, IDENT, NUM, WORD
from .effects import callee_of, effect_sites, operand_av, performing

LEVEL = ("effect analysis: every filesystem/process effect site of the package is enumerated; its path operand (string "
         "structure from the abstract interpreter) must be project_dir/package_dir joined with literal or sanitised components, "
         "and E6 proves over all code points that the sanitisers used for components cannot produce '/', '\\\\', NUL, '.' or "
         "'..'; CFG dominance shows no effect precedes the overwrite decision and that models/ and api/ are removed on every "
         "path; the overwrite flag reaches Config unmodified.")

SAFE = {CONFIG, CONST, WORD, IDENT, NUM, ENUM}


def run(rep: Report, ctx: Any) -> str:
    ix = ctx.py
    it, ji = ctx.flow
    ch = ctx.chars
    t = ctx.tables
    rep.rule("R19.1", "every effect's path is <project_dir|package_dir>/<CONST or sanitised component>...; sanitiser alphabets "
                      "contain no path separator / NUL and results cannot be '.' or '..'; post-hooks run with cwd=project_dir")
    rep.rule("R19.2", "no effect before the existing-directory decision; the decision returns an error unless config.overwrite; "
                      "the --overwrite flag reaches Config.overwrite unmodified")
    rep.rule("R19.3", "models/ and api/ are removed on every path before being rebuilt; nothing but these rebuilt directories (or paths "
                      "below them) is ever removed or moved; every other written file has a document-independent name")
    rep.assumptions += ["--output-path, project/package name overrides and the working directory are the user's own (CONFIG)",
                        "post-hook commands come from the configuration"]
    cfgs: dict[str, CFG] = {}
    effs = [e for e in effect_sites(ix)]
    # keep only effects whose operand is a path / process (drop str.replace & co.)
    real = []
    for e in effs:
        av = operand_av(it, e.target)
        if e.what in ("replace", "rename") and (av is None or "Path" not in av.types):
            continue
        real.append((e, av))
    # the floor counts destinations (kind of effect + structure of its path: literal text, a mark per computed component), not
    # syntactic sites: one helper writing for several callers, or several sites writing the same kind of file, are one destination
    def _dest(e: Any, av: Any) -> tuple:
        if av is None or not av.alts:
            return (e.what, norm(e.target) if e.target is not None else "")
        return (e.what, tuple(sorted("".join(p.text if p.kind == "lit" else "{}" for p in alt[1:]) for alt in av.alts)),
                tuple(sorted({alt[0].text.rsplit(".", 1)[-1] for alt in av.alts if alt})))

    rep.indexed["effect_sites"] = len(real)
    rep.floor("effect_destinations", len({_dest(e, av) for e, av in real}), 20)
    proj = ix.cls("Project")
    for e, av in real:
        key = f"{short(e.func)}::{e.what}({norm(e.target)[:50] if e.target is not None else ''})"
        if e.func.cls is not proj:
            rep.fail("R19.1", key, "filesystem/process effect outside Project", e.where)
            continue
        if av is None:
            rep.fail("R19.1", key, "path operand could not be evaluated", e.where)
            continue
        alts = av.alts
        if alts is None:
            # a bare directory field (self.project_dir / self.package_dir / cwd variable bound to it)
            ok = bool(av.labels) and av.labels <= {CONFIG, CONST, WORD} and _rooted(e.func.node, e.target)
            rep.check(ok, "R19.1", key, f"path operand `{norm(e.target)}` is not one of the output directories", e.where,
                      lhs=sorted(av.labels), rhs="self.project_dir / self.package_dir")
            continue
        bad: list[str] = []
        for alt in alts:
            first = alt[0] if alt else None
            if first is None or first.kind != "hole" or not (first.text.endswith("project_dir") or first.text.endswith("package_dir")):
                bad.append(f"does not start at the output directory: {list(alt)[:3]}")
                continue
            if not first.labels <= {CONFIG, CONST, WORD}:
                bad.append(f"output directory derived from {sorted(first.labels)}")
            for p in alt[1:]:
                if p.kind == "lit":
                    segs = p.text.split("/")
                    if any(s in ("..",) for s in segs) or "\\" in p.text or "\x00" in p.text:
                        bad.append(f"literal component {p.text!r}")
                elif p.kind == "hole":
                    if not p.labels <= SAFE:
                        bad.append(f"component `{p.text}` labelled {sorted(p.labels - SAFE)}")
                else:
                    bad.append("macro result in a path")
        rep.check(not bad, "R19.1", key, f"path may leave the output directory: {bad[:3]}", e.where,
                  lhs=[repr(list(a)) for a in sorted(alts, key=repr)][:2], rhs="<output dir>/(CONST|sanitised)*")
    # sanitiser alphabets for path components
    sep = 0
    for c in "/\\\x00":
        sep |= 1 << ord(c)
    dot = 1 << ord(".")
    for cls_name, modes in (("PythonIdentifier", (False, True)), ("ClassName", (None,))):
        f = ix.func(f"{cls_name}.__new__")
        for mode in modes:
            args = {"value": ch.TOP, "prefix": ch.PREFIX, "cls": None}
            tag = cls_name
            if mode is not None:
                args["skip_snake_case"] = mode
                tag += "[raw]" if mode else "[snake]"
            out, paths = ch.run_function(f, args)
            rep.require(isinstance(out, S), f"E6 result of {cls_name}")
            rep.check(not (out.any & sep), "R19.1", f"{tag}::no-separator",
                      f"result may contain {[repr(chr(c)) for c in members(out.any & sep)]}", where=f"{f.module.rel}:{f.node.lineno}",
                      lhs="alphabet (E6, all code points)", rhs="no '/', '\\\\', NUL")
            rep.check(not (out.first & dot) and not out.empty, "R19.1", f"{tag}::not-dot",
                      "result may be empty or start with '.': could be '.' or '..'", where=f"{f.module.rel}:{f.node.lineno}",
                      lhs="first characters (E6)", rhs="never '.', never empty")
    for fn in ("kebab_case", "snake_case"):
        f = ix.func(f"utils.{fn}")
        out, _ = ch.run_function(f, {"value": ch.TOP})
        rep.require(isinstance(out, S), f"E6 result of {fn}")
        rep.check(not (out.any & (sep | dot)), "R19.1", f"{fn}::no-separator-no-dot",
                  f"result may contain {[repr(chr(c)) for c in members(out.any & (sep | dot))]}", where=f"{f.module.rel}:{f.node.lineno}",
                  lhs="alphabet (E6)", rhs="no '/', '\\\\', NUL, '.'")
    # project_dir / package_dir definitions
    for fld in ("project_dir", "package_dir", "project_name", "package_name"):
        fv = it.fields.get((proj.qual, fld))
        rep.require(fv is not None, f"Project.{fld}")
        rep.check(fv.labels <= {CONFIG, CONST, WORD}, "R19.1", f"Project.{fld}",
                  f"Project.{fld} may contain text labelled {sorted(fv.labels - {CONFIG, CONST, WORD})}",
                  where=f"{proj.module.rel}:{proj.node.lineno}", lhs=sorted(fv.labels), rhs="{CONFIG, CONST, WORD}")
    # post hooks: cwd = project_dir, command from config
    runs = [(e, av) for e, av in real if e.what == "run"]
    for e, av in runs:
        kw = {k.arg: k.value for k in e.node.keywords}
        cmd = e.node.args[0] if e.node.args else None
        cav = it.node_av.get(id(cmd)) if cmd is not None else None
        rep.check("cwd" in kw and cav is not None and cav.labels <= {CONFIG, CONST}, "R19.1", f"{short(e.func)}::run-cwd-and-command",
                  "post-hook process not confined to project_dir or command not from configuration", e.where,
                  lhs=(sorted(cav.labels) if cav else None), rhs="cwd=project_dir, command labelled CONFIG")

    # ---- R19.2 -------------------------------------------------------------------------------------------------
    build = proj.methods.get("build")
    rep.require(build, "Project.build")
    cfg = cfg_of(build, cfgs)
    # effect summary: methods of Project with (transitive) effects
    eff_methods = {e.func.name for e, _ in real}
    changed = True
    while changed:
        changed = False
        for m in proj.methods.values():
            if m.name in eff_methods:
                continue
            if any(isinstance(c, ast.Call) and isinstance(c.func, ast.Attribute) and isinstance(c.func.value, ast.Name) and
                   c.func.value.id == "self" and c.func.attr in eff_methods for c in ast.walk(m.node)):
                eff_methods.add(m.name)
                changed = True
    tries = [s for s in cfg.stmts() if isinstance(s, ast.Try) and any(stmt_calls(x, "project_dir.mkdir") for x in s.body)]
    rep.require(tries, "the mkdir decision in Project.build")
    tr = tries[0]
    handler_ok = False
    for h in tr.handlers:
        if h.type is not None and "FileExistsError" in norm(h.type):
            for n in ast.walk(h):
                # a decision on config.overwrite whose arm for "overwrite is false" returns an error, whichever way the test is
                # written (`if not overwrite: return [error]` / `if overwrite: ... else: return [error]`): truth table of the test
                ow = [a for a in bool_atoms(n.test) if a.endswith("overwrite")] if isinstance(n, ast.If) else []
                if not ow:
                    continue
                rows = [(env, val) for env, val in truth_table(n.test) if not env[ow[0]]]
                if rows and all(any(isinstance(st, ast.Return) and constructs_error(st.value) for st in (n.body if val else n.orelse))
                                for _, val in rows):
                    handler_ok = True
    rep.check(handler_ok, "R19.2", "Project.build::existing-directory-decision",
              "an existing output directory does not lead to `return [GeneratorError]` unless config.overwrite", where(build, tr),
              lhs=norm(tr)[:120], rhs="except FileExistsError: if not self.config.overwrite: return [GeneratorError(...)]")
    n_calls = 0
    for s in cfg.stmts():
        if isinstance(s, ast.Try) or s in tr.body:
            continue
        callee = [c.func.attr for c in ast.walk(s) if isinstance(c, ast.Call) and isinstance(c.func, ast.Attribute) and
                  isinstance(c.func.value, ast.Name) and c.func.value.id == "self" and c.func.attr in eff_methods]
        direct = [e for e, _ in real if e.func is build and any(x is e.node for x in ast.walk(s))]
        if not callee and not direct:
            continue
        n_calls += 1
        rep.check(cfg.is_dominated_by(s, lambda n: n is tr), "R19.2", f"Project.build::{norm(s)[:50]}",
                  "an effect can happen before the existing-directory decision", where(build, s), lhs=norm(s)[:60],
                  rhs="dominated by the mkdir try")
    rep.floor("effectful_steps_in_build", n_calls, 4)
    init = proj.methods.get("__init__")
    rep.check(not any(e.func is init for e, _ in real), "R19.2", "Project.__init__::no-effects", "effect in Project.__init__",
              where(init, init.node) if init else "")
    # overwrite flag plumbing (shared with C16 R16.1)
    cli_gen = ix.func("cli.generate")
    pc = ix.func("cli._process_config")
    ok = False
    for c in ast.walk(cli_gen.node):
        if isinstance(c, ast.Call) and call_name(c) == "_process_config":
            kw = {k.arg: norm(k.value) for k in c.keywords}
            ok = kw.get("overwrite") == "overwrite" and kw.get("output_path") == "output_path"
    assigns = [n for n in ast.walk(pc.node) if isinstance(n, (ast.Assign, ast.AugAssign, ast.AnnAssign)) and
               any(isinstance(x, ast.Name) and x.id in ("overwrite", "output_path") and isinstance(x.ctx, ast.Store) for x in ast.walk(n))]
    fs = [c for c in ast.walk(pc.node) if isinstance(c, ast.Call) and call_name(c).endswith("from_sources")]
    passed = False
    for c in fs:
        argtxt = [norm(a) for a in c.args] + [f"{k.arg}={norm(k.value)}" for k in c.keywords]
        passed = "overwrite" in argtxt and ("output_path=output_path" in argtxt or "output_path" in argtxt)
    rep.check(ok and passed and not assigns, "R19.2", "cli::overwrite-plumbing",
              "the --overwrite / --output-path values are modified or not forwarded verbatim on their way to Config", where(pc, pc.node),
              lhs=[norm(a)[:60] for a in assigns], rhs="forwarded unmodified")

    # ---- R19.3 -----------------------------------------------------------------------------------------------------
    def place(av_: Any, dname: str) -> str | None:
        """'is': the path is <package_dir>/<dname> itself; 'inside': a path below it; None: anything else / unknown"""
        if av_ is None or not av_.alts:
            return None
        got = set()
        for alt in av_.alts:
            if len(alt) < 2 or alt[0].kind != "hole" or not alt[0].text.endswith("package_dir") or alt[1].kind != "lit":
                return None
            if alt[1].text == f"/{dname}" and len(alt) == 2:
                got.add("is")
            elif alt[1].text == f"/{dname}" or alt[1].text.startswith(f"/{dname}/"):
                got.add("inside")
            else:
                return None
        return "is" if got == {"is"} else "inside"

    rebuilt = (("_build_models", "models"), ("_build_api", "api"))
    for mname, dname in rebuilt:
        m = proj.methods.get(mname)
        rep.require(m, f"Project.{mname}")
        c2 = cfg_of(m, cfgs)
        # effects on <dname>/, wherever in the region of m they are written (in place or in a helper m calls)
        removals = {id(e.node) for e, av in real if e.what == "rmtree" and place(av, dname) == "is"}
        rm = performing(ix, m, lambda c: id(c) in removals, cfgs, must=True)
        rep.check(bool(rm) and c2.every_path_passes(ENTRY, EXIT, lambda n: n in rm), "R19.3", f"Project.{mname}::rmtree-on-every-path",
                  f"{dname}/ is not removed on every path through {mname}: stale modules of an earlier generation survive", where(m, m.node),
                  lhs=[norm(s) for s in rm], rhs="on every path from entry to exit")
        # every write into the directory comes after the rmtree
        def preceded(f: Any, st: ast.stmt, node: ast.Call, depth: int = 3) -> bool:
            """statement st of f, at which the write `node` happens, always runs after the removal: a removal dominates it in f, or
            st calls a helper in which this holds (remove-and-recreate extracted into one helper)"""
            cf = cfg_of(f, cfgs)
            rm_f = performing(ix, f, lambda c: id(c) in removals, cfgs, must=True)
            if cf.is_dominated_by(st, lambda n: n in rm_f):
                return True
            if depth <= 0 or any(x is node for x in walk_own(st)):
                return False
            callees = {g for g in (callee_of(ix, f, c) for c in walk_own(st) if isinstance(c, ast.Call)) if g is not None and g != f}
            inner = [(g, s2) for g in callees for s2 in performing(ix, g, lambda c: c is node, cfgs)]
            return bool(inner) and all(preceded(g, s2, node, depth - 1) for g, s2 in inner)

        for e, av in real:
            if e.what in ("write_text", "mkdir") and place(av, dname) is not None:
                for st in performing(ix, m, lambda c: c is e.node, cfgs):
                    rep.check(preceded(m, st, e.node), "R19.3", f"Project.{mname}::{e.what}({norm(e.target)[:30]})",
                              f"a write into {dname}/ is not preceded by its removal", where(m, st), lhs=norm(st)[:60], rhs="dominated by rmtree")
    # nothing else is ever removed or moved: only the directories that are rebuilt from the document on every run belong to the
    # generator entirely; everything else in the output location may hold the user's files
    destructive = {"rmtree", "unlink", "rmdir", "remove", "rename", "replace", "move", "removedirs"}
    for e, av in real:
        if e.what in destructive:
            owned = [d for _, d in rebuilt if place(av, d) is not None]
            rep.check(bool(owned), "R19.3", f"{short(e.func)}::{e.what}({norm(e.target)[:50]})::rebuilt-directory-only",
                      f"`{norm(e.node)[:80]}` removes or moves a path that is not (inside) one of the rebuilt directories "
                      f"{[d for _, d in rebuilt]}: user files in the output location are lost on regeneration", e.where,
                      lhs=([repr(list(a)) for a in sorted(av.alts, key=repr)][:2] if av is not None and av.alts else norm(e.target)),
                      rhs="<package_dir>/models or <package_dir>/api (or below)")
    # build() reaches both rebuild steps on every path after the decision
    for mname in ("_build_models", "_build_api"):
        calls = [s for s in cfg.stmts() if stmt_calls(s, f"self.{mname}")]
        rets = [s for s in cfg.stmts() if isinstance(s, ast.Return) and "GeneratorError" not in norm(s)]
        ok3 = bool(calls) and all(cfg.is_dominated_by(r, lambda n: n in calls) for r in rets)
        rep.check(ok3, "R19.3", f"Project.build::always-{mname}", f"{mname} is skipped on some successful path", where(build, build.node),
                  lhs=[norm(c) for c in calls], rhs="dominates every successful return")
    # document-dependent file names only under models/ and api/
    for e, av in real:
        if e.what != "write_text" or av is None or not av.alts:
            continue
        for alt in av.alts:
            dyn = [p for p in alt[1:] if p.kind == "hole"]
            if dyn:
                lits = "".join(p.text for p in alt if p.kind == "lit")
                rep.check(lits.startswith("/models/") or lits.startswith("/api/"), "R19.3", f"{short(e.func)}::dynamic-name({dyn[0].text[:40]})",
                          "a file with a document-dependent name is written outside models/ and api/ (never cleaned up)", e.where,
                          lhs=lits, rhs="under /models/ or /api/")
    rep.not_decided += ["histories across different metadata flavours (excluded by the property) and file-system races"]
    return LEVEL


def _rooted(fn: ast.AST, target: ast.expr | None) -> bool:
    """target is self.project_dir / self.package_dir or a local assigned from one of them"""
    if target is None:
        return False
    t = norm(target)
    if t in ("self.project_dir", "self.package_dir"):
        return True
    if isinstance(target, ast.Name):
        for n in ast.walk(fn):
            if isinstance(n, ast.Assign) and any(norm(x) == t for x in n.targets) and norm(n.value) in ("self.project_dir", "self.package_dir"):
                return True
    return False
