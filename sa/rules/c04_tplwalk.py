"""A symbolic walk of a property template's macro over a small list of abstract union members (rule-private helper of C04).

R04.6 / R04.12 ask what the union decoder EMITS for a list of members, not how the template keeps its books (a running namespace flag, a
partition computed up front by a call-block macro, a filtered loop ...).  Nothing of /repo is run and no document value exists here: a
member is an abstract object of which only two facts are known - whether its template defines `construct` and whether it defines
`check_type_for_construct`; every other value is a hole (Opaque) whose truth value, where the template tests it, is followed both ways.
For one list of member kinds and one assignment of the tested holes the walker follows the template's own control flow (if / for with
filter, loop.*, set, namespace attributes, list / tuple displays and `+`, import of the member's template, macros of the template and of
templates imported by a literal name, call blocks with parameters, continue / break) and returns the text that is written, holes as
`__h__`, the member macros' results as `__construct_<i>__` / `__check_<i>__` (i = position of the member in the union).
A construct outside this fragment raises Cannot (the rule turns it into an ANALYSIS-ERROR)."""
from __future__ import annotations

import dataclasses
from typing import Any

from jinja2 import nodes

from ..jinja_interp import expr_text

FACTS = ("construct", "check_type_for_construct")


class Cannot(Exception):
    pass


class _Need(Exception):
    def __init__(self, key: str) -> None:
        self.key = key


class _Continue(Exception):
    pass


class _Break(Exception):
    pass


@dataclasses.dataclass(frozen=True)
class Opaque:
    desc: str


@dataclasses.dataclass(frozen=True)
class Member:
    idx: int


@dataclasses.dataclass(frozen=True)
class TplName:          # the value of <member>.template, also after a literal prefix was put in front of it
    idx: int


@dataclasses.dataclass(frozen=True)
class Tpl:              # the imported template module of a member
    idx: int


@dataclasses.dataclass(frozen=True)
class MemberMacro:
    idx: int
    name: str


@dataclasses.dataclass(frozen=True)
class RealTpl:
    name: str


class Undefined:
    def __repr__(self) -> str:
        return "<undefined>"


UNDEF = Undefined()


class NS:
    def __init__(self, attrs: dict[str, Any]) -> None:
        self.attrs = attrs


class Union_:
    """the union property handed to the macro"""


@dataclasses.dataclass
class MacroVal:
    tname: str
    node: Any
    env: dict[str, Any]


@dataclasses.dataclass
class CallerVal:
    node: Any
    env: dict[str, Any]
    tname: str


@dataclasses.dataclass
class Loop:
    index0: int
    length: int
    items: list

    def get(self, attr: str) -> Any:
        i, n = self.index0, self.length
        table = {"index0": i, "index": i + 1, "first": i == 0, "last": i == n - 1, "length": n, "revindex": n - i, "revindex0": n - i - 1,
                 "previtem": self.items[i - 1] if i > 0 else UNDEF, "nextitem": self.items[i + 1] if i + 1 < n else UNDEF}
        if attr not in table:
            raise Cannot(f"loop.{attr}")
        return table[attr]


def desc(v: Any) -> str:
    if isinstance(v, Opaque):
        return v.desc
    if isinstance(v, Member):
        return f"member{v.idx}"
    if isinstance(v, (list, tuple)):
        return "[" + ", ".join(desc(x) for x in v) + "]"
    if isinstance(v, (Tpl, TplName, MemberMacro, RealTpl)):
        return repr(v)
    return repr(v)


class Walk:
    def __init__(self, jx: Any, kinds: "list[tuple[bool, bool]]", decisions: dict[str, bool]) -> None:
        self.jx = jx
        self.kinds = kinds
        self.decisions = decisions
        self.steps = 0
        self.depth = 0
        self._modules: dict[str, dict[str, Any]] = {}

    # ---- values --------------------------------------------------------------------------------------------------------------
    def truth(self, v: Any) -> bool:
        if isinstance(v, Opaque):
            if v.desc not in self.decisions:
                raise _Need(v.desc)
            return self.decisions[v.desc]
        if isinstance(v, Undefined):
            return False
        if isinstance(v, (Member, Tpl, TplName, MemberMacro, RealTpl, NS, MacroVal, CallerVal, Union_, Loop)):
            return True
        return bool(v)

    def text(self, v: Any) -> str:
        if isinstance(v, str):
            return v
        if isinstance(v, bool) or v is None or isinstance(v, int):
            return str(v)
        if isinstance(v, Undefined):
            return ""
        return "__h__"

    def module_env(self, tname: str) -> dict[str, Any]:
        if tname in self._modules:
            return self._modules[tname]
        ti = self.jx.templates.get(tname)
        if ti is None:
            raise Cannot(f"template {tname}")
        env: dict[str, Any] = {}
        self._modules[tname] = env
        for n in ti.tree.body:
            if isinstance(n, nodes.Macro):
                env[n.name] = MacroVal(tname, n, env)
            elif isinstance(n, (nodes.Import, nodes.FromImport)):
                self.stmt(n, env, [], tname)
            elif isinstance(n, nodes.Assign) and isinstance(n.target, nodes.Name):
                try:
                    env[n.target.name] = self.expr(n.node, env, tname)
                except (Cannot, _Need):
                    env[n.target.name] = Opaque(n.target.name)
        return env

    def attr(self, base: Any, name: str, node: nodes.Node) -> Any:
        if isinstance(base, Union_):
            return [Member(i) for i in range(len(self.kinds))] if name == "inner_properties" else Opaque(f"property.{name}")
        if isinstance(base, Member):
            return TplName(base.idx) if name == "template" else Opaque(f"member{base.idx}.{name}")
        if isinstance(base, Tpl):
            if name in FACTS:
                return MemberMacro(base.idx, name) if self.kinds[base.idx][FACTS.index(name)] else UNDEF
            return Opaque(f"template-of-member{base.idx}.{name}")
        if isinstance(base, RealTpl):
            return self.module_env(base.name).get(name, UNDEF)
        if isinstance(base, NS):
            return base.attrs.get(name, UNDEF)
        if isinstance(base, Loop):
            return base.get(name)
        if isinstance(base, Opaque):
            return Opaque(f"{base.desc}.{name}")
        if isinstance(base, Undefined):
            raise Cannot(f"attribute {name} of an undefined value ({expr_text(node)})")
        if isinstance(base, dict) and name in base:
            return base[name]
        if isinstance(base, (list, tuple, dict, str)):
            return ("method", base, name)
        raise Cannot(f"attribute {name} of {desc(base)}")

    # ---- expressions -----------------------------------------------------------------------------------------------------------
    def expr(self, e: nodes.Node, env: dict[str, Any], tname: str) -> Any:  # noqa: PLR0911, PLR0912
        self.steps += 1
        if self.steps > 50000:
            raise Cannot("step budget")
        if isinstance(e, nodes.Const):
            return e.value
        if isinstance(e, nodes.TemplateData):
            return e.data
        if isinstance(e, nodes.Name):
            if e.name in env:
                return env[e.name]
            if e.name in ("namespace", "range", "dict"):
                return ("builtin", e.name)
            return Opaque(e.name)
        if isinstance(e, nodes.Getattr):
            return self.attr(self.expr(e.node, env, tname), e.attr, e)
        if isinstance(e, nodes.Getitem):
            base, key = self.expr(e.node, env, tname), self.expr(e.arg, env, tname) if not isinstance(e.arg, nodes.Slice) else None
            if isinstance(e.arg, nodes.Slice):
                lo, hi, st = (self.expr(x, env, tname) if x is not None else None for x in (e.arg.start, e.arg.stop, e.arg.step))
                if isinstance(base, (list, tuple, str)) and all(x is None or type(x) is int for x in (lo, hi, st)):
                    return base[lo:hi:st]
                return Opaque(f"{desc(base)}[{desc(lo)}:{desc(hi)}]")
            if isinstance(key, str) and not isinstance(base, (dict, list, tuple, str)):
                return self.attr(base, key, e)            # x["name"] falls back to x.name
            if isinstance(base, (list, tuple, str)) and type(key) is int:
                return base[key] if -len(base) <= key < len(base) else UNDEF
            if isinstance(base, dict) and not isinstance(key, Opaque):
                try:
                    return base.get(key, UNDEF)
                except TypeError:
                    raise Cannot("unhashable key") from None
            return Opaque(f"{desc(base)}[{desc(key)}]")
        if isinstance(e, (nodes.List, nodes.Tuple)):
            xs = [self.expr(x, env, tname) for x in e.items]
            return xs if isinstance(e, nodes.List) else tuple(xs)
        if isinstance(e, nodes.Dict):
            out = {}
            for p in e.items:
                k = self.expr(p.key, env, tname)
                if not isinstance(k, (str, int, bool, type(None))):
                    raise Cannot("computed dict key")
                out[k] = self.expr(p.value, env, tname)
            return out
        if isinstance(e, nodes.Not):
            v = self.expr(e.node, env, tname)
            return not self.truth(v)
        if isinstance(e, nodes.And):
            l = self.expr(e.left, env, tname)
            return self.expr(e.right, env, tname) if self.truth(l) else l
        if isinstance(e, nodes.Or):
            l = self.expr(e.left, env, tname)
            return l if self.truth(l) else self.expr(e.right, env, tname)
        if isinstance(e, nodes.CondExpr):
            if self.truth(self.expr(e.test, env, tname)):
                return self.expr(e.expr1, env, tname)
            return self.expr(e.expr2, env, tname) if e.expr2 is not None else UNDEF
        if isinstance(e, nodes.Compare):
            left = self.expr(e.expr, env, tname)
            for op in e.ops:
                right = self.expr(op.expr, env, tname)
                r = self.compare(op.op, left, right)
                if isinstance(r, Opaque):
                    return r
                if not r:
                    return False
                left = right
            return True
        if isinstance(e, (nodes.Add, nodes.Concat)):
            parts = [self.expr(x, env, tname) for x in (e.nodes if isinstance(e, nodes.Concat) else (e.left, e.right))]
            if isinstance(e, nodes.Add):
                l, r = parts
                if isinstance(l, str) and isinstance(r, TplName):
                    return r
                if type(l) is type(r) and isinstance(l, (list, tuple, str)) or (type(l) is int and type(r) is int):
                    return l + r
            elif all(isinstance(p, (str, int, bool)) for p in parts):
                return "".join(self.text(p) for p in parts)
            if any(isinstance(p, TplName) for p in parts) and all(isinstance(p, (str, TplName)) for p in parts):
                return next(p for p in parts if isinstance(p, TplName))
            return Opaque("(" + " + ".join(desc(p) for p in parts) + ")")
        if isinstance(e, nodes.BinExpr):
            l, r = self.expr(e.left, env, tname), self.expr(e.right, env, tname)
            if type(l) is int and type(r) is int and isinstance(e, (nodes.Sub, nodes.Mul)):
                return l - r if isinstance(e, nodes.Sub) else l * r
            return Opaque(f"({desc(l)} {e.operator} {desc(r)})")
        if isinstance(e, nodes.Neg):
            v = self.expr(e.node, env, tname)
            return -v if type(v) is int else Opaque(f"(-{desc(v)})")
        if isinstance(e, nodes.Filter):
            return self.filter(e, env, tname)
        if isinstance(e, nodes.Test):
            v = self.expr(e.node, env, tname)
            if e.name == "defined" and not isinstance(v, Opaque):
                return not isinstance(v, Undefined)
            if e.name == "undefined" and not isinstance(v, Opaque):
                return isinstance(v, Undefined)
            if e.name == "none" and not isinstance(v, Opaque):
                return v is None
            return Opaque(f"({desc(v)} is {e.name} {[desc(self.expr(a, env, tname)) for a in e.args]})")
        if isinstance(e, nodes.Call):
            return self.call(e, env, tname)
        raise Cannot(f"expression {type(e).__name__}")

    def compare(self, op: str, l: Any, r: Any) -> Any:
        def concrete(v: Any) -> bool:
            if isinstance(v, (list, tuple)):
                return all(concrete(x) for x in v)
            return isinstance(v, (str, int, bool, type(None), Member, Tpl, TplName, MemberMacro, Undefined))

        if not (concrete(l) and concrete(r)):
            return Opaque(f"({desc(l)} {op} {desc(r)})")
        try:
            if op == "eq":
                return l == r
            if op == "ne":
                return l != r
            if op in ("in", "notin"):
                if isinstance(r, str) and not isinstance(l, str):
                    return op == "notin"
                return (l in r) == (op == "in")
            return {"gt": lambda: l > r, "gteq": lambda: l >= r, "lt": lambda: l < r, "lteq": lambda: l <= r}[op]()
        except (TypeError, KeyError):
            raise Cannot(f"comparison {op}") from None

    def filter(self, e: nodes.Filter, env: dict[str, Any], tname: str) -> Any:
        if e.node is None:
            raise Cannot("filter block")
        v = self.expr(e.node, env, tname)
        args = [self.expr(a, env, tname) for a in e.args]
        if e.name == "indent" and isinstance(v, str):
            width = args[0] if args and type(args[0]) is int else 4
            lines = v.split("\n")
            return "\n".join([lines[0]] + [(" " * width + ln) if ln.strip() else ln for ln in lines[1:]])
        if e.name in ("length", "count") and isinstance(v, (list, tuple, dict, str)):
            return len(v)
        if e.name == "list" and isinstance(v, (list, tuple)):
            return list(v)
        if e.name in ("first", "last") and isinstance(v, (list, tuple)):
            return (v[0] if e.name == "first" else v[-1]) if v else UNDEF
        if e.name == "trim" and isinstance(v, str):
            return v.strip()
        return Opaque(f"{desc(v)}|{e.name}({', '.join(desc(a) for a in args)})")

    def call(self, e: nodes.Call, env: dict[str, Any], tname: str) -> Any:
        if e.dyn_args is not None or e.dyn_kwargs is not None:
            raise Cannot("argument unpacking")
        f = self.expr(e.node, env, tname)
        args = [self.expr(a, env, tname) for a in e.args]
        kwargs = {k.key: self.expr(k.value, env, tname) for k in e.kwargs}
        if isinstance(f, MemberMacro):
            who = next((a.idx for a in args if isinstance(a, Member)), f.idx)
            if who != f.idx:
                raise Cannot("a member decoded by another member's template")
            return f"__{'construct' if f.name == 'construct' else 'check'}_{f.idx}__"
        if isinstance(f, MacroVal):
            return self.call_macro(f, args, kwargs, None)
        if isinstance(f, CallerVal):
            return self.call_caller(f, args, kwargs)
        if isinstance(f, tuple) and f and f[0] == "builtin":
            if f[1] == "namespace" and not args:
                return NS(dict(kwargs))
            if f[1] == "dict" and not args:
                return dict(kwargs)
            if f[1] == "range" and not kwargs and all(type(a) is int for a in args):
                return list(range(*args))
            raise Cannot(f"call of {f[1]}")
        if isinstance(f, tuple) and f and f[0] == "method":
            _, base, name = f
            if name == "append" and isinstance(base, list) and len(args) == 1 and not kwargs:
                base.append(args[0])
                return None
            if name in ("items", "keys", "values") and isinstance(base, dict) and not args:
                return [tuple(x) if isinstance(x, tuple) else x for x in getattr(base, name)()]
            if name == "get" and isinstance(base, dict) and args and isinstance(args[0], (str, int)):
                return base.get(args[0], args[1] if len(args) > 1 else None)
            return Opaque(f"{desc(base)}.{name}({', '.join(desc(a) for a in args)})")
        if isinstance(f, Opaque):
            return Opaque(f"{f.desc}({', '.join([desc(a) for a in args] + [k + '=' + desc(v) for k, v in kwargs.items()])})")
        raise Cannot(f"call of {desc(f)} ({expr_text(e)})")

    def call_macro(self, m: MacroVal, args: list[Any], kwargs: dict[str, Any], caller: "CallerVal | None") -> str:
        self.depth += 1
        if self.depth > 12:
            raise Cannot("macro call depth")
        params = [a.name for a in m.node.args]
        if len(args) > len(params) or any(k not in params for k in kwargs):
            raise Cannot(f"arguments of macro {m.node.name}")
        env = dict(m.env)
        n_def = len(m.node.defaults)
        for p in params[:len(params) - n_def]:
            env[p] = UNDEF
        for p, d in zip(params[len(params) - n_def:], m.node.defaults):
            env[p] = self.expr(d, env, m.tname)
        for p, a in zip(params, args):
            env[p] = a
        env.update(kwargs)
        if caller is not None:
            env["caller"] = caller
        out: list[str] = []
        try:
            self.block(m.node.body, env, out, m.tname)
        finally:
            self.depth -= 1
        return "".join(out)

    def call_caller(self, c: CallerVal, args: list[Any], kwargs: dict[str, Any]) -> str:
        params = [a.name for a in c.node.args]
        if len(args) > len(params) or any(k not in params for k in kwargs):
            raise Cannot("arguments of caller()")
        env = dict(c.env)
        for p, d in zip(params[len(params) - len(c.node.defaults):], c.node.defaults):
            env[p] = self.expr(d, env, c.tname)
        for p, a in zip(params, args):
            env[p] = a
        env.update(kwargs)
        if any(p not in env for p in params):
            raise Cannot("parameter of a call block left unbound")
        out: list[str] = []
        self.block(c.node.body, env, out, c.tname)
        return "".join(out)

    # ---- statements ----------------------------------------------------------------------------------------------------------
    def block(self, body: list[nodes.Node], env: dict[str, Any], out: list[str], tname: str) -> None:
        for n in body:
            self.stmt(n, env, out, tname)

    def bind(self, target: nodes.Node, v: Any, env: dict[str, Any]) -> None:
        if isinstance(target, nodes.Name):
            env[target.name] = v
        elif isinstance(target, nodes.NSRef):
            ns = env.get(target.name)
            if not isinstance(ns, NS):
                raise Cannot(f"attribute assignment to {target.name}")
            ns.attrs[target.attr] = v
        elif isinstance(target, nodes.Tuple) and isinstance(v, (list, tuple)) and len(v) == len(target.items):
            for t, x in zip(target.items, v):
                self.bind(t, x, env)
        else:
            raise Cannot(f"assignment target {expr_text(target)}")

    def stmt(self, n: nodes.Node, env: dict[str, Any], out: list[str], tname: str) -> None:  # noqa: PLR0912
        self.steps += 1
        if self.steps > 50000:
            raise Cannot("step budget")
        if isinstance(n, nodes.Output):
            for c in n.nodes:
                out.append(self.text(self.expr(c, env, tname)))
        elif isinstance(n, nodes.If):
            if self.truth(self.expr(n.test, env, tname)):
                self.block(n.body, env, out, tname)
                return
            for el in n.elif_:
                if self.truth(self.expr(el.test, env, tname)):
                    self.block(el.body, env, out, tname)
                    return
            self.block(n.else_, env, out, tname)
        elif isinstance(n, nodes.For):
            if n.recursive:
                raise Cannot("recursive loop")
            it = self.expr(n.iter, env, tname)
            if isinstance(it, dict):
                it = list(it)
            if not isinstance(it, (list, tuple)):
                raise Cannot(f"loop over {desc(it)}")
            items = []
            for x in it:
                if n.test is not None:
                    e2 = dict(env)
                    self.bind(n.target, x, e2)
                    if not self.truth(self.expr(n.test, e2, tname)):
                        continue
                items.append(x)
            if not items:
                self.block(n.else_, env, out, tname)
                return
            for i, x in enumerate(items):
                e2 = dict(env)
                e2["loop"] = Loop(i, len(items), items)
                self.bind(n.target, x, e2)
                try:
                    self.block(n.body, e2, out, tname)
                except _Continue:
                    continue
                except _Break:
                    break
        elif isinstance(n, nodes.Assign):
            self.bind(n.target, self.expr(n.node, env, tname), env)
        elif isinstance(n, nodes.AssignBlock):
            if n.filter is not None:
                raise Cannot("filtered set block")
            buf: list[str] = []
            self.block(n.body, dict(env), buf, tname)
            self.bind(n.target, "".join(buf), env)
        elif isinstance(n, nodes.Import):
            t = self.expr(n.template, env, tname)
            if isinstance(t, TplName):
                env[n.target] = Tpl(t.idx)
            elif isinstance(t, str):
                if t not in self.jx.templates:
                    raise Cannot(f"import of {t}")
                env[n.target] = RealTpl(t)
            else:
                env[n.target] = Opaque(f"import({desc(t)})")
        elif isinstance(n, nodes.FromImport):
            t = self.expr(n.template, env, tname)
            if not isinstance(t, str) or t not in self.jx.templates:
                raise Cannot(f"from-import of {desc(t)}")
            src = self.module_env(t)
            for nm in n.names:
                name, alias = nm if isinstance(nm, tuple) else (nm, nm)
                env[alias] = src.get(name, UNDEF)
        elif isinstance(n, nodes.Macro):
            env[n.name] = MacroVal(tname, n, env)
        elif isinstance(n, nodes.CallBlock):
            c = n.call
            if not isinstance(c, nodes.Call) or c.dyn_args is not None or c.dyn_kwargs is not None:
                raise Cannot("call block")
            f = self.expr(c.node, env, tname)
            if not isinstance(f, MacroVal):
                raise Cannot(f"call block of {desc(f)}")
            args = [self.expr(a, env, tname) for a in c.args]
            kwargs = {k.key: self.expr(k.value, env, tname) for k in c.kwargs}
            out.append(self.call_macro(f, args, kwargs, CallerVal(n, dict(env), tname)))
        elif isinstance(n, nodes.Continue):
            raise _Continue()
        elif isinstance(n, nodes.Break):
            raise _Break()
        elif isinstance(n, nodes.With):
            e2 = dict(env)
            for t, v in zip(n.targets, n.values):
                self.bind(t, self.expr(v, e2, tname), e2)
            self.block(n.body, e2, out, tname)
        elif isinstance(n, nodes.Scope):
            self.block(n.body, dict(env), out, tname)
        elif isinstance(n, nodes.ExprStmt):
            self.expr(n.node, env, tname)
        else:
            raise Cannot(f"statement {type(n).__name__}")


def renderings(jx: Any, tname: str, macro: str, kinds: "list[tuple[bool, bool]]", max_runs: int = 256) -> "list[tuple[dict[str, bool], str]]":
    """every text `macro` of `tname` writes for a union whose members have the given (has construct, has check_type_for_construct) facts:
    one per assignment of the holes the template tests on the way"""
    done: list[tuple[dict[str, bool], str]] = []
    todo: list[dict[str, bool]] = [{}]
    runs = 0
    while todo:
        dec = todo.pop()
        runs += 1
        if runs > max_runs:
            raise Cannot("too many assignments of the tested holes")
        w = Walk(jx, kinds, dec)
        m = w.module_env(tname).get(macro)
        if not isinstance(m, MacroVal):
            raise Cannot(f"macro {macro} of {tname}")
        params = [a.name for a in m.node.args]
        if not params:
            raise Cannot(f"macro {macro} without parameters")
        try:
            text = w.call_macro(m, [Union_()] + [Opaque(p) for p in params[1:len(params) - len(m.node.defaults)]], {}, None)
        except _Need as need:
            todo.append({**dec, need.key: True})
            todo.append({**dec, need.key: False})
            continue
        except (_Continue, _Break):
            raise Cannot("continue / break outside a loop") from None
        done.append((dec, text))
    return done
