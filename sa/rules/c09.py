"""C09 - derived names are valid identifiers and never merge silently."""
from __future__ import annotations

import ast
import re

from typing import Any

from ..charclass import EITHER, FACTS, S, bad_identifier_chars, members
from ..astutil import norm
from ..core import PKG, Report
from ..domain import CONST, ENUM, IDENT, NUM, WORD
from ..jinja_interp import expr_text
from .registries import check_module_files, check_registries

LEVEL = ("(a) validity: abstract interpretation of the naming pipeline over sets of code points - every return path of "
         "PythonIdentifier.__new__ (snake and raw mode), ClassName.__new__ and every member-name store of "
         "EnumProperty.values_from_list is shown to yield first in ID_Start, rest in ID_Continue, non-empty, not a keyword, "
         "for ALL strings (exhaustive over 0x110000 code points, not sampled); (b) every field annotated "
         "PythonIdentifier/ClassName only ever receives constructor results (interprocedural label analysis); "
         "(b') every printed expression standing at an identifier-required position of a generated line (decided from the generated "
         "text around it) is reached only by text labelled IDENT / CONST / ENUM / WORD / NUM; "
         "(c) uniqueness scopes: keyed registry stores dominated by membership tests leading to diagnostics, conflict "
         "resolution followed by re-checks (CFG dominance / path rules).")


def run(rep: Report, ctx: Any) -> str:
    ix = ctx.py
    ch = ctx.chars
    t = ctx.tables
    rep.rule("R09.1", "for all input strings: each return path of the name constructors and each enum member name is a "
                      "valid, non-keyword identifier (first in ID_Start, rest in ID_Continue, non-empty)")
    rep.rule("R09.2", "fields annotated PythonIdentifier / ClassName only ever receive results of those constructors; every template "
                      "hole that prints such a field carries constructor results only; every identifier-required position of the "
                      "generated code (assignment / annotation target, keyword, parameter, attribute, def / class / import / for name) "
                      "receives identifier material only, whatever expression the template prints there")
    rep.assumptions += [
        "config.field_prefix matches [A-Za-z][A-Za-z0-9_]* and prefix+name does not spell a keyword (the user's own configuration)",
        "CPython's str.isidentifier / re \\w / case mappings tabulated over all code points are the definition of validity",
    ]
    ch.reserved_words(None)

    n_paths = 0
    for cls_name, modes in (("PythonIdentifier", (False, True)), ("ClassName", (None,))):
        f = ix.func(f"{cls_name}.__new__")
        for mode in modes:
            args = {"value": ch.TOP, "prefix": ch.PREFIX, "cls": None}
            tag = cls_name
            if mode is not None:
                args["skip_snake_case"] = mode
                tag += "[raw]" if mode else "[snake]"
            out, paths = ch.run_function(f, args)
            rep.require(paths, f"return paths of {cls_name}.__new__")
            for p in paths:
                n_paths += 1
                validated = p.result.valid
                key = f"{tag}::{'validated' if validated else 'prefixed'}-path"
                bad = bad_identifier_chars(t, p.result)
                if not p.result.nokw:
                    bad["may_be_keyword_or_reserved"] = True
                rep.check(not bad, "R09.1", key,
                          f"result may not be a valid identifier on path [{p.desc}]: {bad}",
                          where=f"{f.module.rel}:{p.line}", lhs=p.result.describe(t), rhs="first in ID_Start, rest in ID_Continue, "
                          "non-empty, not reserved", reasons=bad, path=p.desc)
    rep.floor("constructor_return_paths", n_paths, 3)

    # enum member names
    f = ix.func("EnumProperty.values_from_list")
    ch.stores = []
    ch.run_function(f, {"values": EITHER, "class_info": None})
    # the member table is whatever the function returns
    returned = {norm(r.value) for r in ast.walk(f.node) if isinstance(r, ast.Return) and r.value is not None}
    stores = [s for s in ch.stores if s[0] in returned]
    rep.floor("enum_member_stores", len(stores), 2)
    seen: dict[str, int] = {}
    for cont, k, cond, line, env in stores:
        # the path is classified by what the tests passed on it have established of the member value (however they are written and
        # whatever the variable is called): it is an int / a string that starts with a letter / any other string
        facts = {fact for _var, fact in env.get(FACTS, ())}
        kind = "int" if "int" in facts else "str"
        sub = "alpha" if "first_alpha" in facts else "positional"
        name = f"EnumProperty.values_from_list::member-name[{kind}" + (f",{sub}" if kind == "str" else "") + "]"
        seen[name] = seen.get(name, 0) + 1
        key = name + (f"#{seen[name]}" if kind == "int" else "")
        bad = bad_identifier_chars(t, k)
        rep.check(not bad, "R09.1", key, f"enum member name may not be a valid identifier on path [{cond}]: {bad}",
                  where=f"{f.module.rel}:{line}", lhs=k.describe(t), rhs="valid identifier", reasons=bad, path=cond)

    # helper-derived names: check_<snake_case(ClassName)> and module-level <SNAKE>_VALUES
    sc = ix.func("utils.snake_case")
    ident = S(t.ID_CONT, t.ID_START, False, True)
    out, _ = ch.run_function(sc, {"value": ident})
    rep.require(isinstance(out, S), "snake_case result")
    bad_any = out.any & ~t.ID_CONT
    rep.check(not bad_any, "R09.1", "check_<snake_case(ClassName)>", "snake_case of a valid class name may contain "
              f"{[f'U+{c:04X}' for c in members(bad_any, 6)]}", where=f"{sc.module.rel}:{sc.node.lineno}",
              lhs="alphabet of snake_case(valid identifier)", rhs="subset of ID_Continue (prefix `check_` supplies the start)")

    # ---- R09.2 ---------------------------------------------------------------------------------------------------
    it, ji = ctx.flow
    n_f = 0
    for c in ix.classes.values():
        if c.qual in it.raw_classes or c.qual in it.config_classes:
            continue
        for fname, ann in ix.all_fields(c).items():
            if ann is None:
                continue
            av = it.tr.from_ann(c.module, ann)
            if not av.types or not (av.types <= it.ident_classes):
                continue
            flow = it.fields.get((c.qual, fname))
            if flow is None:
                continue
            n_f += 1
            extra = flow.labels - {IDENT}
            rep.check(not extra, "R09.2", f"{c.qual.replace(PKG + '.', '')}.{fname}",
                      f"field annotated {sorted(x.rsplit('.', 1)[-1] for x in av.types)} receives text labelled {sorted(extra)} "
                      f"(written at {it.field_writes.get((c.qual, fname), [])[:4]})",
                      where=f"{c.module.rel}:{c.node.lineno}", lhs=sorted(flow.labels), rhs="{IDENT}")
    rep.floor("identifier_typed_fields", n_f, 9)
    # (b) holes that read an identifier-typed attribute (python_name / class name / module name), wherever they are printed in CODE
    #     (binding or reading position, alone or as a piece of a larger expression / `set` variable), carry IDENT only
    n_h = 0
    for e in ji.emissions.values():
        if e.kind != "CODE" or not e.labels:
            continue
        # (a template `set` variable is canonical and reads as its parenthesised definition, e.g. `(model.class_info.module_name)`)
        m_ = re.fullmatch(r"\(([\w.\[\]*]+)\)", e.hole)  # a set variable bound to a plain attribute chain
        chain = m_.group(1) if m_ else e.hole
        if chain.endswith(("python_name", "class_info.name", "module_name", "class_name")) and re.fullmatch(r"[\w.\[\]*()+ ]+", chain):
            n_h += 1
            extra = e.labels - {IDENT}
            rep.check(not extra, "R09.2", f"{e.template}::{e.macro}::{e.expr}#{e.ordinal}" + ("" if e.hole == e.expr else f"<{e.hole}>"),
                      f"a printed name receives text labelled {sorted(extra)}", where=f"{e.template}:{e.line}",
                      lhs=sorted(e.labels), rhs="{IDENT}")
    rep.indexed["identifier_attribute_holes"] = n_h
    # (c) identifier-required positions of the generated code (assignment / annotation target, keyword or parameter name, attribute,
    #     name after def / class / import / as / for), found by what the template writes around the printed expression on the same
    #     generated line - whatever expression, `set` variable or macro parameter is printed there, and whatever it is called:
    #     every piece of text that can reach such a position is made of identifier material only
    n_e = 0
    by_site: dict[tuple, list[Any]] = {}
    for e in ji.emissions.values():
        by_site.setdefault((e.template, e.macro, e.expr, e.ordinal), []).append(e)
    for tname, macro, node, kind in name_positions(ctx.jinja):
        et = expr_text(node)
        ordinal = ji.ordinals.get((tname, macro, et), {}).get(id(node))
        es = [e for e in by_site.get((tname, macro, et, ordinal), []) if e.kind == "CODE" and e.labels]
        if not es:
            continue  # never reached, or not in a code context (docstring, comment)
        n_e += 1
        bad = sorted({(e.hole, l) for e in es for l in e.labels - NAME_MATERIAL})
        rep.check(not bad, "R09.2", f"{tname}::{macro}::{et}#{ordinal}@{kind}",
                  f"text that is not identifier material reaches a {kind} position of the generated code: "
                  f"{[f'{h} labelled {l}' for h, l in bad][:4]}", where=f"{tname}:{getattr(node, 'lineno', 0)}",
                  lhs=sorted({l for e in es for l in e.labels}), rhs=sorted(NAME_MATERIAL))
    rep.floor("name_emissions", n_e, 50)
    rep.not_decided.append("WORD text (\\w-words from snake_case & co.) is admitted at name positions: validity of the two producers that "
                           "occur (enum member names, check_<snake_case(class)>) is decided by R09.1, other producers are not distinguished")

    # ---- R09.3 -------------------------------------------------------------------------------------------------------
    check_registries(rep, ctx, "R09.3")
    check_module_files(rep, ctx, "R09.3")
    rep.not_decided.append("that disambiguation always succeeds when it could; only that it is attempted or diagnosed")
    return LEVEL


# ---- identifier-required positions of the generated code -------------------------------------------------------------------------
# text labels that consist of identifier characters: validated identifiers, literal text of the repository's own templates / sources,
# values of the repository's own enums, \w-words of the naming helpers, digits
NAME_MATERIAL = frozenset({IDENT, CONST, ENUM, WORD, NUM})
_PH = "\ue000"   # stands for another printed expression on the same line
_UNKNOWN = "\x00"  # the text before is not known (branches that end differently)
_W = rf"(?:\w|{_PH})"


def position_kind(before: str, after: str) -> str | None:
    """What the Python grammar requires of a token, given the text of its line before and after it (None: no identifier required,
    or not recognisable).  Only the generated text decides - not how the template produces it."""
    ends_token = rf"^{_W}*\s*"
    if re.match(ends_token + r"(=(?!=)|:(?![=:])|[-+*/%@&|^]=)", after) and re.fullmatch(rf"\s*(?:{_W}|\.)*", before):
        return "target"      # NAME = ... / NAME: T ... / obj.NAME += ...  at the start of a line
    if re.search(rf"[(,]\s*\*{{0,2}}{_W}*$", before):
        if re.match(ends_token + r"=(?!=)", after):
            return "keyword"  # f(..., NAME=...)
        if re.match(ends_token + r":(?![=:])", after):
            return "parameter"  # def f(..., NAME: T
    if re.search(rf"(?<![\d.])\.{_W}*$", before):
        return "attribute"   # obj.NAME / from .pkg.NAME import
    if re.search(rf"(^|[^\w.{_PH}])(def|class|import|as|for|global|nonlocal|del)\s+{_W}*$", before):
        return "binder"      # def NAME / class NAME / import NAME / as NAME / for NAME
    return None


def name_positions(jx: Any) -> list[tuple[str, str, Any, str]]:
    """(template, macro, printed expression node, kind) of every `{{ ... }}` that stands at an identifier-required position."""
    from jinja2 import nodes

    out: list[tuple[str, str, Any, str]] = []

    def walk(body: list[Any], tname: str, macro: str, tail: str) -> str:
        """tail: text of the current generated line so far; returns the tail after the body"""
        for n in body:
            if isinstance(n, nodes.Output):
                kids = n.nodes
                for i, c in enumerate(kids):
                    if isinstance(c, nodes.TemplateData):
                        tail = c.data.rsplit("\n", 1)[-1] if "\n" in c.data else tail + c.data
                        continue
                    after = ""
                    for d in kids[i + 1:]:
                        if isinstance(d, nodes.TemplateData):
                            after += d.data
                            if "\n" in d.data:
                                break
                        else:
                            after += _PH
                    kind = position_kind(tail, after.split("\n", 1)[0]) if _UNKNOWN not in tail else None
                    if kind is not None:
                        out.append((tname, macro, c, kind))
                    tail += _PH
            elif isinstance(n, nodes.If):
                ends = [walk(n.body, tname, macro, tail)]
                for el in n.elif_:
                    ends.append(walk(el.body, tname, macro, tail))
                ends.append(walk(n.else_, tname, macro, tail) if n.else_ else tail)
                tail = ends[0] if all(x == ends[0] for x in ends) else _UNKNOWN
            elif isinstance(n, nodes.For):
                end = walk(n.body, tname, macro, tail)
                tail = tail if end == tail else _UNKNOWN
            elif isinstance(n, nodes.Macro):
                walk(n.body, tname, n.name, "")
            elif isinstance(n, (nodes.With, nodes.Scope, nodes.CallBlock, nodes.FilterBlock, nodes.AssignBlock)):
                tail = walk(getattr(n, "body", []), tname, macro, tail)
        return tail

    for tname, ti in sorted(jx.templates.items()):
        if ti.lang == "python":  # the grammar applied is Python's
            walk(ti.tree.body, tname, "<top>", "")
    return out
