"""C09 - derived names are valid identifiers and never merge silently."""
from __future__ import annotations

import ast
import re

from typing import Any

from ..charclass import EITHER, S, L, bad_identifier_chars, members
from ..astutil import norm
from ..core import PKG, Report
from ..domain import IDENT
from .registries import check_module_files, check_registries

LEVEL = ("(a) validity: abstract interpretation of the naming pipeline over sets of code points - every return path of "
         "PythonIdentifier.__new__ (snake and raw mode), ClassName.__new__ and every member-name store of "
         "EnumProperty.values_from_list is shown to yield first in ID_Start, rest in ID_Continue, non-empty, not a keyword, "
         "for ALL strings (exhaustive over 0x110000 code points, not sampled); (b) every field annotated "
         "PythonIdentifier/ClassName only ever receives constructor results (interprocedural label analysis); "
         "(c) uniqueness scopes: keyed registry stores dominated by membership tests leading to diagnostics, conflict "
         "resolution followed by re-checks (CFG dominance / path rules).")


def run(rep: Report, ctx: Any) -> str:
    ix = ctx.py
    ch = ctx.chars
    t = ctx.tables
    rep.rule("R09.1", "for all input strings: each return path of the name constructors and each enum member name is a "
                      "valid, non-keyword identifier (first in ID_Start, rest in ID_Continue, non-empty)")
    rep.rule("R09.2", "fields annotated PythonIdentifier / ClassName only ever receive results of those constructors")
    rep.assumptions += [
        "config.field_prefix matches [A-Za-z][A-Za-z0-9_]* and prefix+name does not spell a keyword (the user's own configuration)",
        "CPython's str.isidentifier / re \\w / case mappings tabulated over all code points are the definition of validity",
    ]
    ch.reserved_words(None)

    n_paths = 0
    for cls_name, modes in (("PythonIdentifier", (False, True)), ("ClassName", (None,))):
        f = ix.func(f"{cls_name}.__new__")
        for mode in modes:
            args = {"value": ch.TOP, "prefix": ch.PREFIX, "cls": None}
            tag = cls_name
            if mode is not None:
                args["skip_snake_case"] = mode
                tag += "[raw]" if mode else "[snake]"
            out, paths = ch.run_function(f, args)
            rep.require(paths, f"return paths of {cls_name}.__new__")
            for p in paths:
                n_paths += 1
                validated = p.result.valid
                key = f"{tag}::{'validated' if validated else 'prefixed'}-path"
                bad = bad_identifier_chars(t, p.result)
                if not p.result.nokw:
                    bad["may_be_keyword_or_reserved"] = True
                rep.check(not bad, "R09.1", key,
                          f"result may not be a valid identifier on path [{p.desc}]: {bad}",
                          where=f"{f.module.rel}:{p.line}", lhs=p.result.describe(t), rhs="first in ID_Start, rest in ID_Continue, "
                          "non-empty, not reserved", reasons=bad, path=p.desc)
    rep.floor("constructor_return_paths", n_paths, 6)

    # enum member names
    f = ix.func("EnumProperty.values_from_list")
    ch.stores = []
    ch.run_function(f, {"values": EITHER, "class_info": None})
    # the member table is whatever the function returns; the member value is the element variable of the loop over `values`
    returned = {norm(r.value) for r in ast.walk(f.node) if isinstance(r, ast.Return) and r.value is not None}
    vloops = [lp for lp in ast.walk(f.node) if isinstance(lp, ast.For) and norm(lp.iter).startswith("enumerate(values") and isinstance(lp.target, ast.Tuple)]
    rep.require(vloops, "loop over enumerate(values) in values_from_list")
    vv = norm(vloops[0].target.elts[1])
    stores = [s for s in ch.stores if s[0] in returned]
    rep.floor("enum_member_stores", len(stores), 3)
    seen: dict[str, int] = {}
    for cont, k, cond, line in stores:
        kind = "int" if f"isinstance({vv}, int)" in cond and f"not(isinstance({vv}, int))" not in cond else "str"
        sub = "alpha" if f"& {vv} and {vv}[0].isalpha()" in cond or cond.endswith(f"{vv}[0].isalpha()") else "positional"
        name = f"EnumProperty.values_from_list::member-name[{kind}" + (f",{sub}" if kind == "str" else "") + "]"
        seen[name] = seen.get(name, 0) + 1
        key = name + (f"#{seen[name]}" if kind == "int" else "")
        bad = bad_identifier_chars(t, k)
        rep.check(not bad, "R09.1", key, f"enum member name may not be a valid identifier on path [{cond}]: {bad}",
                  where=f"{f.module.rel}:{line}", lhs=k.describe(t), rhs="valid identifier", reasons=bad, path=cond)

    # helper-derived names: check_<snake_case(ClassName)> and module-level <SNAKE>_VALUES
    sc = ix.func("utils.snake_case")
    ident = S(t.ID_CONT, t.ID_START, False, True)
    out, _ = ch.run_function(sc, {"value": ident})
    rep.require(isinstance(out, S), "snake_case result")
    bad_any = out.any & ~t.ID_CONT
    rep.check(not bad_any, "R09.1", "check_<snake_case(ClassName)>", "snake_case of a valid class name may contain "
              f"{[f'U+{c:04X}' for c in members(bad_any, 6)]}", where=f"{sc.module.rel}:{sc.node.lineno}",
              lhs="alphabet of snake_case(valid identifier)", rhs="subset of ID_Continue (prefix `check_` supplies the start)")

    # ---- R09.2 ---------------------------------------------------------------------------------------------------
    it, ji = ctx.flow
    n_f = 0
    for c in ix.classes.values():
        if c.qual in it.raw_classes or c.qual in it.config_classes:
            continue
        for fname, ann in ix.all_fields(c).items():
            if ann is None:
                continue
            av = it.tr.from_ann(c.module, ann)
            if not av.types or not (av.types <= it.ident_classes):
                continue
            flow = it.fields.get((c.qual, fname))
            if flow is None:
                continue
            n_f += 1
            extra = flow.labels - {IDENT}
            rep.check(not extra, "R09.2", f"{c.qual.replace(PKG + '.', '')}.{fname}",
                      f"field annotated {sorted(x.rsplit('.', 1)[-1] for x in av.types)} receives text labelled {sorted(extra)} "
                      f"(written at {it.field_writes.get((c.qual, fname), [])[:4]})",
                      where=f"{c.module.rel}:{c.node.lineno}", lhs=sorted(flow.labels), rhs="{IDENT}")
    rep.floor("identifier_typed_fields", n_f, 18)
    # names emitted by templates in CODE through *.python_name / class names carry IDENT only
    n_e = 0
    for e in ji.emissions.values():
        if e.kind != "CODE" or not e.labels:
            continue
        # (a template `set` variable is canonical and reads as its parenthesised definition, e.g. `(model.class_info.module_name)`)
        m_ = re.fullmatch(r"\(([\w.\[\]*]+)\)", e.hole)  # a set variable bound to a plain attribute chain
        chain = m_.group(1) if m_ else e.hole
        if chain.endswith(("python_name", "class_info.name", "module_name", "class_name")) and e.hole == e.expr and re.fullmatch(r"[\w.\[\]*()+ ]+", chain):
            n_e += 1
            extra = e.labels - {IDENT}
            rep.check(not extra, "R09.2", f"{e.template}::{e.macro}::{e.expr}#{e.ordinal}",
                      f"a name position receives text labelled {sorted(extra)}", where=f"{e.template}:{e.line}",
                      lhs=sorted(e.labels), rhs="{IDENT}")
    rep.floor("name_emissions", n_e, 60)

    # ---- R09.3 -------------------------------------------------------------------------------------------------------
    check_registries(rep, ctx, "R09.3")
    check_module_files(rep, ctx, "R09.3")
    rep.not_decided.append("that disambiguation always succeeds when it could; only that it is attempted or diagnosed")
    return LEVEL
