"""C09 - derived names are valid identifiers and never merge silently."""
from __future__ import annotations

import ast
import keyword
import re

from typing import Any

from ..charclass import EITHER, FACTS, CharInterp, I, L, S, bad_identifier_chars, bits_of_str, join_s, members
from ..astutil import Locals, anon, call_name, cfg_of, constructs_error, local_names, norm, region, short, stmt_of
from ..cfg import walk_own
from ..core import PKG, AnalysisError, Report
from ..pyindex import dotted
from ..domain import CONST, ENUM, IDENT, NUM, WORD
from ..jinja_interp import expr_text
from .registries import check_module_files, check_registries, parameter_passes

MODE_PARAM = "skip_snake_case"  # the mode switch of PythonIdentifier.__new__ (a parameter name: part of the repository's interface)

LEVEL = ("(a) validity: abstract interpretation of the naming pipeline over sets of code points - every return path of "
         "PythonIdentifier.__new__ (snake and raw mode), ClassName.__new__ and every member-name store of "
         "EnumProperty.values_from_list is shown to yield first in ID_Start, rest in ID_Continue, non-empty, not a keyword, "
         "for ALL strings (exhaustive over 0x110000 code points, not sampled); (b) every field annotated "
         "PythonIdentifier/ClassName only ever receives constructor results (interprocedural label analysis); "
         "(b') every printed expression standing at an identifier-required position of a generated line (decided from the generated "
         "text around it) is reached only by text labelled IDENT / CONST / ENUM / WORD / NUM, and cannot be a keyword (affix no keyword "
         "has, or renamed by the constructors and since passed only through filters E6 shows keyword-free); "
         "(c) uniqueness scopes: keyed registry stores dominated by membership tests leading to diagnostics, conflict "
         "resolution followed by re-checks (CFG dominance / path rules); (d) the constructor mode that R09.1 shows to let delimiters "
         "through is traced over the call graph (forwarding parameters, defaults, locals) to every site that can select it: each is "
         "preceded on every path by a collision test of derived names; (e) the operation's parameter pass reads every parameter "
         "collection of the operation (fields by declared element type, and those whose names the templates print); (f) where those "
         "collections are filled, one element per item of an iteration, a decision that looks at the elements already collected and can "
         "end the iteration without adding the item reads everything that determines the item's place and name; (g) the directory "
         "that is the importable package is, for every outcome of the constructor's tests, the user's output_path or named by package_name.")


def run(rep: Report, ctx: Any) -> str:
    ix = ctx.py
    # the shared engine reads a regular-expression call as (pattern, [replacement,] string): calls that say more (flags=, count=,
    # maxsplit=) are first brought into that form, or refused - never read as if the extra arguments were not there
    ch = FlagAwareInterp(ix, ctx.tables)
    t = ctx.tables
    rep.rule("R09.1", "for all input strings: each return path of the name constructors and each enum member name is a "
                      "valid, non-keyword identifier (first in ID_Start, rest in ID_Continue, non-empty).  The three conditions are "
                      "separate obligations per path (<path> character classes, <path>::non-empty, <path>::not-reserved): a known "
                      "defect of one kind never stands for a defect of another kind on the same path.  The enum member names are decided for all "
                      "values of every parameter of EnumProperty.values_from_list that some call supplies (a list of strings, a string, "
                      "an int, as annotated: arbitrary ones), not only for the member values")
    rep.rule("R09.2", "fields annotated PythonIdentifier / ClassName only ever receive results of those constructors; every template "
                      "hole that prints such a field carries constructor results only; every identifier-required position of the "
                      "generated code (assignment / annotation target, keyword, parameter, attribute, def / class / import / for name) "
                      "receives identifier material only, whatever expression the template prints there; and the token printed "
                      "there is not a keyword (`...::not-keyword`): the template writes an affix around the expression that no keyword "
                      "has, or the expression - read through `set` variables, macro arguments at every call of a macro of that name, "
                      "defaults, conditionals, literal affixes of a concatenation - is a constructor result / repository constant / "
                      "number that has passed only through filters whose result E6 shows never to spell a keyword (upper) or that "
                      "hand an identifier on unchanged (string, safe, trim); text of the word helpers (snake_case & co., which do not "
                      "rename reserved words) is admitted bare only as a key of the enum member table, whose stores R09.1 decides")
    rep.assumptions += [
        "config.field_prefix matches [A-Za-z][A-Za-z0-9_]* and prefix+name does not spell a keyword (the user's own configuration)",
        "CPython's str.isidentifier / re \\w / case mappings tabulated over all code points are the definition of validity",
    ]
    ch.reserved_words(None)

    n_paths = 0
    leak: dict[Any, int] = {}  # PythonIdentifier mode -> code points outside ID_Continue that survive on some unvalidated path
    for cls_name, modes in (("PythonIdentifier", (False, True)), ("ClassName", (None,))):
        f = ix.func(f"{cls_name}.__new__")
        for mode in modes:
            args = {"value": ch.TOP, "prefix": ch.PREFIX, "cls": None}
            tag = cls_name
            if mode is not None:
                args[MODE_PARAM] = mode
                tag += "[raw]" if mode else "[snake]"
            out, paths = ch.run_function(f, args)
            rep.require(paths, f"return paths of {cls_name}.__new__")
            for p in paths:
                n_paths += 1
                validated = p.result.valid
                if mode is not None:
                    leak[mode] = leak.get(mode, 0) | (0 if validated else p.result.any & ~t.ID_CONT)
                key = f"{tag}::{'validated' if validated else 'prefixed'}-path"
                validity_obligations(rep, t, key, p.result, f"result of {cls_name}.__new__", f"{f.module.rel}:{p.line}", p.desc,
                                     reserved=not p.result.nokw)
    rep.floor("constructor_return_paths", n_paths, 3)

    # enum member names
    f = ix.func("EnumProperty.values_from_list")
    ch.stores = []
    # every parameter ranges over everything its annotation admits (lists of strings, strings, ints: arbitrary ones); a parameter
    # whose annotation says nothing the interpreter can use stays unbound, and reading it for a name ends in exit 2, not in a pass
    ch.run_function(f, {"class_info": ("object",), **abstract_arguments(ch, f, call_sites(ix)), "values": EITHER})
    # the member table is whatever the function returns
    returned = {norm(r.value) for r in ast.walk(f.node) if isinstance(r, ast.Return) and r.value is not None}
    stores = [s for s in ch.stores if s[0] in returned]
    rep.floor("enum_member_stores", len(stores), 2)
    seen: dict[str, int] = {}
    for cont, k, cond, line, env in stores:
        # the path is classified by what the tests passed on it have established of the member value (however they are written and
        # whatever the variable is called): it is an int / a string that starts with a letter / any other string
        facts = {fact for _var, fact in env.get(FACTS, ())}
        kind = "int" if "int" in facts else "str"
        sub = "alpha" if "first_alpha" in facts else "positional"
        name = f"EnumProperty.values_from_list::member-name[{kind}" + (f",{sub}" if kind == "str" else "") + "]"
        seen[name] = seen.get(name, 0) + 1
        key = name + (f"#{seen[name]}" if kind == "int" else "")
        validity_obligations(rep, t, key, k, "enum member name", f"{f.module.rel}:{line}", cond,
                             reserved=k.nokw is not True and bool(spellable_keywords(k)))

    # helper-derived names: check_<snake_case(ClassName)> and module-level <SNAKE>_VALUES
    sc = ix.func("utils.snake_case")
    ident = S(t.ID_CONT, t.ID_START, False, True)
    out, _ = ch.run_function(sc, {"value": ident})
    rep.require(isinstance(out, S), "snake_case result")
    bad_any = out.any & ~t.ID_CONT
    rep.check(not bad_any, "R09.1", "check_<snake_case(ClassName)>", "snake_case of a valid class name may contain "
              f"{[f'U+{c:04X}' for c in members(bad_any, 6)]}", where=f"{sc.module.rel}:{sc.node.lineno}",
              lhs="alphabet of snake_case(valid identifier)", rhs="subset of ID_Continue (prefix `check_` supplies the start)")

    # ---- R09.2 ---------------------------------------------------------------------------------------------------
    it, ji = ctx.flow
    n_f = 0
    for c in ix.classes.values():
        if c.qual in it.raw_classes or c.qual in it.config_classes:
            continue
        for fname, ann in ix.all_fields(c).items():
            if ann is None:
                continue
            av = it.tr.from_ann(c.module, ann)
            if not av.types or not (av.types <= it.ident_classes):
                continue
            flow = it.fields.get((c.qual, fname))
            if flow is None:
                continue
            n_f += 1
            extra = flow.labels - {IDENT}
            rep.check(not extra, "R09.2", f"{c.qual.replace(PKG + '.', '')}.{fname}",
                      f"field annotated {sorted(x.rsplit('.', 1)[-1] for x in av.types)} receives text labelled {sorted(extra)} "
                      f"(written at {it.field_writes.get((c.qual, fname), [])[:4]})",
                      where=f"{c.module.rel}:{c.node.lineno}", lhs=sorted(flow.labels), rhs="{IDENT}")
    rep.floor("identifier_typed_fields", n_f, 9)
    # (b) holes that read an identifier-typed attribute (python_name / class name / module name), wherever they are printed in CODE
    #     (binding or reading position, alone or as a piece of a larger expression / `set` variable), carry IDENT only
    n_h = 0
    for e in ji.emissions.values():
        if e.kind != "CODE" or not e.labels:
            continue
        # (a template `set` variable is canonical and reads as its parenthesised definition, e.g. `(model.class_info.module_name)`)
        m_ = re.fullmatch(r"\(([\w.\[\]*]+)\)", e.hole)  # a set variable bound to a plain attribute chain
        chain = m_.group(1) if m_ else e.hole
        if chain.endswith(("python_name", "class_info.name", "module_name", "class_name")) and re.fullmatch(r"[\w.\[\]*()+ ]+", chain):
            n_h += 1
            extra = e.labels - {IDENT}
            rep.check(not extra, "R09.2", f"{e.template}::{e.macro}::{e.expr}#{e.ordinal}" + ("" if e.hole == e.expr else f"<{e.hole}>"),
                      f"a printed name receives text labelled {sorted(extra)}", where=f"{e.template}:{e.line}",
                      lhs=sorted(e.labels), rhs="{IDENT}")
    rep.indexed["identifier_attribute_holes"] = n_h
    # (c) identifier-required positions of the generated code (assignment / annotation target, keyword or parameter name, attribute,
    #     name after def / class / import / as / for), found by what the template writes around the printed expression on the same
    #     generated line - whatever expression, `set` variable or macro parameter is printed there, and whatever it is called:
    #     every piece of text that can reach such a position is made of identifier material only
    n_e = 0
    by_site: dict[tuple, list[Any]] = {}
    for e in ji.emissions.values():
        by_site.setdefault((e.template, e.macro, e.expr, e.ordinal), []).append(e)
    member_fields = member_table_fields(ix, ix.func("EnumProperty.values_from_list"))
    safety = KeywordSafety(ctx, ch, ji, member_fields)
    n_bare = 0
    for tname, macro, node, kind, pre, suf in name_positions(ctx.jinja):
        et = expr_text(node)
        ordinal = ji.ordinals.get((tname, macro, et), {}).get(id(node))
        es = [e for e in by_site.get((tname, macro, et, ordinal), []) if e.kind == "CODE" and e.labels]
        if not es:
            continue  # never reached, or not in a code context (docstring, comment)
        n_e += 1
        bad = sorted({(e.hole, l) for e in es for l in e.labels - NAME_MATERIAL})
        rep.check(not bad, "R09.2", f"{tname}::{macro}::{et}#{ordinal}@{kind}",
                  f"text that is not identifier material reaches a {kind} position of the generated code: "
                  f"{[f'{h} labelled {l}' for h, l in bad][:4]}", where=f"{tname}:{getattr(node, 'lineno', 0)}",
                  lhs=sorted({l for e in es for l in e.labels}), rhs=sorted(NAME_MATERIAL))
        # (d) ... and the token is not a keyword: the template writes an affix around the expression that no keyword has, or what is
        #     printed has passed the reserved-word renaming and nothing that can undo it since
        if affix_excludes_keywords(pre, suf):
            continue
        labels = frozenset(l for e in es for l in e.labels)
        if labels <= {CONST, ENUM, NUM}:
            continue  # the repository's own text, the same for every document: no name the document chooses is printed here
        n_bare += 1
        why = safety.reason(tname, macro, node, labels)
        rep.check(why is None, "R09.2", f"{tname}::{macro}::{et}#{ordinal}@{kind}::not-keyword",
                  f"the {kind} position of the generated code can receive a Python keyword: {why}; only the name constructors rename "
                  "reserved words, and a keyword at this position makes the generated module a syntax error",
                  where=f"{tname}:{getattr(node, 'lineno', 0)}", lhs=why or "renamed, and unchanged since",
                  rhs="constructor result printed as it is (or through a filter E6 shows keyword-free), or an affix no keyword has")
    rep.floor("name_emissions", n_e, 50)
    rep.floor("bare_name_tokens", n_bare, 30)
    rep.not_decided.append("R09.2 (not-keyword): a case change or re-derivation applied on the Python side to a constructor result that is then "
                           "stored where the templates read it (the text keeps the label IDENT); tokens put together from two printed expressions")
    rep.not_decided.append("WORD text (\\w-words from snake_case & co.) is admitted at name positions: validity of the two producers that "
                           "occur (enum member names, check_<snake_case(class)>) is decided by R09.1, other producers are not distinguished")

    # ---- R09.3 -------------------------------------------------------------------------------------------------------
    check_registries(rep, ctx, "R09.3")
    check_module_files(rep, ctx, "R09.3")
    rep.not_decided.append("that disambiguation always succeeds when it could; only that it is attempted or diagnosed")
    check_weak_mode(rep, ctx, "R09.4", ix.func("PythonIdentifier.__new__"), MODE_PARAM, leak)
    sources = check_pass_sources(rep, ctx, "R09.5")
    check_no_silent_loss(rep, ctx, "R09.6", sources)
    check_package_directory(rep, ctx, "R09.7")
    return LEVEL


# ---- R09.1: the conditions of validity, one obligation each ----------------------------------------------------------------------
def validity_obligations(rep: Report, t: Any, key: str, s: S, what: str, where: str, path: str, reserved: "bool | None" = None) -> None:
    """A name is valid when its characters are of the right classes, it is not empty, and it is not a reserved word.  Each condition is
    an obligation of its own (`key` keeps standing for the character classes): a path on which one of them is known to fail is still
    examined for the others."""
    bad = bad_identifier_chars(t, s)
    empty = bool(bad.pop("may_be_empty", False))
    rep.check(not bad, "R09.1", key, f"{what} may not be a valid identifier on path [{path}]: {bad}", where=where, lhs=s.describe(t),
              rhs="first in ID_Start, rest in ID_Continue", reasons=bad, path=path)
    rep.check(not empty, "R09.1", key + "::non-empty", f"{what} may be the empty string on path [{path}]: every character of the input "
              "can be removed or none is required, and nothing is put in its place", where=where, lhs=s.describe(t), rhs="never empty", path=path)
    if reserved is not None:
        rep.check(not reserved, "R09.1", key + "::not-reserved", f"{what} may be a keyword or a reserved word on path [{path}]",
                  where=where, lhs=s.describe(t), rhs="not a keyword, not in RESERVED_WORDS", path=path)


# ---- the arguments of a function "for all inputs" ---------------------------------------------------------------------------------
def abstract_arguments(ch: CharInterp, f: Any, sites: list[tuple[ast.Call, Any, Any]]) -> dict[str, Any]:
    """what each annotated parameter of f can be, as far as the annotation says it in terms the character interpreter has: a list of
    strings (whatever else it may be - None, absent - counts as the empty list), a string, an int.  Strings are arbitrary.  A parameter
    with a default that no call in the package supplies is not listed: it is its default."""
    out: dict[str, Any] = {}
    calls = [c for c, _h, m in sites if _is_call_of(c, f, m)]
    for a in f.params:
        if a.annotation is None:
            continue
        if _default_of(f.node, a.arg) is not None and all(_supplied(c, f, a.arg) is None for c in calls):
            continue
        ann = a.annotation
        if isinstance(ann, ast.Constant) and isinstance(ann.value, str):
            try:
                ann = ast.parse(ann.value, mode="eval").body
            except SyntaxError:
                continue
        names = {n.id if isinstance(n, ast.Name) else n.attr for n in ast.walk(ann) if isinstance(n, (ast.Name, ast.Attribute))}
        names -= {"Optional", "Union", "None", "typing", "t"}
        seqs = names & {"list", "List", "Sequence", "Iterable", "tuple", "Tuple", "Collection"}
        if names - seqs == {"str"}:
            out[a.arg] = L(ch.TOP, True) if seqs else ch.TOP
        elif names == {"int"}:
            out[a.arg] = I("any")
    return out


# ---- regular-expression calls with more arguments than the engine reads ----------------------------------------------------------
_RE_SIGNATURES = {"re.sub": ("pattern", "repl", "string", "count", "flags"), "re.split": ("pattern", "string", "maxsplit", "flags"),
                  "re.findall": ("pattern", "string", "flags")}  # the calls the engine models, with their full signatures
_ASCII_CLASSES = {"w": "a-zA-Z0-9_", "d": "0-9", "s": r" \t\n\r\f\v"}


def ascii_pattern(pat: str) -> "str | None":
    """the pattern that means under Unicode matching what `pat` means under re.ASCII: \\w, \\d, \\s written out as their ASCII ranges.
    None when the pattern uses something whose ASCII meaning cannot be written that way (\\W, \\D, \\S, \\b, \\B, inline flags)."""
    out: list[str] = []
    i, in_class = 0, False
    while i < len(pat):
        c = pat[i]
        if c == "\\" and i + 1 < len(pat):
            e = pat[i + 1]
            if e in _ASCII_CLASSES:
                out.append(_ASCII_CLASSES[e] if in_class else f"[{_ASCII_CLASSES[e]}]")
            elif e in "WDSbB":
                return None
            else:
                out.append(c + e)
            i += 2
            continue
        if c == "[" and not in_class:
            in_class = True
            out.append(c)
            i += 1
            if pat[i:i + 1] == "^":
                out.append("^")
                i += 1
            if pat[i:i + 1] == "]":  # a leading `]` is a member of the class
                out.append("\\]")
                i += 1
            continue
        if c == "]" and in_class:
            in_class = False
        if c == "(" and pat[i + 1:i + 2] == "?" and pat[i + 2:i + 3] not in (":", "=", "!", "<", "P"):
            return None
        out.append(c)
        i += 1
    return "".join(out)


class FlagAwareInterp(CharInterp):
    """The character interpreter with some constructs brought into a form it reads: regular-expression calls with flags / limits
    (below), `xs or []` as a list-valued expression, the truth of a name bound to None, and a type test of a value an earlier test
    on the path has already decided.
    CharInterp reads `re.sub / re.split / re.findall` as (pattern, [replacement,] string) under Unicode matching.  A call that says
    more is rewritten into the call of that form that means the same - flags=re.ASCII by writing the ASCII classes into the pattern,
    flags=0 / re.UNICODE, count=0, maxsplit=0 by leaving them out - and anything else is refused (exit 2): an argument that changes
    what the call computes is never ignored."""

    def ev(self, n: ast.expr, env: dict[str, Any], m: Any) -> Any:
        # `xs or []` / `xs or ys` of lists is a list again: one of the operands (the engine reads `or` as a condition only)
        if isinstance(n, ast.BoolOp) and isinstance(n.op, ast.Or):
            try:
                vals = [self.ev(v, env, m) for v in n.values]
            except AnalysisError:
                vals = []  # (the engine does not evaluate what follows an operand that decides: let it read the expression its way)
            lists = [v for v in vals if isinstance(v, L)]
            if lists and all(isinstance(v, L) or v is None or v == ("container",) for v in vals):
                out = lists[0]
                for v in lists[1:]:
                    out = self.join_any(out, v)
                return L(out.elem if out.head is None else join_s(out.elem, out.head), True)
        return super().ev(n, env, m)

    def truth(self, n: ast.expr, env: dict[str, Any], m: Any) -> Any:
        if isinstance(n, ast.Name) and n.id in env and env[n.id] is None:
            return False  # a name bound to None
        return super().truth(n, env, m)

    def call(self, n: ast.Call, env: dict[str, Any], m: Any) -> Any:
        fn = dotted(n.func)
        if fn in _RE_SIGNATURES and self._callee(fn, m) is None:
            n = self._plain_regex_call(fn, n, m)
        if fn == "isinstance" and len(n.args) == 2 and isinstance(n.args[0], ast.Name) and dotted(n.args[1]) in ("int", "str"):
            # a test of something an earlier test on this path has already decided has one outcome: the other branch is not a path
            v = env.get(n.args[0].id)
            if isinstance(v, (I, S)):
                return isinstance(v, I) == (dotted(n.args[1]) == "int")
        return super().call(n, env, m)

    def _flag_names(self, e: ast.expr, m: Any, at: str) -> set[str]:
        if isinstance(e, ast.Constant) and e.value in (0, None):
            return set()
        if isinstance(e, ast.BinOp) and isinstance(e.op, ast.BitOr):
            return self._flag_names(e.left, m, at) | self._flag_names(e.right, m, at)
        d = dotted(e) or ""
        if d.startswith("re.") or m.imports.get(d, "").startswith("re."):
            return {d.rsplit(".", 1)[-1] if d.startswith("re.") else m.imports[d].rsplit(".", 1)[-1]}
        raise AnalysisError(f"E6: regex flags that cannot be read at {at}: {ast.unparse(e)}")

    def _plain_regex_call(self, fn: str, n: ast.Call, m: Any) -> ast.Call:
        sig = _RE_SIGNATURES[fn]
        at = f"{m.rel}:{n.lineno}"
        if any(isinstance(a, ast.Starred) for a in n.args) or any(k.arg is None for k in n.keywords) or len(n.args) > len(sig):
            raise AnalysisError(f"E6: regex call whose arguments cannot be told apart at {at}")
        given: dict[str, ast.expr] = dict(zip(sig, n.args))
        for k in n.keywords:
            if k.arg not in sig or k.arg in given:
                raise AnalysisError(f"E6: regex call with unknown argument `{k.arg}` at {at}")
            given[k.arg] = k.value
        plain = [p_ for p_ in sig if p_ in ("pattern", "repl", "string")]
        if set(given) <= set(plain) and not n.keywords:
            return n  # already of the form the engine reads
        for limit in ("count", "maxsplit"):
            v = given.get(limit)
            if v is not None and not (isinstance(v, ast.Constant) and v.value == 0):
                raise AnalysisError(f"E6: regex call limited by {limit}= at {at} (only the unlimited form is modelled)")
        flags = self._flag_names(given["flags"], m, at) if "flags" in given else set()
        pattern = given.get("pattern")
        if flags - {"ASCII", "A", "UNICODE", "U"}:
            raise AnalysisError(f"E6: regex flags {sorted(flags)} at {at} are not modelled")
        if flags & {"ASCII", "A"}:
            pat = self.ix.const_str(m, pattern) if pattern is not None else None
            if pat is None:
                raise AnalysisError(f"E6: non-constant regex at {at}")
            pat2 = ascii_pattern(pat)
            if pat2 is None:
                raise AnalysisError(f"E6: the ASCII reading of regex {pat!r} at {at} cannot be written as a Unicode pattern")
            pattern = ast.copy_location(ast.Constant(value=pat2), n)
        if pattern is None or any(p_ not in given for p_ in plain):
            raise AnalysisError(f"E6: regex call without pattern / string at {at}")
        return ast.copy_location(ast.Call(func=n.func, args=[pattern] + [given[p_] for p_ in plain[1:]], keywords=[]), n)


# ---- identifier-required positions of the generated code -------------------------------------------------------------------------
# text labels that consist of identifier characters: validated identifiers, literal text of the repository's own templates / sources,
# values of the repository's own enums, \w-words of the naming helpers, digits
NAME_MATERIAL = frozenset({IDENT, CONST, ENUM, WORD, NUM})
_PH = "\ue000"   # stands for another printed expression on the same line
_UNKNOWN = "\x00"  # the text before is not known (branches that end differently)
_W = rf"(?:\w|{_PH})"


def position_kind(before: str, after: str) -> str | None:
    """What the Python grammar requires of a token, given the text of its line before and after it (None: no identifier required,
    or not recognisable).  Only the generated text decides - not how the template produces it."""
    ends_token = rf"^{_W}*\s*"
    if re.match(ends_token + r"(=(?!=)|:(?![=:])|[-+*/%@&|^]=)", after) and re.fullmatch(rf"\s*(?:{_W}|\.)*", before):
        return "target"      # NAME = ... / NAME: T ... / obj.NAME += ...  at the start of a line
    if re.search(rf"[(,]\s*\*{{0,2}}{_W}*$", before):
        if re.match(ends_token + r"=(?!=)", after):
            return "keyword"  # f(..., NAME=...)
        if re.match(ends_token + r":(?![=:])", after):
            return "parameter"  # def f(..., NAME: T
    if re.search(rf"(?<![\d.])\.{_W}*$", before):
        return "attribute"   # obj.NAME / from .pkg.NAME import
    if re.search(rf"(^|[^\w.{_PH}])(def|class|import|as|for|global|nonlocal|del)\s+{_W}*$", before):
        return "binder"      # def NAME / class NAME / import NAME / as NAME / for NAME
    return None


# ---- keyword-safety of what is printed at a name position ------------------------------------------------------------------------
def spellable_keywords(s: S) -> list[str]:
    """the keywords the abstract string can be, as far as its alphabet tells (every character of the keyword is among its characters,
    the first among its first characters)"""
    if s.finite is not None:
        return sorted(k for k in keyword.kwlist if k in s.finite)
    return [k for k in keyword.kwlist if not (bits_of_str(k) & ~s.any) and (bits_of_str(k[0]) & s.first)]


def affix_excludes_keywords(pre: str, suf: str) -> bool:
    """no keyword begins with `pre` and ends with `suf`: whatever is printed between them, the token is not a keyword"""
    return bool(pre or suf) and not any(k.startswith(pre) and k.endswith(suf) and len(k) >= len(pre) + len(suf) for k in keyword.kwlist)


def member_table_fields(ix: Any, f: Any) -> set[str]:
    """the names (keyword / attribute) under which the result of f - the table of member names R09.1 decides - is stored"""
    out: set[str] = set()
    for g in ix.all_functions:
        lc = Locals(g.node)

        def is_result(e: ast.AST, depth: int = 2) -> bool:
            if isinstance(e, ast.Call):
                return _is_call_of(e, f, g.module)
            if isinstance(e, ast.Name) and depth > 0:
                return any(is_result(v, depth - 1) for v in lc.values_of(e.id))
            return False

        for n in ast.walk(g.node):
            if isinstance(n, ast.Call):
                out |= {kw.arg for kw in n.keywords if kw.arg and is_result(kw.value)}
            elif isinstance(n, ast.Assign) and is_result(n.value):
                out |= {t_.attr for t_ in n.targets if isinstance(t_, ast.Attribute)}
    return out


def _without_grouping_parentheses(text: str) -> str:
    """the canonical text of a template expression without the parentheses that only group (a `set` variable reads as its
    parenthesised definition); the parentheses of a call stay"""
    out: list[str] = []
    stack: list[bool] = []
    for i, c in enumerate(text):
        if c == "(":
            is_call = i > 0 and (text[i - 1].isalnum() or text[i - 1] in "_])")
            stack.append(is_call)
            if not is_call:
                continue
        elif c == ")" and stack:
            if not stack.pop():
                continue
        out.append(c)
    return "".join(out)


_STR_METHOD_OF_FILTER = {"upper": "upper", "lower": "lower", "capitalize": "capitalize", "title": "title"}
_UNCHANGED_BY_FILTER = {"string", "safe", "trim"}  # filters of jinja2 that hand an identifier (no white space in it) on as it is


class KeywordSafety:
    """Whether the text a template prints at a name position can be a Python keyword.  The reserved-word renaming happens in the name
    constructors (R09.1: `not-reserved` per return path) and nowhere else, so text is keyword-free when it is a constructor result
    (label IDENT; constants of the repository and numbers cannot be chosen by the document) that has since passed only through
    operations E6 shows unable to produce a keyword.  The printed expression is read through `set` variables (their definitions) and
    macro parameters (the arguments of every call of a macro of that name, and the default)."""

    def __init__(self, ctx: Any, ch: CharInterp, ji: Any, member_fields: set[str]) -> None:
        self.ix, self.jx, self.ch, self.ji, self.t = ctx.py, ctx.jinja, ch, ji, ctx.tables
        self.member_fields = member_fields
        self._filter: dict[str, str] = {}
        self._calls: "dict[str, list[tuple[str, str, Any]]] | None" = None
        self._sets: dict[str, dict[str, list[tuple[str, Any]]]] = {}

    # what a filter does to a renamed identifier: "never" (its result is never a keyword, whatever it is given), "keeps" (hands the text
    # on unchanged), or the keywords it can produce
    def filter_effect(self, name: str) -> str:
        if name in self._filter:
            return self._filter[name]
        t = self.t
        ident = S(t.ID_CONT, t.ID_START, False, True, None, None, False, True)
        out: Any = None
        try:
            if name in _UNCHANGED_BY_FILTER:
                out = ident
            elif name in _STR_METHOD_OF_FILTER:
                e = ast.parse(f"value.{_STR_METHOD_OF_FILTER[name]}()", mode="eval").body
                out = self.ch.ev(e, {"value": ident}, self.ch.utils)
            else:
                av = self.ji.filters.get(name)
                quals = {q for kind, q in (av.funcs if av is not None else ()) if kind == "func"}
                fs = [g for g in self.ix.all_functions if g.qual in quals]
                if fs and len(fs) == len(quals) and all(g.params for g in fs):
                    for g in fs:
                        r, _ = self.ch.run_function(g, {g.params[0].arg: ident})
                        out = join_s(out, r) if isinstance(r, S) and (out is None or isinstance(out, S)) else ("?",)
        except AnalysisError:
            out = None
        if not isinstance(out, S):
            how = "what it computes is not known to the character analysis"
        elif out.nokw is True:
            how = "keeps"
        else:
            kws = spellable_keywords(out)
            how = "never" if not kws else (f"its result is not shown to differ from {', '.join(repr(k) for k in kws[:4])}{' ...' if len(kws) > 4 else ''} "
                                                "when it is given a name that is no keyword")
        self._filter[name] = how
        return how

    def sets_of(self, tname: str) -> dict[str, list[tuple[str, Any]]]:
        """canonical name of a `set` variable -> (macro it is defined in, defining node) of template tname"""
        from jinja2 import nodes

        if tname not in self._sets:
            got: dict[str, list[tuple[str, Any]]] = {}

            def walk(n: Any, macro: str) -> None:
                for c in n.iter_child_nodes():
                    if isinstance(c, (nodes.Assign, nodes.AssignBlock)) and isinstance(c.target, nodes.Name):
                        got.setdefault(c.target.name, []).append((macro, c))
                    walk(c, c.name if isinstance(c, nodes.Macro) else macro)

            walk(self.jx.templates[tname].tree, "<top>")
            self._sets[tname] = got
        return self._sets[tname]

    def calls_of(self, mname: str) -> list[tuple[str, str, Any]]:
        """(template, macro, call node) of every call of a macro called mname (`m(...)`, `alias.m(...)`, `{% call m(...) %}`)"""
        from jinja2 import nodes

        if self._calls is None:
            self._calls = {}

            def walk(n: Any, tname: str, macro: str) -> None:
                for c in n.iter_child_nodes():
                    if isinstance(c, nodes.Call):
                        callee = c.node.name if isinstance(c.node, nodes.Name) else c.node.attr if isinstance(c.node, nodes.Getattr) else None
                        if callee is not None:
                            self._calls.setdefault(callee, []).append((tname, macro, c))  # type: ignore[union-attr]
                    walk(c, tname, c.name if isinstance(c, nodes.Macro) else macro)

            for tname, ti in self.jx.templates.items():
                walk(ti.tree, tname, "<top>")
        return self._calls.get(mname, [])

    def reason(self, tname: str, macro: str, n: Any, labels: frozenset[str], depth: int = 4) -> "str | None":
        """None: what n prints cannot be a keyword; otherwise why it can (or why that cannot be shown)"""
        from jinja2 import nodes

        if n is None:
            return None
        if isinstance(n, nodes.Const):
            return f"the literal {n.value!r}" if isinstance(n.value, str) and keyword.iskeyword(n.value) else None
        if isinstance(n, nodes.Filter):
            how = self.filter_effect(n.name)
            if how == "never":
                return None
            if how == "keeps":
                return self.reason(tname, macro, n.node, labels, depth)
            return f"`{expr_text(n)[:70]}` passes the name through `|{n.name}`: {how}"
        if isinstance(n, nodes.CondExpr):
            return self.reason(tname, macro, n.expr1, labels, depth) or self.reason(tname, macro, n.expr2, labels, depth)
        if isinstance(n, (nodes.Concat, nodes.Add)):
            parts = list(n.nodes) if isinstance(n, nodes.Concat) else [n.left, n.right]

            def lit(x: Any) -> str:
                return x.value if isinstance(x, nodes.Const) and isinstance(x.value, str) and re.fullmatch(r"\w+", x.value) else ""

            if affix_excludes_keywords(lit(parts[0]), lit(parts[-1])):
                return None
            if any(isinstance(x, nodes.Const) and isinstance(x.value, str) and re.search(r"\W", x.value) for x in parts):
                return None  # the text written here contains a delimiter of its own: it is not one name token
            return f"`{expr_text(n)[:70]}` puts the name together from parts, none of them a literal affix that no keyword has"
        if isinstance(n, nodes.Name):
            defs = self.sets_of(tname).get(n.name, [])
            defs = [d for d in defs if d[0] in (macro, "<top>")] or defs
            if defs and depth > 0:
                for m2, d in defs:
                    if isinstance(d, nodes.AssignBlock):
                        return f"`{n.name[:50]}` is a block of template text"
                    why = self.reason(tname, m2, d.node, labels, depth - 1)
                    if why:
                        return why
                return None
            m_ = self.jx.templates[tname].macros.get(macro)
            params = [a.name for a in m_.args] if m_ is not None else []
            if n.name in params and depth > 0:
                i = params.index(n.name)
                j = i - (len(params) - len(m_.defaults))
                supplied = [(tname, "<top>", m_.defaults[j])] if j >= 0 else []
                for t2, m2, c in self.calls_of(macro):
                    a = next((k.value for k in c.kwargs if k.key == n.name), c.args[i] if i < len(c.args) else None)
                    if a is not None:
                        supplied.append((t2, m2, a))
                for t2, m2, a in supplied:
                    why = self.reason(t2, m2, a, labels, depth - 1)
                    if why:
                        return why
                if supplied:
                    return None
        return self.leaf(n, labels)

    def leaf(self, n: Any, labels: frozenset[str]) -> "str | None":
        if WORD not in labels:
            return None  # constructor results, constants of the repository, numbers (anything else is reported by the clause on material)
        text = _without_grouping_parentheses(expr_text(n))
        fields = "|".join(sorted(re.escape(x) for x in self.member_fields))
        keys = rf"(?:\.items\(\)\[\*\]\.0|\.keys\(\)\[\*\]|\[\*\]|\|dictsort(?:\([^()]*\))?\[\*\]\.0)"
        if fields and re.fullmatch(rf"[\w.\[\]*]+\.(?:{fields}){keys}", text):
            return None  # a key of the member table: R09.1 decides `not-reserved` for every store into it
        return (f"`{text[:70]}` carries the output of a word helper (snake_case & co.), which does not rename reserved words, "
                "and is printed without an affix")


def name_positions(jx: Any) -> list[tuple[str, str, Any, str, str, str]]:
    """(template, macro, printed expression node, kind, literal text of the same token right before the expression, right after it)
    of every `{{ ... }}` that stands at an identifier-required position."""
    from jinja2 import nodes

    out: list[tuple[str, str, Any, str, str, str]] = []

    def walk(body: list[Any], tname: str, macro: str, tail: str) -> str:
        """tail: text of the current generated line so far; returns the tail after the body"""
        for n in body:
            if isinstance(n, nodes.Output):
                kids = n.nodes
                for i, c in enumerate(kids):
                    if isinstance(c, nodes.TemplateData):
                        tail = c.data.rsplit("\n", 1)[-1] if "\n" in c.data else tail + c.data
                        continue
                    after = ""
                    for d in kids[i + 1:]:
                        if isinstance(d, nodes.TemplateData):
                            after += d.data
                            if "\n" in d.data:
                                break
                        else:
                            after += _PH
                    kind = position_kind(tail, after.split("\n", 1)[0]) if _UNKNOWN not in tail else None
                    if kind is not None:
                        # the token the expression is printed into: identifier characters the template writes right around it
                        # (another printed expression adjoining it ends the literal part)
                        pre = re.search(rf"{_W}*$", tail).group(0).rsplit(_PH, 1)[-1]  # type: ignore[union-attr]
                        suf = re.match(rf"{_W}*", after).group(0).split(_PH, 1)[0]  # type: ignore[union-attr]
                        out.append((tname, macro, c, kind, pre, suf))
                    tail += _PH
            elif isinstance(n, nodes.If):
                ends = [walk(n.body, tname, macro, tail)]
                for el in n.elif_:
                    ends.append(walk(el.body, tname, macro, tail))
                ends.append(walk(n.else_, tname, macro, tail) if n.else_ else tail)
                tail = ends[0] if all(x == ends[0] for x in ends) else _UNKNOWN
            elif isinstance(n, nodes.For):
                end = walk(n.body, tname, macro, tail)
                tail = tail if end == tail else _UNKNOWN
            elif isinstance(n, nodes.Macro):
                walk(n.body, tname, n.name, "")
            elif isinstance(n, (nodes.With, nodes.Scope, nodes.CallBlock, nodes.FilterBlock, nodes.AssignBlock)):
                tail = walk(getattr(n, "body", []), tname, macro, tail)
        return tail

    for tname, ti in sorted(jx.templates.items()):
        if ti.lang == "python":  # the grammar applied is Python's
            walk(ti.tree.body, tname, "<top>", "")
    return out


# ---- R09.4: who selects the constructor's weak mode ------------------------------------------------------------------------------
_OPAQUE = ast.Constant(value="<* / ** argument>")  # what a call supplies for a parameter cannot be told


def _nesting(f: Any) -> int:
    n = 0
    while f.parent is not None:
        f, n = f.parent, n + 1
    return n


def call_sites(ix: Any) -> list[tuple[ast.Call, Any, Any]]:
    """(call, innermost function containing it or None at module / class level, module) for every call of the package"""
    out: list[tuple[ast.Call, Any, Any]] = []
    for m in ix.modules.values():
        owner: dict[int, Any] = {}
        for f in sorted((f for f in ix.all_functions if f.module is m), key=_nesting):  # inner functions overwrite outer ones
            for n in ast.walk(f.node):
                owner[id(n)] = f
        out += [(n, owner.get(id(n)), m) for n in ast.walk(m.tree) if isinstance(n, ast.Call)]
    return out


def _callee_label(k: Any) -> str:
    """the name a function is called by: a constructor by its class"""
    return k.cls.name if k.cls is not None and k.parent is None and k.name in ("__new__", "__init__") else k.name


def _is_call_of(c: ast.Call, k: Any, m: Any) -> bool:
    label = _callee_label(k)
    if isinstance(c.func, ast.Attribute):
        return c.func.attr == label
    if isinstance(c.func, ast.Name):
        return c.func.id == label or m.imports.get(c.func.id, "").rsplit(".", 1)[-1] == label
    return False


def _default_of(fn: Any, pname: str) -> "ast.expr | None":
    a = fn.args
    pos = [*a.posonlyargs, *a.args]
    for arg, d in zip(reversed(pos), reversed(a.defaults)):
        if arg.arg == pname:
            return d
    for arg, d in zip(a.kwonlyargs, a.kw_defaults):
        if arg.arg == pname:
            return d
    return None


def _supplied(c: ast.Call, k: Any, pname: str) -> "ast.expr | None":
    """the expression call c supplies for parameter pname of k; None when the default applies; _OPAQUE when it cannot be told"""
    for kw in c.keywords:
        if kw.arg == pname:
            return kw.value
    a = k.node.args
    pos = [x.arg for x in [*a.posonlyargs, *a.args]]
    if pname in pos:
        i = pos.index(pname)
        if k.cls is not None and k.parent is None and k.kind != "staticmethod":
            i -= 1  # self / cls comes from the call itself
        if any(isinstance(x, ast.Starred) for x in c.args[:i + 1]):
            return _OPAQUE
        if 0 <= i < len(c.args):
            return c.args[i]
    return _OPAQUE if any(kw.arg is None for kw in c.keywords) else None


def _mode_values(e: "ast.expr | None", h: Any, m: Any, weak: bool, depth: int = 3) -> set[Any]:
    """what a mode expression written in function h (None: module level) of module m can be: "weak" / "safe" for a constant, followed
    through plain locals and conditional expressions; ("forward", function, parameter) for a parameter of an enclosing function
    handed on unchanged; "unknown" for anything else"""
    if e is None:
        return set()
    if isinstance(e, ast.Constant) and e is not _OPAQUE:
        return {"weak" if bool(e.value) == weak else "safe"}
    if isinstance(e, ast.UnaryOp) and isinstance(e.op, ast.Not) and isinstance(e.operand, ast.Constant):
        return {"weak" if (not e.operand.value) == weak else "safe"}
    if isinstance(e, ast.IfExp):
        return _mode_values(e.body, h, m, weak, depth) | _mode_values(e.orelse, h, m, weak, depth)
    if isinstance(e, ast.Name):
        g = h
        while g is not None:
            out: set[Any] = set()
            ds = Locals(g.node).defs.get(e.id, [])
            is_param = e.id in {a.arg for a in g.params}
            if ds:
                if depth > 0 and all(k == "assign" and v is not None for k, _, v in ds):
                    for _, _, v in ds:
                        out |= _mode_values(v, g, m, weak, depth - 1)
                else:
                    out.add("unknown")
            if is_param:
                out.add(("forward", g, e.id))
            if out:
                return out
            g = g.parent
        if h is None or e.id in m.variables:
            v = m.variables.get(e.id)
            if v is not None and depth > 0:
                return _mode_values(v, None, m, weak, depth - 1)
    return {"unknown"}


def fields_typed(ctx: Any, quals: set[str]) -> set[str]:
    """names of the annotated fields (of the classes built from the document) whose declared type is one of the classes `quals`"""
    ix = ctx.py
    it, _ = ctx.flow
    out = set()
    for c in ix.classes.values():
        if c.qual in it.raw_classes or c.qual in it.config_classes:
            continue
        for fname, ann in ix.all_fields(c).items():
            if ann is not None:
                av = it.tr.from_ann(c.module, ann)
                if av.types and av.types <= quals:
                    out.add(fname)
    return out


def _collision_test(x: ast.AST, attrs: set[str]) -> bool:
    """x finds out whether a derived name is already taken: `a.<name> == / != b.<name>`, `a.<name> in / not in <names>`,
    `<names>.pop / get(a.<name>)` - <name> an identifier-typed attribute"""
    def is_name(e: ast.AST) -> bool:
        return isinstance(e, ast.Attribute) and e.attr in attrs

    if isinstance(x, ast.Compare) and len(x.ops) == 1:
        if isinstance(x.ops[0], (ast.Eq, ast.NotEq)):
            return is_name(x.left) and is_name(x.comparators[0])
        if isinstance(x.ops[0], (ast.In, ast.NotIn)):
            return is_name(x.left)
    if isinstance(x, ast.Call) and isinstance(x.func, ast.Attribute) and x.func.attr in ("pop", "get") and x.args:
        return is_name(x.args[0])
    return False


def check_weak_mode(rep: Report, ctx: Any, rid: str, ctor: Any, pname: str, leak: dict[Any, int]) -> None:
    """The identifier constructor has a mode in which more non-identifier characters survive than in the other (R09.1 decides which,
    from the constructor's own code).  That mode exists for one purpose - telling apart two names that collided after the normal
    derivation - so whoever can select it (a constant, a forwarded parameter of any depth, a default, a local) must come after a
    collision test on every path; a name's first derivation never takes it."""
    ix = ctx.py
    t = ctx.tables
    rep.rule(rid, "the mode of the identifier constructor in which characters outside ID_Continue survive that the other mode removes "
                  "(decided by R09.1's abstract interpretation, not by its name) is selected only to resolve a collision: every site "
                  "that can supply that mode value - a constant, a conditional, a local, a parameter default, or a parameter forwarded "
                  "through any chain of functions - is dominated, in its function or at every call of that function, by a test whether "
                  "a derived name is already taken (comparison of two identifier-typed attributes, membership / pop / get keyed by one); "
                  "a name's first derivation always takes the other mode")
    weak_values = [v for v in leak if any(leak[v] & ~leak[o] and not leak[o] & ~leak[v] for o in leak if o != v)]
    if not weak_values:
        rep.observe(f"{rid}: no mode of {_callee_label(ctor)} lets more non-identifier characters through than the other: nothing to trace")
        return
    weak = bool(weak_values[0])
    extra = 0
    for o in leak:
        if o != weak_values[0]:
            extra |= leak[weak_values[0]] & ~leak[o]
    shown = [f"U+{c:04X}" for c in members(extra, 6)]
    sites = call_sites(ix)
    attrs = fields_typed(ctx, {ctor.cls.qual})
    rep.require(attrs, f"fields annotated {ctor.cls.name}")
    cfgs: dict[str, Any] = {}

    origins: dict[int, tuple[Any, Any, ast.Call, str, str]] = {}
    todo = [(ctor, pname)]
    done: set[tuple[str, str]] = set()
    examined: set[int] = set()
    while todo:
        k, p = todo.pop()
        if (k.qual, p) in done:
            continue
        done.add((k.qual, p))
        default = _default_of(k.node, p)
        for c, h, m in sites:
            # a call of k; for the constructor also any call that passes the mode by keyword (functools.partial and the like)
            if not (_is_call_of(c, k, m) or (k is ctor and any(kw.arg == p for kw in c.keywords))):
                continue
            examined.add(id(c))
            e = _supplied(c, k, p)
            if e is _OPAQUE:
                vals: set[Any] = {"unknown"}
            elif e is None:
                vals = _mode_values(default, None, k.module, weak)
            else:
                vals = _mode_values(e, h, m, weak)
            for v in vals:
                if isinstance(v, tuple):
                    todo.append((v[1], v[2]))
                elif v != "safe":
                    how = "weak" if v == "weak" else "unknown"
                    if id(c) not in origins or how == "weak":
                        origins[id(c)] = (h, m, c, f"{_callee_label(k)}({p}", how + ("-default" if e is None else ""))
    rep.floor("mode_call_sites", len(examined), 10)

    def precedes(h: Any) -> Any:
        same_module = {g.name: g for g in ix.all_functions if g.module is h.module and g is not h}

        def is_test(n: object) -> bool:
            if not isinstance(n, ast.stmt):
                return False
            for x in walk_own(n):
                if _collision_test(x, attrs):
                    return True
                # the test may live in a helper of the module (`if _collides(a, b):`)
                if isinstance(x, ast.Call):
                    g = same_module.get(call_name(x).rsplit(".", 1)[-1])
                    if g is not None and any(_collision_test(y, attrs) for y in ast.walk(g.node)):
                        return True
            return False

        return is_test

    def admissible(h: Any, node: ast.AST, depth: int = 3) -> bool:
        if h is None:
            return False
        st = stmt_of(h.node, node)
        if st is not None and cfg_of(h, cfgs).is_dominated_by(st, precedes(h)):
            return True
        if depth == 0:
            return False
        callers = [(c2, h2) for c2, h2, m2 in sites if h2 is not h and _is_call_of(c2, h, m2)]
        return bool(callers) and all(admissible(h2, c2, depth - 1) for c2, h2 in callers)

    per: dict[str, int] = {}
    for h, m, c, label, how in sorted(origins.values(), key=lambda o: (o[1].rel, o[2].lineno, o[2].col_offset)):
        base = f"{short(h) if h is not None else m.name.replace(PKG + '.', '') + '.<module>'}::{label}:{how})"
        per[base] = per.get(base, 0) + 1
        key = base + (f"#{per[base]}" if per[base] > 1 else "")
        lnames = local_names(h.node) if h is not None else set()
        rep.check(admissible(h, c), rid, key,
                  f"`{anon(c, lnames)[:90]}` {'selects' if how.startswith('weak') else 'may select'} the constructor mode in which {shown} "
                  "survive, and no test whether a derived name is already taken precedes it on every path (neither in this function nor "
                  "at every call of it): this is a name's first derivation, not the resolution of a collision",
                  where=f"{m.rel}:{c.lineno}", lhs=f"{pname} = {how}", rhs="dominated by a collision test of identifier-typed attributes "
                  f"{sorted(attrs)}")
    rep.floor("weak_mode_origins", len(origins), 2)
    rep.not_decided.append(f"{rid}: that the collision test preceding a weak-mode site came out 'equal' on the path taken (only that it is "
                           "passed on every path); mode values computed by anything but constants, conditionals, locals and forwarded parameters "
                           "count as 'may select'")


# ---- R09.5: the parameter pass sees every parameter collection of the operation --------------------------------------------------
def _strings_of(e: ast.AST, lc: Locals, depth: int = 2) -> "list[str] | None":
    """the strings expression e can be, as regular expressions (an f-string's holes match anything); None when it cannot be told"""
    if isinstance(e, ast.Constant) and isinstance(e.value, str):
        return [re.escape(e.value)]
    if isinstance(e, ast.JoinedStr):
        return ["".join(re.escape(v.value) if isinstance(v, ast.Constant) else ".*" for v in e.values)]
    if isinstance(e, ast.Name) and depth > 0:
        out: list[str] = []
        for kind, _, v in lc.defs.get(e.id, []):
            if v is None:
                return None
            alts = None
            if kind == "assign":
                alts = [v]
            elif kind.startswith("for") and isinstance(v, (ast.Tuple, ast.List, ast.Set)):
                # `for x in (A, B)` / `for x, y in ((A, 1), (B, 2))`: the loop variable is each element / the i-th component of each
                alts = list(v.elts)
                for i in re.findall(r"\[(\d+)\]", kind):
                    alts = [a.elts[int(i)] if isinstance(a, (ast.Tuple, ast.List)) and int(i) < len(a.elts) else None for a in alts]
                    if any(a is None for a in alts):
                        alts = None
                        break
            if alts is None:
                return None
            for a in alts:
                got = _strings_of(a, lc, depth - 1)
                if got is None:
                    return None
                out += got
        return out or None
    return None


def fields_read(ix: Any, g: Any, node: ast.AST, fields: set[str], depth: int = 3, seen: "set[str] | None" = None) -> tuple[set[str], bool]:
    """(the fields among `fields` that evaluating `node` in function g reads - directly, through the locals it mentions, through
    methods of g's class and functions of g's module it calls (their whole bodies), through getattr with a determinable name -,
    whether some attribute is read under a name that cannot be determined)"""
    seen = seen if seen is not None else set()
    out: set[str] = set()
    dynamic = False
    lc = Locals(g.node)
    for n in ast.walk(node):
        if isinstance(n, ast.Attribute) and isinstance(n.ctx, ast.Load) and n.attr in fields:
            out.add(n.attr)
        elif isinstance(n, ast.Name) and isinstance(n.ctx, ast.Load) and depth > 0 and node is not g.node:
            for v in lc.values_of(n.id):
                if v is not node and not any(v is x for x in ast.walk(node)):
                    r, d = fields_read(ix, g, v, fields, depth - 1, seen)
                    out |= r
                    dynamic = dynamic or d
            if n.id not in lc.defs and n.id in {a.arg for a in g.params}:
                # handed in by whoever calls g (the pass was extracted and receives what it iterates over)
                for h in ix.all_functions:
                    if h.module is g.module and h is not g:
                        for c in ast.walk(h.node):
                            if isinstance(c, ast.Call) and _is_call_of(c, g, h.module):
                                e = _supplied(c, g, n.id)
                                if e is not None and e is not _OPAQUE:
                                    r, d = fields_read(ix, h, e, fields, depth - 1, seen)
                                    out |= r
                                    dynamic = dynamic or d
        elif isinstance(n, ast.Call):
            last = call_name(n).rsplit(".", 1)[-1]
            if last == "getattr" and len(n.args) >= 2:
                pats = _strings_of(n.args[1], lc)
                if pats is None:
                    dynamic = True
                else:
                    out |= {f for f in fields if any(re.fullmatch(p_, f) for p_ in pats)}
            elif depth > 0:
                cands = []
                if g.cls is not None and ix.find_method(g.cls, last) is not None:
                    cands.append(ix.find_method(g.cls, last))
                cands += [h for h in ix.all_functions if h.module is g.module and h.name == last and h.cls is None]
                for h in cands:
                    if h.qual not in seen:
                        seen.add(h.qual)
                        r, d = fields_read(ix, h, h.node, fields, depth - 1, seen)
                        out |= r
                        dynamic = dynamic or d
    return out, dynamic


def conflict_passes(ix: Any, f: Any, name_attrs: set[str]) -> list[tuple[Any, ast.For]]:
    """the passes of the conflict check f: the outermost loops, in f or in the private helpers it delegates to, whose body asks of the
    element at hand whether its derived name is already taken (comparison / membership / pop / get keyed by an identifier-typed
    attribute) or is one of the names the operation reserves for itself - whichever of the two questions is asked there"""
    out = list(parameter_passes(ix, f))
    for g in region(ix, f):
        loops = [n for n in ast.walk(g.node) if isinstance(n, (ast.For, ast.AsyncFor)) and
                 any(_collision_test(x, name_attrs) for s_ in n.body for x in ast.walk(s_))]
        for lp in loops:
            if not any(o is not lp and any(x is lp for x in ast.walk(o)) for o in loops) and not any(lp is l2 for _, l2 in out):
                out.append((g, lp))
    return out


def check_pass_sources(rep: Report, ctx: Any, rid: str) -> set[str]:
    """One uniqueness scope fed from several collections: the names checked must be all the names emitted.  The operation keeps its
    parameters in one collection per location; the conflict check (reserved names, collisions, re-check) sees them only through what
    its pass iterates over, while the templates print each collection on its own."""
    ix = ctx.py
    it, ji = ctx.flow
    rep.rule(rid, "the conflict check of an operation's parameters sees every parameter of the operation: each collection field of the "
                  "class owning the check whose elements carry a derived name (declared element type is a property class, or a template "
                  "prints `<field>[*].<identifier-typed attribute>` into code) is read by what the parameter pass iterates over - the "
                  "loop's iterable, followed through locals, methods of the class, helpers of the module and getattr")
    ep = ix.cls("Endpoint")
    f = ep.methods.get("_check_parameters_for_conflicts")
    rep.require(f, "Endpoint._check_parameters_for_conflicts")
    name_attrs = fields_typed(ctx, set(it.ident_classes))
    passes = conflict_passes(ix, f, name_attrs)
    rep.require(passes, "a loop in _check_parameters_for_conflicts (or a helper of it) that asks of each element whether its derived name is taken")
    prop_quals = {c.qual for c in ix.property_classes()}
    fields = ix.all_fields(ep)
    declared = set()
    for name, ann in fields.items():
        av = it.tr.from_ann(ep.module, ann) if ann is not None else None
        for _ in range(3):  # list[P], dict[K, list[P]], ...
            av = getattr(av, "elem", None)
            if av is None:
                break
            if av.types and av.types <= prop_quals:
                declared.add(name)
                break
    printed = set()
    for e in ji.emissions.values():
        if e.kind == "CODE":
            for m_ in re.finditer(r"\.(\w+)\[\*\]\.(\w+)", e.hole):
                if m_.group(1) in fields and m_.group(2) in name_attrs:
                    printed.add(m_.group(1))
    sources = declared | printed
    rep.floor("parameter_collections", len(sources), 2)
    read: set[str] = set()
    dynamic = False
    for g, loop in passes:
        r, d = fields_read(ix, g, loop.iter, sources)
        read |= r
        dynamic = dynamic or d
    rep.require(not (dynamic and sources - read), "the attribute names read through getattr(...) by the iteration of the parameter pass")
    g0, loop0 = passes[0]
    for x in sorted(sources):
        rep.check(x in read, rid, f"{short(f)}::pass-reads[{x}]",
                  f"parameters kept in `{x}` ({'declared a collection of properties' if x in declared else ''}"
                  f"{' and ' if x in declared and x in printed else ''}{'printed by the templates' if x in printed else ''}) never reach "
                  "the parameter pass: what it iterates over does not read that field, so their names are neither tested against the "
                  "reserved names nor against the other parameters", where=f"{g0.module.rel}:{loop0.lineno}",
                  lhs=f"fields read by `{norm(loop0.iter)[:60]}`: {sorted(read)}", rhs=f"all of {sorted(sources)}")
    return sources


# ---- R09.6: nothing is lost on the way into the collections the conflict check reads -----------------------------------------------
_ADDERS = ("append", "add", "extend", "insert", "appendleft")


def _stmts_of(fn: ast.AST) -> list[ast.stmt]:
    """the statements of fn itself (not those of functions / classes defined inside it)"""
    out: list[ast.stmt] = []
    stack = list(ast.iter_child_nodes(fn))
    while stack:
        n = stack.pop()
        if isinstance(n, (ast.FunctionDef, ast.AsyncFunctionDef, ast.ClassDef, ast.Lambda)):
            continue
        if isinstance(n, ast.stmt):
            out.append(n)
        stack.extend(ast.iter_child_nodes(n))
    return sorted(out, key=lambda s_: (s_.lineno, s_.col_offset))


def _closure(lc: Locals, e: ast.AST, stop: set[str], depth: int = 4) -> list[ast.AST]:
    """e and everything the locals it reads are bound from (transitively); the names in `stop` are not looked behind"""
    out, seen, frontier = [e], set(stop), [e]
    for _ in range(depth):
        nxt: list[ast.AST] = []
        for x in frontier:
            for n in ast.walk(x):
                if isinstance(n, ast.Name) and isinstance(n.ctx, ast.Load) and n.id not in seen:
                    seen.add(n.id)
                    nxt += [v for v in lc.values_of(n.id) if not any(v is o for o in out)]
        out += nxt
        frontier = nxt
    return out


def _item_names(lc: Locals, loop: "ast.For | ast.AsyncFor") -> set[str]:
    """the names under which the body of `loop` holds the item of the iteration at hand: the loop variable, and locals bound inside the
    loop to it or to the result of a call it is handed to (a reference resolved, a copy taken)"""
    P = {t.id for t in ast.walk(loop.target) if isinstance(t, ast.Name)}
    inside = {id(n) for s_ in loop.body for n in ast.walk(s_)}
    grew = True
    while grew:
        grew = False
        for nm, ds in lc.defs.items():
            if nm in P:
                continue
            for kind, st, v in ds:
                if kind != "assign" or v is None or id(st) not in inside:
                    continue
                handed = [v] if isinstance(v, ast.Name) else [*v.args, *[k.value for k in v.keywords]] if isinstance(v, ast.Call) else []
                if any(isinstance(a, ast.Name) and a.id in P for a in handed):
                    P.add(nm)
                    grew = True
    return P


def _item_attrs(ix: Any, g: Any, exprs: list[ast.AST], P: set[str], depth: int = 1) -> tuple[set[str], bool]:
    """(attributes of the item that the expressions read - also inside a function of the module the item is handed to as a whole -,
    whether the item is handed as a whole to something that cannot be looked into)"""
    out: set[str] = set()
    opaque = False
    for e in exprs:
        for n in ast.walk(e):
            if isinstance(n, ast.Attribute) and isinstance(n.value, ast.Name) and n.value.id in P:
                out.add(n.attr)
            elif isinstance(n, ast.Call):
                whole = [a for a in [*n.args, *[k.value for k in n.keywords]] if isinstance(a, ast.Name) and a.id in P]
                if not whole:
                    continue
                last = call_name(n).rsplit(".", 1)[-1]
                cands = [h for h in ix.all_functions if h.module is g.module and h.name == last and h is not g]
                if not cands or depth <= 0:
                    opaque = True
                    continue
                for h in cands:
                    handed = {p_ for p_ in (a.arg for a in h.params) if any(x is _supplied(n, h, p_) for x in whole)}
                    r, o = _item_attrs(ix, h, [h.node], handed, depth - 1)
                    out |= r
                    opaque = opaque or o or not handed
    return out, opaque


def _naming_attrs(ix: Any, g: Any, exprs: list[ast.AST], P: set[str], depth: int = 2) -> set[str]:
    """the attributes of the item (held under the names P in function g) that give the delivered element its name: those read by what
    is handed on as `name=` in the expressions the element is computed from - there, or in a function of the module the item is handed
    to as a whole, in what that function's results are computed from"""
    out: set[str] = set()
    lc = Locals(g.node)
    for e in exprs:
        for n in ast.walk(e):
            if isinstance(n, ast.keyword) and n.arg == "name":
                out |= _item_attrs(ix, g, _closure(lc, n.value, P), P)[0]
            elif isinstance(n, ast.Call) and depth > 0:
                whole = [a for a in [*n.args, *[k.value for k in n.keywords]] if isinstance(a, ast.Name) and a.id in P]
                if not whole:
                    continue
                last = call_name(n).rsplit(".", 1)[-1]
                for h in ix.all_functions:
                    if h.module is not g.module or h.name != last or h is g:
                        continue
                    handed = {p_ for p_ in (a.arg for a in h.params) if any(x is _supplied(n, h, p_) for x in whole)}
                    if not handed:
                        continue
                    lh = Locals(h.node)
                    results = [r.value for s_ in _stmts_of(h.node) for r in walk_own(s_)
                               if isinstance(r, (ast.Return, ast.Yield, ast.YieldFrom)) and r.value is not None]
                    out |= _naming_attrs(ix, h, [x for r in results for x in _closure(lh, r, handed)], handed, depth - 1)
    return out


def _denotes_collection(lc: Locals, e: "ast.AST | None", sources: set[str], depth: int = 4, at: "tuple[Any, Any] | None" = None) -> bool:
    """e is one of the fields `sources`, or stands for one: a local bound to it, an entry of a mapping / an element of a display whose
    values they are, getattr under one of their names, the result of a method of the class / a function of the module (`at` = (index,
    function e is written in)) that returns such a thing"""
    if e is None or depth < 0:
        return False
    if isinstance(e, ast.Attribute):
        return e.attr in sources
    if isinstance(e, ast.Name):
        return any(_denotes_collection(lc, v, sources, depth - 1, at) for v in lc.values_of(e.id))
    if isinstance(e, (ast.Subscript, ast.Starred)):
        return _denotes_collection(lc, e.value, sources, depth, at)
    if isinstance(e, ast.Dict):
        return any(_denotes_collection(lc, v, sources, depth, at) for v in e.values)
    if isinstance(e, (ast.Tuple, ast.List, ast.Set)):
        return any(_denotes_collection(lc, v, sources, depth, at) for v in e.elts)
    if isinstance(e, ast.IfExp):
        return _denotes_collection(lc, e.body, sources, depth, at) or _denotes_collection(lc, e.orelse, sources, depth, at)
    if isinstance(e, ast.Call):
        if isinstance(e.func, ast.Attribute) and e.func.attr in ("get", "setdefault", "pop", "values", "items"):
            return _denotes_collection(lc, e.func.value, sources, depth, at)
        if call_name(e) == "getattr" and len(e.args) >= 2:
            pats = _strings_of(e.args[1], lc)
            return pats is None or any(re.fullmatch(p_, f) for p_ in pats for f in sources)
        if at is not None:
            # the table of collections may be built by a method / helper: what it returns is what the call stands for
            ix, g = at
            last = call_name(e).rsplit(".", 1)[-1]
            cands = [h for h in ix.all_functions if h.module is g.module and h.name == last and h is not g and
                     (h.cls is None or g.cls is None or h.cls is g.cls or ix.find_method(g.cls, last) is h)]
            for h in cands:
                lh = Locals(h.node)
                for r in _stmts_of(h.node):
                    if isinstance(r, ast.Return) and _denotes_collection(lh, r.value, sources, depth - 1, (ix, h)):
                        return True
    return False


class _Put(ast.NodeTransformer):
    def __init__(self, env: dict[str, ast.AST]) -> None:
        self.env = env

    def visit_Name(self, n: ast.Name) -> ast.AST:
        import copy

        return copy.deepcopy(self.env[n.id]) if isinstance(n.ctx, ast.Load) and n.id in self.env else n


def _in_terms_of_caller(e: ast.AST, env: dict[str, ast.AST]) -> ast.AST:
    import copy

    return ast.fix_missing_locations(_Put(env).visit(copy.deepcopy(e)))


def _deliveries(ix: Any, g: Any, sources: set[str], sites: list[tuple[ast.Call, Any, Any]]) -> list[tuple[Any, ast.stmt, list[ast.AST], list[ast.AST]]]:
    """(function, statement, what the receiver is computed from, what the value is computed from) where one element is put into a
    collection that is (or stands for) one of the fields `sources`: in g itself, or - when g is handed the collection - at each call
    of g, receiver and value read in the caller's terms"""
    out: list[tuple[Any, ast.stmt, list[ast.AST], list[ast.AST]]] = []
    lc = Locals(g.node)
    params = {a.arg for a in g.params}
    for st in _stmts_of(g.node):
        for n in walk_own(st):
            recv = val = None
            if isinstance(n, ast.Call) and isinstance(n.func, ast.Attribute) and n.func.attr in _ADDERS and n.args:
                recv, val = n.func.value, n.args[-1]
            elif isinstance(n, ast.AugAssign) and isinstance(n.op, ast.Add):
                recv, val = n.target, n.value
            if recv is None:
                continue
            if _denotes_collection(lc, recv, sources, at=(ix, g)):
                out.append((g, st, [recv], [val]))
                continue
            behind = _closure(lc, recv, params)
            if not any(isinstance(x, ast.Name) and x.id in params for e in behind for x in ast.walk(e)):
                continue
            for c, h, m in sites:
                if h is None or h is g or m is not g.module or not _is_call_of(c, g, m):
                    continue
                env = {p_: e for p_ in params for e in [_supplied(c, g, p_)] if e is not None and e is not _OPAQUE}
                r_h = [_in_terms_of_caller(e, env) for e in behind]
                st_h = stmt_of(h.node, c)
                if st_h is not None and any(_denotes_collection(Locals(h.node), e, sources, at=(ix, h)) for e in r_h):
                    out.append((h, st_h, r_h, [_in_terms_of_caller(e, env) for e in _closure(lc, val, params)]))
    return out


def _drop_decisions(g: Any, loop: ast.AST, delivered: list[ast.stmt], cfgs: dict[str, Any]) -> list[ast.If]:
    """the `if` statements inside `loop` that decide whether the item at hand is delivered at all: from one side the next iteration (or
    the end of the loop) is reached without any delivery, from another a delivery is still reachable within this iteration"""
    cfg = cfg_of(g, cfgs)
    out = []
    for d in ast.walk(loop):
        if not isinstance(d, ast.If) or d not in cfg.succ:
            continue
        drops = keeps = False
        for s_ in cfg.succ[d]:
            if s_ is loop:
                drops = True
                continue
            reach = cfg.reachable_from(s_, avoid=lambda n: n is loop)
            if any(any(x is st for x in reach) for st in delivered):
                keeps = True
            elif any(loop in cfg.succ.get(n, ()) or isinstance(n, ast.Break) for n in reach):
                drops = True
        if drops and keeps:
            out.append(d)
    return sorted(out, key=lambda d: (d.lineno, d.col_offset))


def check_no_silent_loss(rep: Report, ctx: Any, rid: str, sources: set[str]) -> None:
    """The conflict check can only tell apart what reaches it.  The collections it reads are filled item by item; a decision that
    leaves an item out because of what has been collected before (`already defined`) identifies the item - and an item of these
    collections is identified by everything that determines where it is put and what it is called, not by a part of that."""
    ix = ctx.py
    rep.rule(rid, "where the parameter collections the conflict check reads are filled - one element per item of a loop, in the loop "
                  "itself or in the generator it iterates -, every decision that (a) can end the iteration without delivering the item "
                  "and without leaving the function, and (b) depends on the elements collected so far (reads one of the collections, "
                  "through locals, methods, helpers), also reads every attribute of the item that determines its place and its name: "
                  "the attributes read by what selects the collection at the delivery, and those handed on as `name=` of what is "
                  "delivered (there, or in a helper of the module the item is handed to, in what its result is computed from).  The "
                  "collections may be reached through a table built in place or returned by a method / helper.  Leaving an item out on "
                  "a part of its identity merges two items without a diagnostic")
    ep = ix.cls("Endpoint")
    cfgs: dict[str, Any] = {}
    sites = []   # (function, loop, delivering statements, item names)
    identity: set[str] = set()
    placed: set[str] = set()
    called: set[str] = set()
    n_fill = 0
    calls = [x for x in call_sites(ix) if x[2] is ep.module]
    found: dict[str, tuple[Any, list[tuple[ast.stmt, list[ast.AST], list[ast.AST]]]]] = {}
    for g0 in [h for h in ix.all_functions if h.module is ep.module]:
        for g, st, recv, val in _deliveries(ix, g0, sources, calls):
            found.setdefault(g.qual, (g, []))[1].append((st, recv, val))
    for g, got in found.values():
        lc = Locals(g.node)
        loops: dict[int, tuple[Any, list[ast.stmt]]] = {}
        for st, recv, val in got:
            inner = None
            for lp in ast.walk(g.node):
                if isinstance(lp, (ast.For, ast.AsyncFor)) and any(x is st for b in lp.body for x in ast.walk(b)):
                    inner = lp  # breadth-first: deeper loops come later
            if inner is None:
                continue  # not one element per item of an iteration
            n_fill += 1
            P = _item_names(lc, inner)
            where_to, _ = _item_attrs(ix, g, [x for e in recv for x in _closure(lc, e, P)], P)
            named = _naming_attrs(ix, g, [x for e in val for x in _closure(lc, e, P)], P)
            placed |= where_to
            called |= named
            identity |= where_to | named
            loops.setdefault(id(inner), (inner, []))[1].append(st)
        for inner, sts in loops.values():
            sites.append((g, inner, sts))
            # the loop may be fed by a generator of the region that has already decided what to hand on: its yields are deliveries too
            feeders = {call_name(c).rsplit(".", 1)[-1] for e in _closure(lc, inner.iter, set()) for c in ast.walk(e) if isinstance(c, ast.Call)}
            for h in ix.all_functions:
                if h.module is g.module and h.name in feeders and h is not g:
                    for lp in ast.walk(h.node):
                        if isinstance(lp, (ast.For, ast.AsyncFor)):
                            ys = [s_ for s_ in _stmts_of(h.node) if any(x is s_ for b in lp.body for x in ast.walk(b)) and
                                  any(isinstance(y, (ast.Yield, ast.YieldFrom)) and not constructs_error(y.value) for y in walk_own(s_))]
                            if ys:
                                sites.append((h, lp, ys))
    rep.floor("parameter_fill_sites", n_fill, 1)
    rep.require(placed and called, "the attributes of the item that select the collection, and those that give the name, at the deliveries "
                                   "into the parameter collections")
    n_dec = 0
    for g, loop, sts in sites:
        lc = Locals(g.node)
        P = _item_names(lc, loop)
        k = 0
        for d in _drop_decisions(g, loop, sts, cfgs):
            if not fields_read(ix, g, d.test, sources)[0]:
                continue  # does not look at what has been collected: not a decision about identity
            n_dec += 1
            k += 1
            read, opaque = _item_attrs(ix, g, _closure(lc, d.test, P), P)
            missing = set() if opaque else identity - read
            rep.check(not missing, rid, f"{short(g)}::left-out-as-already-collected#{k}",
                      f"an item is left out because of what has been collected before, but the decision `{anon(d.test, local_names(g.node))[:90]}` "
                      f"does not read {sorted(missing)} of the item: items that differ in that attribute are taken for one, and the second "
                      "never reaches the conflict check (no suffix, no diagnostic)", where=f"{g.module.rel}:{d.lineno}",
                      lhs=f"attributes of the item read by the decision: {sorted(read)}", rhs=f"all of {sorted(identity)}")
    rep.floor("already_collected_decisions", n_dec, 1)
    rep.not_decided.append(f"{rid}: items left out by a filter that is not an `if` statement of the filling loop or of the generator it iterates "
                           "(a comprehension condition, filter()); that the comparison made with the identity is an equality")


# ---- R09.7: the directory that is the package carries the package name -----------------------------------------------------------
def _held_test(lc: Locals, t: ast.expr, params: set[str]) -> "ast.expr | None":
    """the test whose outcome the local t holds (bound once, to something that is not just another name)"""
    if isinstance(t, ast.Name) and t.id not in params:
        ds = lc.defs.get(t.id, [])
        if len(ds) == 1 and ds[0][0] == "assign" and ds[0][2] is not None and not isinstance(ds[0][2], ast.Name):
            return ds[0][2]
    return None


def _atoms_of(t: ast.expr, out: dict[str, None], lc: Locals, params: set[str], depth: int = 3) -> None:
    held = _held_test(lc, t, params) if depth > 0 else None
    if isinstance(t, ast.BoolOp):
        for v in t.values:
            _atoms_of(v, out, lc, params, depth)
    elif isinstance(t, ast.UnaryOp) and isinstance(t.op, ast.Not):
        _atoms_of(t.operand, out, lc, params, depth)
    elif held is not None:
        _atoms_of(held, out, lc, params, depth - 1)
    else:
        out.setdefault(_atom(t)[0])


def _atom(t: ast.expr) -> tuple[str, bool]:
    """(text of the positive form of a test, whether t is that form): `a != b` is `a == b` negated, `a is not b` is `a is b` negated"""
    if isinstance(t, ast.Compare) and len(t.ops) == 1 and isinstance(t.ops[0], (ast.NotEq, ast.IsNot, ast.NotIn)):
        pos = {ast.NotEq: ast.Eq, ast.IsNot: ast.Is, ast.NotIn: ast.In}[type(t.ops[0])]()
        return norm(ast.Compare(left=t.left, ops=[pos], comparators=t.comparators)), False
    return norm(t), True


def check_package_directory(rep: Report, ctx: Any, rid: str) -> None:
    """The package is imported under the name of its directory.  The generator prints one name as the package's import name
    (`package_name`: README, pyproject / setup `packages`) - so wherever it chooses the directory itself, that directory's last
    component is that name, whatever the layout (the package below the project directory, or the project directory being the
    package)."""
    from .c19loc import MISSING, Placement

    ix = ctx.py
    rep.rule(rid, "the directory that is the importable package (Project.package_dir) is named by the package name: for every way the "
                  "tests of the constructor can come out, each value package_dir ends up with - read through project_dir where it is "
                  "project_dir itself - is either the location the user named "
                  "(Config.output_path, R19.5) or a path whose last component is `self.package_name`, the name the templates print "
                  "as the import name.  Tests are decided per truth assignment of their atoms, however they are written")
    proj = ix.cls("Project")
    init = proj.methods.get("__init__")
    rep.require(init, "Project.__init__")
    atoms: dict[str, None] = {}
    lc_init = Locals(init.node)
    params_init = {a.arg for a in init.params}
    for n in ast.walk(init.node):
        if isinstance(n, (ast.If, ast.IfExp, ast.While)):
            _atoms_of(n.test, atoms, lc_init, params_init)
    names = sorted(atoms)
    rep.require(len(names) <= 10, "at most ten distinct tests in Project.__init__")

    class Under(Placement):
        """Placement with the tests that are not about the field decided by a truth assignment"""
        sigma: dict[str, bool] = {}

        def decide(self, f: Any, given: frozenset) -> Any:
            base = super().decide(f, given)

            def ev(t: ast.expr) -> "bool | None":
                v = base(t)
                if v is not None:
                    return v
                if isinstance(t, ast.UnaryOp) and isinstance(t.op, ast.Not):
                    w = ev(t.operand)
                    return None if w is None else not w
                if isinstance(t, ast.BoolOp):
                    xs = [ev(x) for x in t.values]
                    if isinstance(t.op, ast.And):
                        return False if any(x is False for x in xs) else (True if all(x is True for x in xs) else None)
                    return True if any(x is True for x in xs) else (False if all(x is False for x in xs) else None)
                held = _held_test(lc_init, t, params_init) if f is init else None
                if held is not None:
                    return ev(held)
                text, positive = _atom(t)
                if f is init and text in self.sigma:
                    return self.sigma[text] == positive
                return None

            return ev

    me = init.params[0].arg if init.params else "self"

    def is_self_attr(x: Any, attr: str) -> bool:
        return isinstance(x, ast.Attribute) and x.attr == attr and isinstance(x.value, ast.Name) and x.value.id == me

    def last_component(x: Any) -> Any:
        if isinstance(x, ast.BinOp) and isinstance(x.op, ast.Div):
            return x.right
        if isinstance(x, ast.Call) and isinstance(x.func, ast.Attribute) and x.func.attr == "joinpath" and x.args and not x.keywords:
            return x.args[-1]
        return None

    bad: dict[str, tuple[Any, str]] = {}
    n_vals = 0
    for bits in range(1 << len(names)):
        sigma = {a: bool(bits >> i & 1) for i, a in enumerate(names)}
        for decided in (True, False):  # the user named a location / did not
            pl = Under(ix, "output_path", decided=decided)
            pl.sigma = sigma
            vals = pl.final(init, "package_dir")
            work = []
            for g, gv, x in vals:
                if g is init and is_self_attr(x, "project_dir"):
                    work += pl.final(init, "project_dir")
                else:
                    work.append((g, gv, x))
            for g, gv, x in work:
                n_vals += 1
                if x is MISSING:
                    continue
                if decided and pl.denotes(g, gv, x):
                    continue
                comp = last_component(x)
                if comp is not None and g is init and all(is_self_attr(c_, "package_name") for _g, _gv, c_ in pl.values(g, gv, comp)):
                    continue
                if not decided and isinstance(x, ast.Attribute) and x.attr == "output_path":
                    continue  # (taken when it is set; the assignment does not say so)
                text = norm(x)[:80]
                bad.setdefault(text, (x, ", ".join(f"{'' if v else 'not '}[{a[:40]}]" for a, v in sigma.items())))
    rep.floor("package_dir_values", n_vals, 2)
    where_ = f"{init.module.rel}:{init.node.lineno}"
    rep.check(not bad, rid, "Project.package_dir::named-by-package_name",
              "the directory that is the importable package can be a directory the generator names otherwise than by package_name: "
              f"{[f'`{t_}` when {w}' for t_, (_x, w) in sorted(bad.items())][:3]} - `import <package_name>` (README, pyproject) does not "
              "find it, and a project name is not an identifier",
              where=next((f"{init.module.rel}:{x.lineno}" for x, _w in bad.values() if hasattr(x, "lineno")), where_),
              lhs=sorted(bad) or "every value", rhs="config.output_path | <dir> / self.package_name")
