"""E7 - filesystem / process effect sites of the package."""
from __future__ import annotations

import ast
from dataclasses import dataclass
from typing import Any

from ..astutil import call_name
from ..pyindex import FuncInfo

EFFECT_METHODS = {"write_text", "write_bytes", "mkdir", "unlink", "rmdir", "touch", "rename", "replace", "symlink_to", "chmod"}
EFFECT_FUNCS = {"shutil.rmtree", "shutil.copy", "shutil.copyfile", "shutil.copytree", "shutil.move", "os.remove", "os.unlink",
                "os.mkdir", "os.makedirs", "os.rename", "os.replace", "os.rmdir", "subprocess.run", "subprocess.call",
                "subprocess.check_call", "subprocess.check_output", "subprocess.Popen", "os.system"}


@dataclass
class Effect:
    func: FuncInfo
    node: ast.Call
    what: str          # write_text | mkdir | rmtree | run | open ...
    target: ast.expr | None   # path operand (receiver or first argument)

    @property
    def where(self) -> str:
        return f"{self.func.module.rel}:{self.node.lineno}"


def effect_sites(ix: Any) -> list[Effect]:
    out: list[Effect] = []
    for f in ix.all_functions:
        if f.parent is not None:
            continue
        for n in ast.walk(f.node):
            if not isinstance(n, ast.Call):
                continue
            cn = call_name(n)
            if isinstance(n.func, ast.Attribute) and n.func.attr in EFFECT_METHODS:
                # exclude str.replace etc.: the receiver must not be an obvious string operation
                if n.func.attr in ("replace", "rename") and not _pathish(n.func.value):
                    continue
                out.append(Effect(f, n, n.func.attr, n.func.value))
            elif cn in EFFECT_FUNCS or any(cn.endswith("." + x.split(".")[-1]) and x.split(".")[0] in cn for x in EFFECT_FUNCS):
                kw = {k.arg: k.value for k in n.keywords}
                tgt = n.args[0] if n.args else None
                if cn.endswith("run") or cn.endswith("Popen") or cn.endswith("call"):
                    tgt = kw.get("cwd", tgt)
                out.append(Effect(f, n, cn.rsplit(".", 1)[-1], tgt))
            elif cn == "open" and (len(n.args) > 1 and isinstance(n.args[1], ast.Constant) and any(c in str(n.args[1].value) for c in "wax+")):
                out.append(Effect(f, n, "open-w", n.args[0]))
    return out


def _pathish(e: ast.expr) -> bool:
    txt = ast.unparse(e)
    return any(t in txt for t in ("path", "dir", "Path", "file"))


# ---- following effects through expressions and helpers ---------------------------------------------------------------------------
def operand_av(it: Any, node: ast.expr | None) -> Any:
    """Abstract value of an effect's path operand. The interpreter records values of names, attributes, calls and subscripts; an
    operand written in place (`(d / "x.py").write_text(...)`, an f-string component) is composed from its recorded parts with the
    interpreter's own transfer functions for `/` and f-strings, so that naming the path in a local first or not makes no difference."""
    from dataclasses import replace

    from ..domain import concat, lit

    if node is None:
        return None
    got = it.node_av.get(id(node))
    if got is not None:
        return got
    if isinstance(node, ast.Constant) and isinstance(node.value, str):
        return lit(node.value)
    if isinstance(node, ast.JoinedStr):
        vals, descs = [], []
        for v in node.values:
            if isinstance(v, ast.Constant):
                vals.append(lit(str(v.value)))
                descs.append("")
            elif isinstance(v, ast.FormattedValue):
                x = operand_av(it, v.value)
                if x is None:
                    return None
                vals.append(it.repr_of(x) if v.conversion == ord("r") else it.str_of(x))
                descs.append(ast.unparse(v.value))
        return concat(vals, descs, f"?:{getattr(node, 'lineno', 0)}")
    if isinstance(node, ast.BinOp) and isinstance(node.op, ast.Div):
        l, r = operand_av(it, node.left), operand_av(it, node.right)
        if l is None or r is None or "Path" not in l.types:
            return None
        return replace(concat([replace(l, types=frozenset({"str"})), lit("/"), it.str_of(r)],
                              [ast.unparse(node.left), "", ast.unparse(node.right)], f"?:{getattr(node, 'lineno', 0)}"),
                       types=frozenset({"Path"}))
    return None


def callee_of(ix: Any, f: FuncInfo, c: ast.Call) -> FuncInfo | None:
    """the function of the package that a call made inside f runs: `self.m()` / `cls.m()` / `OwnClass.m()` or a plain module function"""
    cn = call_name(c)
    head, _, last = cn.rpartition(".")
    if not head:
        r = ix.resolve(f.module, cn)
        return r[1] if r and r[0] == "func" else None
    if f.cls is not None and (head in ("self", "cls") or head == f.cls.name):
        return ix.find_method(f.cls, last)
    r = ix.resolve(f.module, cn)
    return r[1] if r and r[0] == "func" else None


def performing(ix: Any, f: FuncInfo, hit: Any, cfgs: dict, must: bool = False, depth: int = 3,
               _seen: tuple[str, ...] = ()) -> list[ast.stmt]:
    """Statements of f (CFG nodes) at which a call satisfying `hit` happens: the statement makes the call itself, or calls a function of
    the package in which it happens (must=True: on every path through that function; otherwise on some path), transitively.
    A path question about f ("is every write preceded by the removal") is thereby indifferent to whether a step is written in place
    or extracted into a helper."""
    from ..astutil import cfg_of
    from ..cfg import ENTRY, EXIT, walk_own

    out: list[ast.stmt] = []
    for st in cfg_of(f, cfgs).stmts():
        calls = [n for n in walk_own(st) if isinstance(n, ast.Call)]
        if any(hit(n) for n in calls):
            out.append(st)
            continue
        if depth <= 0:
            continue
        for n in calls:
            g = callee_of(ix, f, n)
            if g is None or g == f or g.qual in _seen:
                continue
            inner = performing(ix, g, hit, cfgs, must, depth - 1, (*_seen, f.qual))
            if inner and (not must or cfg_of(g, cfgs).every_path_passes(ENTRY, EXIT, lambda x: any(x is s for s in inner))):
                out.append(st)
                break
    return out
