"""E7 - filesystem / process effect sites of the package."""
from __future__ import annotations

import ast
from dataclasses import dataclass
from typing import Any

from ..astutil import call_name
from ..pyindex import FuncInfo

EFFECT_METHODS = {"write_text", "write_bytes", "mkdir", "unlink", "rmdir", "touch", "rename", "replace", "symlink_to", "chmod"}
EFFECT_FUNCS = {"shutil.rmtree", "shutil.copy", "shutil.copyfile", "shutil.copytree", "shutil.move", "os.remove", "os.unlink",
                "os.mkdir", "os.makedirs", "os.rename", "os.replace", "os.rmdir", "subprocess.run", "subprocess.call",
                "subprocess.check_call", "subprocess.check_output", "subprocess.Popen", "os.system"}


@dataclass
class Effect:
    func: FuncInfo
    node: ast.Call
    what: str          # write_text | mkdir | rmtree | run | open ...
    target: ast.expr | None   # path operand (receiver or first argument)
    origin: "Effect | None" = None   # for an effect stated at a call of the helper that performs it: the effect inside the helper

    @property
    def where(self) -> str:
        return f"{self.func.module.rel}:{self.node.lineno}"

    @property
    def site_func(self) -> FuncInfo:
        """the function in which the effect itself is written"""
        return self.origin.site_func if self.origin is not None else self.func

    @property
    def site(self) -> ast.Call:
        """the call that performs the effect itself (open / write_text / subprocess.run ...), wherever it is stated"""
        return self.origin.site if self.origin is not None else self.node


def effect_sites(ix: Any) -> list[Effect]:
    out: list[Effect] = []
    for f in ix.all_functions:
        if f.parent is not None:
            continue
        for n in ast.walk(f.node):
            if not isinstance(n, ast.Call):
                continue
            cn = call_name(n)
            if isinstance(n.func, ast.Attribute) and n.func.attr in EFFECT_METHODS:
                # exclude str.replace etc.: the receiver must not be an obvious string operation
                if n.func.attr in ("replace", "rename") and not _pathish(n.func.value):
                    continue
                out.append(Effect(f, n, n.func.attr, n.func.value))
            elif cn in EFFECT_FUNCS or any(cn.endswith("." + x.split(".")[-1]) and x.split(".")[0] in cn for x in EFFECT_FUNCS):
                kw = {k.arg: k.value for k in n.keywords}
                tgt = n.args[0] if n.args else None
                if cn.endswith("run") or cn.endswith("Popen") or cn.endswith("call"):
                    tgt = kw.get("cwd", tgt)
                out.append(Effect(f, n, cn.rsplit(".", 1)[-1], tgt))
            elif cn == "open" and (len(n.args) > 1 and isinstance(n.args[1], ast.Constant) and any(c in str(n.args[1].value) for c in "wax+")):
                out.append(Effect(f, n, "open-w", n.args[0]))
    return out


def _pathish(e: ast.expr) -> bool:
    txt = ast.unparse(e)
    return any(t in txt for t in ("path", "dir", "Path", "file"))


# ---- following effects through expressions and helpers ---------------------------------------------------------------------------
def operand_av(it: Any, node: ast.expr | None) -> Any:
    """Abstract value of an effect's path operand. The interpreter records values of names, attributes, calls and subscripts; an
    operand written in place (`(d / "x.py").write_text(...)`, an f-string component) is composed from its recorded parts with the
    interpreter's own transfer functions for `/` and f-strings, so that naming the path in a local first or not makes no difference."""
    from dataclasses import replace

    from ..domain import concat, lit

    if node is None:
        return None
    got = it.node_av.get(id(node))
    if got is not None:
        return got
    if isinstance(node, ast.Constant) and isinstance(node.value, str):
        return lit(node.value)
    if isinstance(node, ast.JoinedStr):
        vals, descs = [], []
        for v in node.values:
            if isinstance(v, ast.Constant):
                vals.append(lit(str(v.value)))
                descs.append("")
            elif isinstance(v, ast.FormattedValue):
                x = operand_av(it, v.value)
                if x is None:
                    return None
                vals.append(it.repr_of(x) if v.conversion == ord("r") else it.str_of(x))
                descs.append(ast.unparse(v.value))
        return concat(vals, descs, f"?:{getattr(node, 'lineno', 0)}")
    if isinstance(node, ast.BinOp) and isinstance(node.op, ast.Div):
        l, r = operand_av(it, node.left), operand_av(it, node.right)
        if l is None or r is None or "Path" not in l.types:
            return None
        return replace(concat([replace(l, types=frozenset({"str"})), lit("/"), it.str_of(r)],
                              [ast.unparse(node.left), "", ast.unparse(node.right)], f"?:{getattr(node, 'lineno', 0)}"),
                       types=frozenset({"Path"}))
    return None


def callee_of(ix: Any, f: FuncInfo, c: ast.Call) -> FuncInfo | None:
    """the function of the package that a call made inside f runs: `self.m()` / `cls.m()` / `OwnClass.m()` or a plain module function"""
    cn = call_name(c)
    head, _, last = cn.rpartition(".")
    if not head:
        r = ix.resolve(f.module, cn)
        return r[1] if r and r[0] == "func" else None
    if f.cls is not None and (head in ("self", "cls") or head == f.cls.name):
        return ix.find_method(f.cls, last)
    r = ix.resolve(f.module, cn)
    return r[1] if r and r[0] == "func" else None


def performing(ix: Any, f: FuncInfo, hit: Any, cfgs: dict, must: bool = False, depth: int = 3,
               _seen: tuple[str, ...] = ()) -> list[ast.stmt]:
    """Statements of f (CFG nodes) at which a call satisfying `hit` happens: the statement makes the call itself, or calls a function of
    the package in which it happens (must=True: on every path through that function; otherwise on some path), transitively.
    A path question about f ("is every write preceded by the removal") is thereby indifferent to whether a step is written in place
    or extracted into a helper."""
    from ..astutil import cfg_of
    from ..cfg import ENTRY, EXIT, walk_own

    out: list[ast.stmt] = []
    for st in cfg_of(f, cfgs).stmts():
        calls = [n for n in walk_own(st) if isinstance(n, ast.Call)]
        if any(hit(n) for n in calls):
            out.append(st)
            continue
        if depth <= 0:
            continue
        for n in calls:
            g = callee_of(ix, f, n)
            if g is None or g == f or g.qual in _seen:
                continue
            inner = performing(ix, g, hit, cfgs, must, depth - 1, (*_seen, f.qual))
            if inner and (not must or cfg_of(g, cfgs).every_path_passes(ENTRY, EXIT, lambda x: any(x is s for s in inner))):
                out.append(st)
                break
    return out


# ---- effects of helpers, stated where the helper is called ------------------------------------------------------------------------
def _own_params(f: FuncInfo) -> set[str]:
    """parameters of f that f never rebinds (self / cls excluded)"""
    a = f.node.args
    names = [p.arg for p in (*a.posonlyargs, *a.args, *a.kwonlyargs)]
    if f.cls is not None and f.kind != "staticmethod" and names:
        names = names[1:]
    stored = {n.id for n in ast.walk(f.node) if isinstance(n, ast.Name) and isinstance(n.ctx, (ast.Store, ast.Del))}
    return {n for n in names if n not in stored}


def _substitute(e: ast.expr, env: dict[str, ast.expr]) -> ast.expr | None:
    """e with parameter names replaced by argument expressions. Only the spine (`/`, f-strings) is rebuilt; every other node is the
    original one, so that values the interpreter recorded for it are still found. None: a parameter occurs where it cannot be
    replaced (inside a call, a subscript ...)."""
    if isinstance(e, ast.Name):
        return env.get(e.id, e)
    if not any(isinstance(n, ast.Name) and n.id in env for n in ast.walk(e)):
        return e
    if isinstance(e, ast.BinOp) and isinstance(e.op, ast.Div):
        l, r = _substitute(e.left, env), _substitute(e.right, env)
        return ast.copy_location(ast.BinOp(left=l, op=e.op, right=r), e) if l is not None and r is not None else None
    if isinstance(e, ast.JoinedStr):
        vals: list[ast.expr] = []
        for v in e.values:
            if isinstance(v, ast.FormattedValue):
                x = _substitute(v.value, env)
                if x is None:
                    return None
                vals.append(ast.copy_location(ast.FormattedValue(value=x, conversion=v.conversion, format_spec=v.format_spec), v))
            else:
                vals.append(v)
        return ast.copy_location(ast.JoinedStr(values=vals), e)
    return None


def bind_call(ix: Any, g: FuncInfo, c: ast.Call, f: FuncInfo) -> dict[str, ast.expr] | None:
    """argument expression per parameter of f at the call c (made inside g); None when the call does not spell them out (* / **)"""
    if any(isinstance(a, ast.Starred) for a in c.args):
        return None
    a = f.node.args
    pos = [p.arg for p in (*a.posonlyargs, *a.args)]
    bound = f.cls is not None and f.kind != "staticmethod" and isinstance(c.func, ast.Attribute) and \
        not (isinstance(c.func.value, ast.Name) and f.cls is not None and c.func.value.id == f.cls.name and f.kind != "classmethod")
    if bound and pos:
        pos = pos[1:]
    out: dict[str, ast.expr] = dict(zip(pos, c.args))
    for k in c.keywords:
        if k.arg is not None:
            out[k.arg] = k.value
    return out


def in_context(ix: Any, effs: list[Effect], depth: int = 3) -> list[Effect]:
    """An effect whose path operand is made of parameters of the function it stands in (a writer helper: `_write(path, text)`,
    `_render_to(path, template, **ctx)`) happens, as far as its destination goes, where that function is called: it is stated once per
    call, with the arguments in place of the parameters (transitively). Rules about destinations and about the order of effects then
    read the same whether a write is spelled out in place or routed through a helper. An effect that cannot be restated (a caller
    passes * / **, a parameter is used inside a further computation, no caller in the package) is kept where it is."""
    callers: dict[str, list[tuple[FuncInfo, ast.Call]]] = {}

    def calls_of(f: FuncInfo) -> list[tuple[FuncInfo, ast.Call]]:
        if not callers:
            for g in ix.all_functions:
                for c in ast.walk(g.node):
                    if isinstance(c, ast.Call):
                        h = callee_of(ix, g, c)
                        if h is not None:
                            callers.setdefault(h.qual, []).append((g, c))
        return callers.get(f.qual, [])

    out: list[Effect] = []

    def place(e: Effect, d: int) -> None:
        ps = {n.id for n in ast.walk(e.target) if isinstance(n, ast.Name)} & _own_params(e.func) if e.target is not None else set()
        sites = calls_of(e.func) if ps and d > 0 else []
        restated: list[Effect] = []
        for g, c in sites:
            if g is e.func:
                continue
            args = bind_call(ix, g, c, e.func)
            if args is None or not ps <= set(args):
                restated = []
                break
            tgt = _substitute(e.target, {p: args[p] for p in ps})  # type: ignore[arg-type]
            if tgt is None:
                restated = []
                break
            restated.append(Effect(g, c, e.what, tgt, e))
        if not restated:
            out.append(e)
            return
        for r in restated:
            place(r, d - 1)

    for e in effs:
        place(e, depth)
    return out
