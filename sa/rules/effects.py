"""E7 - filesystem / process effect sites of the package."""
from __future__ import annotations

import ast
from dataclasses import dataclass
from typing import Any

from ..astutil import call_name
from ..pyindex import FuncInfo

EFFECT_METHODS = {"write_text", "write_bytes", "mkdir", "unlink", "rmdir", "touch", "rename", "replace", "symlink_to", "chmod"}
EFFECT_FUNCS = {"shutil.rmtree", "shutil.copy", "shutil.copyfile", "shutil.copytree", "shutil.move", "os.remove", "os.unlink",
                "os.mkdir", "os.makedirs", "os.rename", "os.replace", "os.rmdir", "subprocess.run", "subprocess.call",
                "subprocess.check_call", "subprocess.check_output", "subprocess.Popen", "os.system"}


@dataclass
class Effect:
    func: FuncInfo
    node: ast.Call
    what: str          # write_text | mkdir | rmtree | run | open ...
    target: ast.expr | None   # path operand (receiver or first argument)

    @property
    def where(self) -> str:
        return f"{self.func.module.rel}:{self.node.lineno}"


def effect_sites(ix: Any) -> list[Effect]:
    out: list[Effect] = []
    for f in ix.all_functions:
        if f.parent is not None:
            continue
        for n in ast.walk(f.node):
            if not isinstance(n, ast.Call):
                continue
            cn = call_name(n)
            if isinstance(n.func, ast.Attribute) and n.func.attr in EFFECT_METHODS:
                # exclude str.replace etc.: the receiver must not be an obvious string operation
                if n.func.attr in ("replace", "rename") and not _pathish(n.func.value):
                    continue
                out.append(Effect(f, n, n.func.attr, n.func.value))
            elif cn in EFFECT_FUNCS or any(cn.endswith("." + x.split(".")[-1]) and x.split(".")[0] in cn for x in EFFECT_FUNCS):
                kw = {k.arg: k.value for k in n.keywords}
                tgt = n.args[0] if n.args else None
                if cn.endswith("run") or cn.endswith("Popen") or cn.endswith("call"):
                    tgt = kw.get("cwd", tgt)
                out.append(Effect(f, n, cn.rsplit(".", 1)[-1], tgt))
            elif cn == "open" and (len(n.args) > 1 and isinstance(n.args[1], ast.Constant) and any(c in str(n.args[1].value) for c in "wax+")):
                out.append(Effect(f, n, "open-w", n.args[0]))
    return out


def _pathish(e: ast.expr) -> bool:
    txt = ast.unparse(e)
    return any(t in txt for t in ("path", "dir", "Path", "file"))
