"""E7 - filesystem / process effect sites of the package."""
from __future__ import annotations

import ast
from dataclasses import dataclass
from typing import Any

from ..astutil import call_name
from ..pyindex import FuncInfo

EFFECT_METHODS = {"write_text", "write_bytes", "mkdir", "unlink", "rmdir", "touch", "rename", "replace", "symlink_to", "chmod"}
EFFECT_FUNCS = {"shutil.rmtree", "shutil.copy", "shutil.copyfile", "shutil.copytree", "shutil.move", "os.remove", "os.unlink",
                "os.mkdir", "os.makedirs", "os.rename", "os.replace", "os.rmdir", "subprocess.run", "subprocess.call",
                "subprocess.check_call", "subprocess.check_output", "subprocess.Popen", "os.system"}


@dataclass
class Effect:
    func: FuncInfo
    node: ast.Call
    what: str          # write_text | mkdir | rmtree | run | open ...
    target: ast.expr | None   # path operand (receiver or first argument)
    origin: "Effect | None" = None   # for an effect stated at a call of the helper that performs it: the effect inside the helper

    @property
    def where(self) -> str:
        return f"{self.func.module.rel}:{self.node.lineno}"

    @property
    def site_func(self) -> FuncInfo:
        """the function in which the effect itself is written"""
        return self.origin.site_func if self.origin is not None else self.func

    @property
    def site_target(self) -> "ast.expr | None":
        """the path operand as written at the call that performs the effect itself"""
        return self.origin.site_target if self.origin is not None else self.target

    @property
    def site(self) -> ast.Call:
        """the call that performs the effect itself (open / write_text / subprocess.run ...), wherever it is stated"""
        return self.origin.site if self.origin is not None else self.node


def effect_sites(ix: Any) -> list[Effect]:
    out: list[Effect] = []
    for f in ix.all_functions:
        if f.parent is not None:
            continue
        for n in ast.walk(f.node):
            if not isinstance(n, ast.Call):
                continue
            cn = call_name(n)
            r = ix.resolve(f.module, cn)
            if r is not None and r[0] == "ext" and str(r[1]) in EFFECT_FUNCS:
                cn = str(r[1])   # imported under another name (`from os import makedirs`, `import shutil as sh`)
            if cn in EFFECT_FUNCS and cn.split(".")[0] in ("os", "shutil", "subprocess"):
                # a function of os / shutil / subprocess called by its full name (`os.mkdir(p)`): the path is its first argument, also
                # where a Path method of the same name exists
                kw = {k.arg: k.value for k in n.keywords}
                tgt = n.args[0] if n.args else None
                if cn.endswith("run") or cn.endswith("Popen") or cn.endswith("call"):
                    tgt = kw.get("cwd", tgt)
                out.append(Effect(f, n, cn.rsplit(".", 1)[-1], tgt))
            elif isinstance(n.func, ast.Attribute) and n.func.attr in EFFECT_METHODS:
                # exclude str.replace etc.: the receiver must not be an obvious string operation
                if n.func.attr in ("replace", "rename") and not _pathish(n.func.value):
                    continue
                out.append(Effect(f, n, n.func.attr, n.func.value))
            elif cn in EFFECT_FUNCS or any(cn.endswith("." + x.split(".")[-1]) and x.split(".")[0] in cn for x in EFFECT_FUNCS):
                kw = {k.arg: k.value for k in n.keywords}
                tgt = n.args[0] if n.args else None
                if cn.endswith("run") or cn.endswith("Popen") or cn.endswith("call"):
                    tgt = kw.get("cwd", tgt)
                out.append(Effect(f, n, cn.rsplit(".", 1)[-1], tgt))
            elif cn == "open" and (len(n.args) > 1 and isinstance(n.args[1], ast.Constant) and any(c in str(n.args[1].value) for c in "wax+")):
                out.append(Effect(f, n, "open-w", n.args[0]))
    return out


def _pathish(e: ast.expr) -> bool:
    txt = ast.unparse(e)
    return any(t in txt for t in ("path", "dir", "Path", "file"))


# ---- following effects through expressions and helpers ---------------------------------------------------------------------------
def operand_av(it: Any, node: ast.expr | None) -> Any:
    """Abstract value of an effect's path operand. The interpreter records values of names, attributes, calls and subscripts; an
    operand written in place (`(d / "x.py").write_text(...)`, an f-string component) is composed from its recorded parts with the
    interpreter's own transfer functions for `/` and f-strings, so that naming the path in a local first or not makes no difference."""
    from dataclasses import replace

    from ..domain import concat, lit

    if node is None:
        return None
    got = it.node_av.get(id(node))
    if got is not None:
        return got
    if isinstance(node, ast.Constant) and isinstance(node.value, str):
        return lit(node.value)
    if isinstance(node, ast.JoinedStr):
        vals, descs = [], []
        for v in node.values:
            if isinstance(v, ast.Constant):
                vals.append(lit(str(v.value)))
                descs.append("")
            elif isinstance(v, ast.FormattedValue):
                x = operand_av(it, v.value)
                if x is None:
                    return None
                vals.append(it.repr_of(x) if v.conversion == ord("r") else it.str_of(x))
                descs.append(ast.unparse(v.value))
        return concat(vals, descs, f"?:{getattr(node, 'lineno', 0)}")
    if isinstance(node, ast.BinOp) and isinstance(node.op, ast.Div):
        l, r = operand_av(it, node.left), operand_av(it, node.right)
        if l is None or r is None or "Path" not in l.types:
            return None
        return replace(concat([replace(l, types=frozenset({"str"})), lit("/"), it.str_of(r)],
                              [ast.unparse(node.left), "", ast.unparse(node.right)], f"?:{getattr(node, 'lineno', 0)}"),
                       types=frozenset({"Path"}))
    return None


def local_sources(fn: ast.AST, e: ast.expr, depth: int = 6) -> list[ast.expr]:
    """The expressions `e` stands for once a local name that is only ever bound by plain assignment (not a parameter, a loop variable,
    an unpacked tuple ...) is replaced by each value assigned to it, transitively; the arms of a conditional expression / `or` count
    one by one. `d = self.package_dir; p = d` makes `p` stand for `self.package_dir`: which locals a value is carried through is
    spelling, not behaviour."""
    from ..astutil import Locals

    lc = Locals(fn)
    a = getattr(fn, "args", None)
    params = {p.arg for p in (*a.posonlyargs, *a.args, *a.kwonlyargs, *filter(None, (a.vararg, a.kwarg)))} if a is not None else set()
    out: list[ast.expr] = []

    def go(x: ast.expr, d: int, seen: frozenset) -> None:
        if isinstance(x, ast.IfExp) and d > 0:
            go(x.body, d - 1, seen)
            go(x.orelse, d - 1, seen)
            return
        if isinstance(x, ast.BoolOp) and isinstance(x.op, ast.Or) and d > 0:
            for v in x.values:
                go(v, d - 1, seen)
            return
        if isinstance(x, ast.NamedExpr) and d > 0:
            go(x.value, d - 1, seen)
            return
        if isinstance(x, ast.Name) and d > 0 and x.id not in seen and x.id not in params:
            ds = lc.defs.get(x.id, [])
            if ds and all(k == "assign" and v is not None for k, _st, v in ds):
                for _k, _st, v in ds:
                    go(v, d - 1, seen | {x.id})  # type: ignore[arg-type]
                return
        out.append(x)

    go(e, depth, frozenset())
    return out


def _function_at(ix: Any, origin: str) -> "FuncInfo | None":
    """the innermost function of the package that contains the position `<module file>:<line>`"""
    rel, _, line = origin.rpartition(":")
    if not line.isdigit():
        return None
    best: "FuncInfo | None" = None
    for f in ix.all_functions:
        if f.module.rel == rel and f.node.lineno <= int(line) <= (getattr(f.node, "end_lineno", None) or f.node.lineno):
            if best is None or f.node.lineno >= best.node.lineno:
                best = f
    return best


def root_canonical(ix: Any, av: Any, funcs: "list[FuncInfo]") -> Any:
    """The string structure of a path with its first part named by value. The interpreter describes a part it has no structure for by
    the text of the expression it was read from (`self.package_dir`, or `pkg` after `pkg = self.package_dir`); here a local name is
    followed to what it is bound from - in the function in which the part was read (its origin), else in `funcs` - so that the
    directory a path starts from reads the same however many locals it is carried through. A name bound from several values gives
    one alternative per value."""
    from dataclasses import replace

    from ..astutil import Locals, norm
    from ..domain import Part

    if av is None or not av.alts:
        return av
    out: set[tuple] = set()
    for alt in av.alts:
        first = alt[0] if alt else None
        texts: list[str] = []
        if first is not None and first.kind == "hole" and first.text.isidentifier():
            cands = [g for g in (_function_at(ix, first.origin), *funcs) if g is not None]
            for g in cands:
                if first.text in Locals(g.node).defs:
                    texts = sorted({norm(x) for x in local_sources(g.node, ast.Name(id=first.text, ctx=ast.Load()))})
                    break
        if not texts or texts == [first.text]:
            out.add(alt)
        else:
            out |= {(Part("hole", t, first.labels, first.origin), *alt[1:]) for t in texts}
    return replace(av, alts=frozenset(out))


def callee_of(ix: Any, f: FuncInfo, c: ast.Call) -> FuncInfo | None:
    """the function of the package that a call made inside f runs: `self.m()` / `cls.m()` / `OwnClass.m()` or a plain module function"""
    cn = call_name(c)
    head, _, last = cn.rpartition(".")
    if not head:
        r = ix.resolve(f.module, cn)
        return r[1] if r and r[0] == "func" else None
    if f.cls is not None and (head in ("self", "cls") or head == f.cls.name):
        return ix.find_method(f.cls, last)
    r = ix.resolve(f.module, cn)
    return r[1] if r and r[0] == "func" else None


def performing(ix: Any, f: FuncInfo, hit: Any, cfgs: dict, must: bool = False, depth: int = 3,
               _seen: tuple[str, ...] = ()) -> list[ast.stmt]:
    """Statements of f (CFG nodes) at which a call satisfying `hit` happens: the statement makes the call itself, or calls a function of
    the package in which it happens (must=True: on every path through that function; otherwise on some path), transitively.
    A path question about f ("is every write preceded by the removal") is thereby indifferent to whether a step is written in place
    or extracted into a helper."""
    from ..astutil import cfg_of
    from ..cfg import ENTRY, EXIT, walk_own

    out: list[ast.stmt] = []
    for st in cfg_of(f, cfgs).stmts():
        calls = [n for n in walk_own(st) if isinstance(n, ast.Call)]
        if any(hit(n) for n in calls):
            out.append(st)
            continue
        if depth <= 0:
            continue
        for n in calls:
            g = callee_of(ix, f, n)
            if g is None or g == f or g.qual in _seen:
                continue
            inner = performing(ix, g, hit, cfgs, must, depth - 1, (*_seen, f.qual))
            if inner and (not must or cfg_of(g, cfgs).every_path_passes(ENTRY, EXIT, lambda x: any(x is s for s in inner))):
                out.append(st)
                break
    return out


# ---- effects of helpers, stated where the helper is called ------------------------------------------------------------------------
def _own_params(f: FuncInfo) -> set[str]:
    """parameters of f that f never rebinds (self / cls excluded)"""
    a = f.node.args
    names = [p.arg for p in (*a.posonlyargs, *a.args, *a.kwonlyargs)]
    if f.cls is not None and f.kind != "staticmethod" and names:
        names = names[1:]
    stored = {n.id for n in ast.walk(f.node) if isinstance(n, ast.Name) and isinstance(n.ctx, (ast.Store, ast.Del))}
    return {n for n in names if n not in stored}


def _substitute(e: ast.expr, env: dict[str, ast.expr]) -> ast.expr | None:
    """e with parameter names replaced by argument expressions. Only the spine (`/`, f-strings) is rebuilt; every other node is the
    original one, so that values the interpreter recorded for it are still found. None: a parameter occurs where it cannot be
    replaced (inside a call, a subscript ...)."""
    if isinstance(e, ast.Name):
        return env.get(e.id, e)
    if not any(isinstance(n, ast.Name) and n.id in env for n in ast.walk(e)):
        return e
    if isinstance(e, ast.BinOp) and isinstance(e.op, ast.Div):
        l, r = _substitute(e.left, env), _substitute(e.right, env)
        return ast.copy_location(ast.BinOp(left=l, op=e.op, right=r), e) if l is not None and r is not None else None
    if isinstance(e, ast.JoinedStr):
        vals: list[ast.expr] = []
        for v in e.values:
            if isinstance(v, ast.FormattedValue):
                x = _substitute(v.value, env)
                if x is None:
                    return None
                vals.append(ast.copy_location(ast.FormattedValue(value=x, conversion=v.conversion, format_spec=v.format_spec), v))
            else:
                vals.append(v)
        return ast.copy_location(ast.JoinedStr(values=vals), e)
    return None


def _inline_locals(f: FuncInfo, e: ast.expr, depth: int = 4) -> ast.expr:
    """e with every local name that is bound exactly once, by a plain assignment, replaced by the assigned expression - along the spine
    of `/` and f-strings, every other node is the original one. A path composed in a local first (`out = directory / name` followed by
    `out.write_text(...)`) then reads as its composition."""
    from ..astutil import Locals

    lc = Locals(f.node)
    a = f.node.args
    params = {p.arg for p in (*a.posonlyargs, *a.args, *a.kwonlyargs, *filter(None, (a.vararg, a.kwarg)))}

    def go(x: ast.expr, d: int) -> ast.expr:
        if isinstance(x, ast.Name) and d > 0 and x.id not in params:
            ds = lc.defs.get(x.id, [])
            if len(ds) == 1 and ds[0][0] == "assign" and ds[0][2] is not None:
                return go(ds[0][2], d - 1)  # type: ignore[arg-type]
            return x
        if isinstance(x, ast.BinOp) and isinstance(x.op, ast.Div):
            l, r = go(x.left, d), go(x.right, d)
            return x if l is x.left and r is x.right else ast.copy_location(ast.BinOp(left=l, op=x.op, right=r), x)
        if isinstance(x, ast.JoinedStr):
            vals: list[ast.expr] = []
            for v in x.values:
                if isinstance(v, ast.FormattedValue):
                    y = go(v.value, d)
                    v = v if y is v.value else ast.copy_location(ast.FormattedValue(value=y, conversion=v.conversion,
                                                                                    format_spec=v.format_spec), v)
                vals.append(v)
            return x if all(p is q for p, q in zip(vals, x.values)) else ast.copy_location(ast.JoinedStr(values=vals), x)
        return x

    return go(e, depth)


def bind_call(ix: Any, g: FuncInfo, c: ast.Call, f: FuncInfo) -> dict[str, ast.expr] | None:
    """argument expression per parameter of f at the call c (made inside g); None when the call does not spell them out (* / **)"""
    if any(isinstance(a, ast.Starred) for a in c.args):
        return None
    a = f.node.args
    pos = [p.arg for p in (*a.posonlyargs, *a.args)]
    bound = f.cls is not None and f.kind != "staticmethod" and isinstance(c.func, ast.Attribute) and \
        not (isinstance(c.func.value, ast.Name) and f.cls is not None and c.func.value.id == f.cls.name and f.kind != "classmethod")
    if bound and pos:
        pos = pos[1:]
    out: dict[str, ast.expr] = dict(zip(pos, c.args))
    for k in c.keywords:
        if k.arg is not None:
            out[k.arg] = k.value
    return out


def in_context(ix: Any, effs: list[Effect], depth: int = 3) -> list[Effect]:
    """An effect whose path operand is made of parameters of the function it stands in (a writer helper: `_write(path, text)`,
    `_render_to(path, template, **ctx)`) happens, as far as its destination goes, where that function is called: it is stated once per
    call, with the arguments in place of the parameters (transitively). Rules about destinations and about the order of effects then
    read the same whether a write is spelled out in place or routed through a helper. An effect that cannot be restated (a caller
    passes * / **, a parameter is used inside a further computation, no caller in the package) is kept where it is."""
    callers: dict[str, list[tuple[FuncInfo, ast.Call]]] = {}

    def calls_of(f: FuncInfo) -> list[tuple[FuncInfo, ast.Call]]:
        if not callers:
            for g in ix.all_functions:
                for c in ast.walk(g.node):
                    if isinstance(c, ast.Call):
                        h = callee_of(ix, g, c)
                        if h is not None:
                            callers.setdefault(h.qual, []).append((g, c))
        return callers.get(f.qual, [])

    out: list[Effect] = []

    def place(e: Effect, d: int) -> None:
        # the operand as composed from the function's parameters, whether it is written in place or named in a local first
        target = _inline_locals(e.func, e.target) if e.target is not None else None
        ps = {n.id for n in ast.walk(target) if isinstance(n, ast.Name)} & _own_params(e.func) if target is not None else set()
        sites = calls_of(e.func) if ps and d > 0 else []
        restated: list[Effect] = []
        for g, c in sites:
            if g is e.func:
                continue
            args = bind_call(ix, g, c, e.func)
            if args is None or not ps <= set(args):
                restated = []
                break
            tgt = _substitute(target, {p: args[p] for p in ps})  # type: ignore[arg-type]
            if tgt is None:
                restated = []
                break
            restated.append(Effect(g, c, e.what, tgt, e))
        if not restated:
            out.append(e)
            return
        for r in restated:
            place(r, d - 1)

    for e in effs:
        place(e, depth)
    return out


# ---- arguments of an effect, through the helpers that perform it -------------------------------------------------------------------
def _param_default(f: FuncInfo, name: str) -> "ast.expr | None":
    a = f.node.args
    pos = [*a.posonlyargs, *a.args]
    for p, d in zip(pos[len(pos) - len(a.defaults):], a.defaults):
        if p.arg == name:
            return d
    for p, d in zip(a.kwonlyargs, a.kw_defaults):
        if p.arg == name:
            return d
    return None


def effect_argument(ix: Any, e: Effect, kw: str, pos: int) -> "ast.expr | None":
    """The expression an effect's own call (`e.site`) is given for the keyword `kw` (or at index `pos` of the call's
    positional arguments as written), None when it is not given (the library's default applies). When the call sits in a helper and hands on one of the
    helper's parameters (`def _mk(self, d, tolerant=False): d.mkdir(exist_ok=tolerant)`), the parameter is replaced by what the
    helper is called with (or by its default), along the calls at which the effect is stated."""
    chain: list[Effect] = []
    x: "Effect | None" = e
    while x is not None:
        chain.append(x)
        x = x.origin
    chain.reverse()  # the effect's own call first, then the calls of the helpers it is stated at
    site = chain[0].node
    val: "ast.expr | None" = next((k.value for k in site.keywords if k.arg == kw), None)
    if val is None and 0 <= pos < len(site.args):
        val = site.args[pos]
    for inner, outer in zip(chain, chain[1:]):
        if not (isinstance(val, ast.Name) and val.id in _own_params(inner.func)):
            break
        args = bind_call(ix, outer.func, outer.node, inner.func) or {}
        val = args[val.id] if val.id in args else _param_default(inner.func, val.id)
    return val


def constant_of(x: "ast.expr | None", default: Any) -> Any:
    """value of a literal argument; `default` when the argument is absent; the marker `...` when it is computed"""
    if x is None:
        return default
    return x.value if isinstance(x, ast.Constant) else ...


# ---- observations of the filesystem, and what depends on them ----------------------------------------------------------------------
# calls that report what the filesystem holds (Path methods, os / os.path / glob functions of the same names): whether something
# exists, what kind it is, its metadata, its content, a listing.  `shutil.which` is not among them: it is given a command name and
# searches PATH, it says nothing about a path of the generation.
PROBE_NAMES = {"exists", "is_file", "is_dir", "is_symlink", "is_mount", "stat", "lstat", "read_text", "read_bytes", "iterdir", "glob",
               "rglob", "iglob", "samefile", "readlink", "isfile", "isdir", "islink", "lexists", "getmtime", "getctime", "getsize",
               "listdir", "scandir", "walk", "access"}
# exception classes through which a filesystem operation reports the state it met
OS_ERRORS = {"OSError", "IOError", "EnvironmentError", "FileExistsError", "FileNotFoundError", "PermissionError", "IsADirectoryError",
             "NotADirectoryError", "Exception", "BaseException"}


def is_probe(ix: Any, f: FuncInfo, c: ast.Call) -> bool:
    """c reads the state of the filesystem: a probe by name (method / os.path function), or an `open` that does not overwrite"""
    def reads(mode: "ast.expr | None") -> bool:
        """opened for reading - or for exclusive creation, which reports (by failing) that the path is there"""
        m = constant_of(mode, "r")
        return m is not ... and ("x" in str(m) or not any(ch in str(m) for ch in "wa+"))

    cn = call_name(c)
    r = ix.resolve(f.module, cn)
    if r is not None and r[0] == "ext":   # a function of a library module, by whatever name it was imported
        full = str(r[1])
        return full.rsplit(".", 1)[-1] in PROBE_NAMES and full.split(".")[0] in ("os", "glob", "pathlib")
    if r is not None:                     # something the package defines itself
        return False
    if cn == "open":
        return reads(next((k.value for k in c.keywords if k.arg == "mode"), c.args[1] if len(c.args) > 1 else None))
    if isinstance(c.func, ast.Attribute):  # a method of a value
        if c.func.attr == "open":          # Path.open(mode='r')
            return reads(next((k.value for k in c.keywords if k.arg == "mode"), c.args[0] if c.args else None))
        return c.func.attr in PROBE_NAMES
    return False


def reach(ix: Any, root: FuncInfo, callee: Any = None) -> list[FuncInfo]:
    """root and every function of the package it can run (calls resolved as in `callee_of`, or by `callee(ix, f, call)`), transitively"""
    callee = callee or callee_of
    out, todo = [root], [root]
    while todo:
        g = todo.pop()
        for c in ast.walk(g.node):
            if isinstance(c, ast.Call):
                h = callee(ix, g, c)
                if h is not None and h not in out:
                    out.append(h)
                    todo.append(h)
    return out


def _closure(funcs: list[FuncInfo], ix: Any, seed: "set[str]", callee_of: Any = callee_of) -> "set[str]":
    """quals of the functions that are in `seed` or call (transitively) a function that is"""
    got = set(seed)
    changed = True
    while changed:
        changed = False
        for g in funcs:
            if g.qual in got:
                continue
            if any(isinstance(c, ast.Call) and getattr(callee_of(ix, g, c), "qual", None) in got for c in ast.walk(g.node)):
                got.add(g.qual)
                changed = True
    return got


def control_dependence(cfg: Any, removed: "set[int]" = frozenset()) -> "dict[object, set[object]]":  # type: ignore[assignment]
    """node -> the branching nodes it is (transitively) control-dependent on: X decides whether S runs iff S post-dominates one
    successor of X but not X itself. Computed on the statement CFG (a statement inside a `try` branches to the handlers), with the
    nodes in `removed` (by id) taken out - exits that are not to be counted as a way of not reaching S. Early return, nested if,
    swapped branches and loops all give the same answer."""
    from ..cfg import EXIT

    nodes = [n for n in cfg.nodes if n in cfg.succ and id(n) not in removed]
    # the edge from a `try` to its own handlers is dropped: the statements of its body are what may raise, entering a try decides nothing
    succ = {n: [s for s in cfg.succ.get(n, ()) if id(s) not in removed and not (isinstance(n, ast.Try) and s in n.handlers)]
            for n in nodes}
    # what cannot reach the exit any more (it only led to a removed node) is no way of leaving either
    alive: set[object] = {EXIT}
    grown = True
    while grown:
        grown = False
        for n in nodes:
            if n not in alive and any(s in alive for s in succ[n]):
                alive.add(n)
                grown = True
    nodes = [n for n in nodes if n in alive]
    succ = {n: [s for s in succ[n] if s in alive] for n in nodes}
    allset = set(nodes)
    pdom: dict[object, set[object]] = {n: set(allset) for n in nodes}
    pdom[EXIT] = {EXIT}
    changed = True
    while changed:
        changed = False
        for n in reversed(nodes):
            if n is EXIT:
                continue
            ss = [pdom[s] for s in succ[n]]
            new = (set.intersection(*ss) if ss else set()) | {n}
            if new != pdom[n]:
                pdom[n] = new
                changed = True
    direct: dict[object, set[object]] = {n: set() for n in nodes}
    for x in nodes:
        if len(succ[x]) < 2:
            continue
        for s in succ[x]:
            for t in pdom[s]:
                if t is not x and t not in pdom[x]:
                    direct[t].add(x)
    out: dict[object, set[object]] = {}
    for n in nodes:
        seen: set[object] = set()
        todo = list(direct[n])
        while todo:
            x = todo.pop()
            if x in seen:
                continue
            seen.add(x)
            todo += list(direct.get(x, ()))
        out[n] = seen
    return out


def expression_guards(st: ast.AST, node: ast.AST) -> list[ast.expr]:
    """the tests inside the statement's own expressions that decide whether `node` is evaluated: the test of a conditional expression
    it is an arm of, the earlier operands of an and / or, the `if`s and iterables of a comprehension it is the element of"""
    from ..cfg import own_exprs

    parent: dict[int, ast.AST] = {}
    for root in own_exprs(st) if isinstance(st, (ast.stmt, ast.ExceptHandler)) else [st]:
        for p in ast.walk(root):
            for ch in ast.iter_child_nodes(p):
                parent[id(ch)] = p
    out: list[ast.expr] = []
    cur: ast.AST = node
    while id(cur) in parent:
        p = parent[id(cur)]
        if isinstance(p, ast.IfExp) and cur is not p.test:
            out.append(p.test)
        elif isinstance(p, ast.BoolOp):
            i = next((k for k, v in enumerate(p.values) if v is cur), 0)
            out += p.values[:i]
        elif isinstance(p, (ast.ListComp, ast.SetComp, ast.GeneratorExp, ast.DictComp)) and not isinstance(cur, ast.comprehension):
            for g in p.generators:
                out += [g.iter, *g.ifs]
        cur = p
    return out


@dataclass
class Dependent:
    func: FuncInfo
    stmt: ast.AST          # CFG node of func
    call: ast.Call         # the producing call, or the call of a function that produces
    on: list[str]          # the observations it depends on (text of the deciding test / handler / argument), empty: independent


def state_dependence(ix: Any, root: FuncInfo, producing: "set[int]", touching: "set[int]", sanctioned: "set[int]",
                     cfgs: dict, callee: Any = None, probe: Any = None) -> list[Dependent]:
    """For every call in the functions `root` can run that produces something (a call whose id is in `producing`, or a call of a
    function that contains one, transitively): the observations of the filesystem that decide whether it happens or that flow into
    its arguments.

    Observations are probe calls (`is_probe`), handlers of an OSError class around code that touches the filesystem (a call in
    `touching`, a probe, or a function containing one) and calls of functions that contain an observation; their outcomes are
    followed through locals and attributes - assigned from them, or assigned where an observation decides. `sanctioned` are exits
    (statements, by id) that are allowed to depend on an observation: they are taken out of the graph, so that what follows them on
    the other arm does not count as depending on it.

    `callee(ix, f, call)` replaces `callee_of` as the resolution of calls, `probe(ix, f, call)` replaces `is_probe` as what counts as
    a probe (both optional: a caller that starts above the builder follows more kinds of call and tells input reads apart)."""
    from ..astutil import Locals, cfg_of, norm
    from ..cfg import walk_own

    callee_of = callee or globals()["callee_of"]
    is_probe = probe or globals()["is_probe"]
    funcs = reach(ix, root, callee_of)
    init = ix.find_method(root.cls, "__init__") if root.cls is not None else None
    for g in (reach(ix, init, callee_of) if init is not None else []):   # attributes the object is built with are read by its methods
        if g not in funcs:
            funcs.append(g)
    calls = {g.qual: [c for c in ast.walk(g.node) if isinstance(c, ast.Call)] for g in funcs}
    probes = {g.qual: {id(c) for c in calls[g.qual] if is_probe(ix, g, c)} for g in funcs}
    touchers = _closure(funcs, ix, {g.qual for g in funcs if probes[g.qual] or any(id(c) in touching for c in calls[g.qual])}, callee_of)

    def touches(g: FuncInfo, nodes: Any) -> bool:
        return any(isinstance(c, ast.Call) and (id(c) in touching or id(c) in probes[g.qual] or
                                                getattr(callee_of(ix, g, c), "qual", None) in touchers) for c in nodes)

    def os_error(h: ast.ExceptHandler) -> bool:
        if h.type is None:
            return True
        ts = h.type.elts if isinstance(h.type, ast.Tuple) else [h.type]
        return any(norm(t).rsplit(".", 1)[-1] in OS_ERRORS for t in ts)

    handlers = {g.qual: {id(h) for t in ast.walk(g.node) if isinstance(t, ast.Try) and touches(g, (c for b in t.body for c in ast.walk(b)))
                         for h in t.handlers if os_error(h)} for g in funcs}
    observers = _closure(funcs, ix, {g.qual for g in funcs if probes[g.qual] or handlers[g.qual]}, callee_of)
    producers = _closure(funcs, ix, {g.qual for g in funcs if any(id(c) in producing for c in calls[g.qual])}, callee_of)
    attrs: set[str] = set()   # attributes that carry the outcome of an observation

    def analyse(g: FuncInfo) -> tuple[list[Dependent], bool]:
        cfg = cfg_of(g, cfgs)
        deps = control_dependence(cfg, sanctioned)
        lc = Locals(g.node)
        tainted: set[str] = set()

        def observed(e: ast.AST) -> bool:
            for n in ast.walk(e):
                if isinstance(n, ast.Name) and isinstance(n.ctx, ast.Load) and n.id in tainted:
                    return True
                if isinstance(n, ast.Attribute) and isinstance(n.ctx, ast.Load) and n.attr in attrs:
                    return True
                if isinstance(n, ast.Call) and (id(n) in probes[g.qual] or getattr(callee_of(ix, g, n), "qual", None) in observers):
                    return True
            return False

        def own(n: object) -> list[ast.AST]:
            return [n.subject] if isinstance(n, ast.Match) else own_exprs_of(n)

        def deciding(n: object) -> bool:
            """branching node whose outcome depends on an observation: a test over one, or a statement that touches the filesystem
            and may raise into a handler of an OSError class"""
            if not isinstance(n, ast.Try) and any(id(s) in handlers[g.qual] for s in cfg.succ.get(n, ())) and \
                    touches(g, (c for e in own(n) for c in ast.walk(e))):
                return True
            return isinstance(n, (ast.If, ast.While, ast.For, ast.AsyncFor, ast.Match)) and any(observed(e) for e in own(n))

        def decided(st: object) -> bool:
            return any(deciding(x) for x in deps.get(st, ()))

        grew = False
        changed = True
        while changed:   # what carries an observation: by value, or by being assigned where an observation decides
            changed = False
            for name, ds in lc.defs.items():
                if name not in tainted and any((v is not None and observed(v)) or decided(st) for _kind, st, v in ds):
                    tainted.add(name)
                    changed = True
            for st in cfg.nodes:
                if isinstance(st, (ast.Assign, ast.AnnAssign, ast.AugAssign)) and st.value is not None:
                    for t in (st.targets if isinstance(st, ast.Assign) else [st.target]):
                        if isinstance(t, ast.Attribute) and t.attr not in attrs and (observed(st.value) or decided(st)):
                            attrs.add(t.attr)
                            changed = grew = True
        found: list[Dependent] = []
        mine = [c for c in calls[g.qual] if id(c) in producing or getattr(callee_of(ix, g, c), "qual", None) in producers]
        for st in cfg.nodes if mine else []:
            if not isinstance(st, (ast.stmt, ast.ExceptHandler)) or id(st) in sanctioned:
                continue
            for c in walk_own(st):
                if not any(c is m for m in mine):
                    continue
                on = [_describe(x) for x in deps.get(st, ()) if deciding(x)]
                on += [norm(t)[:60] for t in expression_guards(st, c) if observed(t)]
                on += [norm(a)[:60] for a in [*c.args, *[k.value for k in c.keywords]] if observed(a)]
                if id(c) in probes[g.qual]:
                    on.append("the call itself succeeds only when the path is missing")
                found.append(Dependent(g, st, c, sorted(set(on))))
        return found, grew

    while True:
        out: list[Dependent] = []
        again = False
        for g in funcs:
            found, grew = analyse(g)
            out += found
            again = again or grew
        if not again:
            return out


def own_exprs_of(n: object) -> list[ast.AST]:
    from ..cfg import own_exprs

    return own_exprs(n) if isinstance(n, (ast.stmt, ast.ExceptHandler)) else []  # type: ignore[arg-type]


def _describe(n: object) -> str:
    if isinstance(n, ast.Try):
        return "try/except " + ", ".join(ast.unparse(h.type) if h.type is not None else "<any>" for h in n.handlers)
    if isinstance(n, (ast.If, ast.While)):
        return f"{type(n).__name__.lower()} {ast.unparse(n.test)[:60]}"
    if isinstance(n, (ast.For, ast.AsyncFor)):
        return f"for ... in {ast.unparse(n.iter)[:60]}"
    if isinstance(n, ast.AST):
        return ast.unparse(n)[:60] + " (may raise into an OSError handler)"
    return str(n)
