"""Token gluing: a `{{ hole }}` in a code context that is immediately followed - on some path through the template - by literal text
that starts with a Python keyword (`{{ value }}and not ...`).  Unless the value provably ends in a quote, the keyword fuses with the
value's last token (`Trueand`, `Noneand`, `1and`) and the generated module does not compile or means something else.

The follow text of a hole is computed on the template's syntax tree as a FIRST set of its continuation: the rest of the output
node, then the statements after it, through both arms of every `if`, into and around every loop (next iteration, loop exit), up to
the end of the macro.  Nothing depends on how the template is laid out: `x{% if c %}and y{% endif %}` and
`{% if c %}x and y{% else %}x{% endif %}` differ exactly in what this rule is about.

Shared by the properties for which a fused token is a violation (C01: the generated package must compile).
"""
from __future__ import annotations

import re
from typing import Any

from jinja2 import nodes

from ..core import Report
from ..domain import PYREPR
from ..jinja_interp import expr_text

KEYWORDS = frozenset("and or not if else in is for while as from import lambda await async with yield return raise assert del pass "
                     "break continue elif except finally try class def global nonlocal".split())
HOLE, END = "\0hole", "\0end"
SILENT_STMTS = (nodes.Assign, nodes.AssignBlock, nodes.Macro, nodes.Import, nodes.FromImport, nodes.ExprStmt, nodes.Continue, nodes.Break)

Frame = tuple[list, int, Any]  # (statement or output-child list, next index, enclosing loop | "LOOPED" | None)


def first(frames: tuple[Frame, ...], depth: int = 0) -> set[str]:
    """what can be emitted next: prefixes of literal text, HOLE (an interpolated value), END (the macro / template ends)"""
    if not frames:
        return {END}
    if depth > 60:
        return {HOLE}
    (seq, i, loop), rest = frames[0], frames[1:]
    out: set[str] = set()
    while i < len(seq):
        n = seq[i]
        after = ((seq, i + 1, loop),) + rest
        if isinstance(n, nodes.TemplateData):
            if n.data:
                return out | {n.data[:16]}
        elif isinstance(n, nodes.Output):
            return out | first(((list(n.nodes), 0, None),) + after, depth + 1)
        elif isinstance(n, nodes.If):
            out |= first(((list(n.body), 0, None),) + after, depth + 1)
            for el in n.elif_:
                out |= first(((list(el.body), 0, None),) + after, depth + 1)
            out |= first(((list(n.else_), 0, None),) + after, depth + 1) if n.else_ else first(after, depth + 1)
            return out
        elif isinstance(n, nodes.For):
            out |= first(((list(n.body), 0, n),) + after, depth + 1)
            out |= first(((list(n.else_), 0, None),) + after, depth + 1)
            return out
        elif isinstance(n, (nodes.With, nodes.Scope)):
            return out | first(((list(n.body), 0, None),) + after, depth + 1)
        elif isinstance(n, SILENT_STMTS):
            pass
        elif isinstance(n, nodes.Expr):
            return out | {HOLE}
        else:  # call blocks, filter blocks, includes: what they emit first is not decided here
            return out | {HOLE}
        i += 1
    if isinstance(loop, nodes.For):  # the end of a loop body: one more iteration, or the loop is left
        out |= first(((list(loop.body), 0, "LOOPED"),) + rest, depth + 1)
    return out | first(rest, depth + 1)


def holes(tree: nodes.Template):
    """(macro name, output child node, follow set) for every interpolation of the template"""
    found: list[tuple[str, nodes.Node, set[str]]] = []

    def walk(seq: list, loop: Any, rest: tuple[Frame, ...], macro: str) -> None:
        for i, n in enumerate(seq):
            after = ((seq, i + 1, loop),) + rest
            if isinstance(n, nodes.Macro):
                walk(list(n.body), None, (), n.name)
            elif isinstance(n, nodes.Output):
                kids = list(n.nodes)
                for j, ch in enumerate(kids):
                    if not isinstance(ch, nodes.TemplateData):
                        found.append((macro, ch, first(((kids, j + 1, None),) + after)))
            elif isinstance(n, nodes.If):
                walk(list(n.body), None, after, macro)
                for el in n.elif_:
                    walk(list(el.body), None, after, macro)
                walk(list(n.else_), None, after, macro)
            elif isinstance(n, nodes.For):
                walk(list(n.body), n, after, macro)
                walk(list(n.else_), None, after, macro)
            elif isinstance(n, (nodes.With, nodes.Scope, nodes.CallBlock, nodes.FilterBlock, nodes.AssignBlock)):
                walk(list(n.body), None, after if isinstance(n, (nodes.With, nodes.Scope)) else (), macro)

    walk(list(tree.body), None, (), "<top>")
    return found


def keyword_at_start(text: str) -> str | None:
    m = re.match(r"[A-Za-z_][A-Za-z0-9_]*", text)
    if not m or m.group(0) not in KEYWORDS:
        return None
    return m.group(0)


def check(rep: Report, ctx: Any, rule_id: str, floor: int = 150) -> None:
    rep.rule(rule_id, "no interpolation in a code context is immediately followed, on any path through the template (rest of the line, "
                      "both arms of every `if`, next loop iteration and loop exit), by literal text that starts with a Python keyword, "
                      "unless the interpolated value always ends in a quote: the keyword would fuse with the value's last token")
    _it, ji = ctx.flow
    by_site: dict[tuple[str, str, str, int], list[Any]] = {}
    for e in ji.emissions.values():
        by_site.setdefault((e.template, e.macro, e.expr, e.line), []).append(e)
    n_code = 0
    for tn, ti in sorted(ctx.jinja.templates.items()):
        seen: dict[str, int] = {}
        for macro, node, follow in holes(ti.tree):
            et = expr_text(node)
            ems = [e for e in by_site.get((tn, macro, et, getattr(node, "lineno", 0)), []) if e.kind == "CODE"]
            if not ems:
                continue  # not reached, or not in a code context (strings and comments have their own rules)
            n_code += 1
            k = seen[f"{macro}::{et}"] = seen.get(f"{macro}::{et}", -1) + 1
            key = f"{tn}::{macro}::{et}#{k}"
            labels = frozenset().union(*(e.labels for e in ems))
            fused = sorted({kw for t in follow if t not in (HOLE, END) for kw in [keyword_at_start(t)] if kw})
            ok = not fused or labels <= {PYREPR}
            rep.check(ok, rule_id, key,
                      f"`{{{{ {et} }}}}` can be followed directly by the keyword {fused} (no space): a value ending in a letter or digit "
                      f"(labels {sorted(labels)}) fuses with it", where=f"{ti.path}:{getattr(node, 'lineno', 0)}",
                      lhs=sorted(t for t in follow if t not in (HOLE, END))[:6], rhs="no keyword directly after the value")
    rep.floor("code_holes_with_follow_sets", n_code, floor)
    # positive control: the follow set of `{{ v }}{% if c %}and w{% endif %}:` contains both continuations
    from jinja2 import Environment

    t = Environment().parse("{{ v }}{% if c %}and w{% endif %}:")
    fs = [f for _m, _n, f in holes(t)]
    rep.control(f"{rule_id} follow-set", bool(fs) and {"and w", ":"} <= fs[0] and keyword_at_start("and w") == "and")
