"""C01 - every generated client is a valid, importable Python package (structural clauses)."""
from __future__ import annotations

import ast
import re
from typing import Any

from jinja2 import nodes

from .. import lexstate as LX
from .. import tplq
from ..astutil import call_name, cfg_of, norm, short, stmt_of, where
from ..cfg import ENTRY, EXIT, walk_own
from ..charclass import S, members
from ..core import PKG, Report
from ..jinja_interp import expr_text
from ..pe import PathEnum, StringCollector, fstring_text
from ..skelscan import strip_strings
from .effects import effect_sites
from .registries import check_param_conflicts

LEVEL = ("necessary conditions, each of which yields a SyntaxError / NameError / ImportError when broken (compiling and importing "
         "every output is not decided): import closure per property kind x requiredness x host (names used by the kind's macros "
         "and type strings that belong to the import universe are imported by the host header or the kind's get_imports); the "
         "check_ helper is named by one method at definition, import and use; lazily imported model classes are imported in "
         "every function that uses them at run time; evaluated annotations are quoted; attribute declaration order (truth "
         "table); lexical neutrality of every template block; dispatch totality; names never start with an underscore; every rename "
         "made to resolve an argument-name conflict is re-checked; directories that receive document-named modules are rebuilt "
         "from empty.")

_KW = {"if", "else", "elif", "for", "in", "is", "not", "and", "or", "return", "def", "class", "import", "from", "as", "try",
       "except", "finally", "raise", "with", "while", "pass", "None", "True", "False", "lambda", "await", "async"}


_FIELD = re.compile(r"\{[^{}]*\}")
_IMPORT_LINE = re.compile(r"\s*(from\s+\S+\s+import|import)\s")


def _tv(e: ast.expr, env: dict[str, bool]) -> "bool | None":
    """three-valued truth of a test under the known atoms (atoms are identified by their text: `self.required`, a parameter, a local
    that currently holds a known boolean)"""
    if isinstance(e, ast.Constant) and (isinstance(e.value, bool) or e.value is None):
        return bool(e.value)
    if isinstance(e, ast.BoolOp):
        vals = [_tv(v, env) for v in e.values]
        absorbing = isinstance(e.op, ast.Or)
        if any(v is absorbing for v in vals):
            return absorbing
        return (not absorbing) if all(v is (not absorbing) for v in vals) else None
    if isinstance(e, ast.UnaryOp) and isinstance(e.op, ast.Not):
        v = _tv(e.operand, env)
        return None if v is None else not v
    if isinstance(e, ast.IfExp):
        c = _tv(e.test, env)
        a, b = _tv(e.body, env), _tv(e.orelse, env)
        if c is None:
            return a if a == b else None
        return a if c else b
    if isinstance(e, ast.Compare) and len(e.ops) == 1 and isinstance(e.ops[0], (ast.Is, ast.IsNot)) and \
            isinstance(e.comparators[0], ast.Constant) and isinstance(e.comparators[0].value, bool):
        v = _tv(e.left, env)  # `x is True` / `x is not False` on a known boolean
        if v is None:
            return None
        same = v is e.comparators[0].value
        return same if isinstance(e.ops[0], ast.Is) else not same
    return env.get(norm(e))


def _assume(e: ast.expr, truth: bool, env: dict[str, bool]) -> None:
    """record what a taken branch says about the atoms of its test (only where that is a certainty)"""
    if isinstance(e, ast.UnaryOp) and isinstance(e.op, ast.Not):
        _assume(e.operand, not truth, env)
    elif isinstance(e, ast.BoolOp):
        if truth == isinstance(e.op, ast.And):  # `a and b` taken / `a or b` not taken: every operand is decided
            for v in e.values:
                _assume(v, truth, env)
    elif not isinstance(e, (ast.Constant, ast.IfExp, ast.Compare, ast.Call)):
        env.setdefault(norm(e), truth)


class PathStrings(StringCollector):
    """StringCollector (string constants executed on the paths consistent with the known boolean atoms) that keeps the atoms
    path-sensitive: a local bound to a decidable boolean expression is an atom from then on (`flag = not (a or self.required)` ...
    `if flag:` is the same decision as `if not (a or self.required):`), a taken branch decides the atoms of its test, and what the
    arms of an `if` disagree on is forgotten where they join.  The shape of the method (early return / nested if / named condition /
    branch order) does not change the result."""

    def collect(self, f: Any, cls: Any, env: dict[str, bool], depth: int = 0, defining: Any = None) -> set[str]:
        return super().collect(f, cls, dict(env), depth, defining)  # the atoms are updated along the path: never the caller's dict

    def _block(self, body: list[ast.stmt], cls: Any, env: dict[str, bool], out: set[str], depth: int, f: Any, defining: Any) -> bool:
        for st in body:
            if isinstance(st, ast.Expr) and isinstance(st.value, ast.Constant):
                continue
            if isinstance(st, ast.If):
                v = _tv(st.test, env)
                self._expr(st.test, cls, env, out, depth, f, defining)
                live: list[dict[str, bool]] = []
                for truth, arm in ((True, st.body), (False, st.orelse)):
                    if v is (not truth):
                        continue
                    e2 = dict(env)
                    _assume(st.test, truth, e2)
                    if not (arm and self._block(arm, cls, e2, out, depth, f, defining)):
                        live.append(e2)
                if not live:
                    return True
                keep = {k: x for k, x in live[0].items() if all(e_.get(k) is x for e_ in live[1:])}
                env.clear()
                env.update(keep)
                continue
            if isinstance(st, (ast.Return, ast.Raise)):
                self._expr(st, cls, env, out, depth, f, defining)
                return True
            stored = {norm(n) for n in ast.walk(st) if isinstance(n, (ast.Name, ast.Attribute)) and isinstance(n.ctx, (ast.Store, ast.Del))}
            if isinstance(st, (ast.For, ast.AsyncFor, ast.While, ast.With, ast.AsyncWith, ast.Try, ast.Match)):
                _forget(env, stored)
                for sub in _sub_blocks(st):
                    self._block(sub, cls, dict(env), out, depth, f, defining)
                for e in _own_parts(st):
                    self._expr(e, cls, env, out, depth, f, defining)
                continue
            self._expr(st, cls, env, out, depth, f, defining)
            val, tgts = None, []
            if isinstance(st, (ast.Assign, ast.AnnAssign)) and st.value is not None:
                tgts = st.targets if isinstance(st, ast.Assign) else [st.target]
                if len(tgts) == 1 and isinstance(tgts[0], ast.Name):
                    val = _tv(st.value, env)
            _forget(env, stored)
            if val is not None:
                env[tgts[0].id] = val
        return False


def _forget(env: dict[str, bool], names: set[str]) -> None:
    for k in [k for k in env if k in names or any(re.search(rf"(?<![\w.]){re.escape(n)}(?!\w)", k) for n in names)]:
        del env[k]


def _sub_blocks(st: ast.stmt) -> list[list[ast.stmt]]:
    out = [getattr(st, fld) for fld in ("body", "orelse", "finalbody") if isinstance(getattr(st, fld, None), list) and getattr(st, fld)]
    out += [h.body for h in getattr(st, "handlers", []) or []]
    out += [c.body for c in getattr(st, "cases", []) or []]
    return [b for b in out if b and isinstance(b[0], ast.stmt)]


def _own_parts(st: ast.stmt) -> list[ast.AST]:
    if isinstance(st, (ast.For, ast.AsyncFor)):
        return [st.iter]
    if isinstance(st, ast.While):
        return [st.test]
    if isinstance(st, (ast.With, ast.AsyncWith)):
        return [i.context_expr for i in st.items]
    if isinstance(st, ast.Match):
        return [st.subject]
    return []


def _idents(code: str) -> set[str]:
    out: set[str] = set()
    state = LX.CODE
    for line in code.split("\n"):
        stripped, state, fexprs = strip_strings(line, state)
        for src in [stripped] + fexprs:
            for m in re.finditer(r"(?<![\w.])[^\W\d]\w*", src):
                if m.group(0) not in _KW:
                    out.add(m.group(0))
    return out


def _import_names(text: str) -> set[str]:
    """names bound by an import statement given as text (holes are \\x00; a replacement field of a str.format template is a hole too)"""
    t = _FIELD.sub("H", text.replace("\x00", "H"))
    try:
        tree = ast.parse(t.strip())
    except SyntaxError:
        return set()
    out = set()
    for n in ast.walk(tree):
        if isinstance(n, ast.ImportFrom):
            out |= {a.asname or a.name for a in n.names}
        elif isinstance(n, ast.Import):
            out |= {(a.asname or a.name).split(".")[0] for a in n.names}
    return out


def run(rep: Report, ctx: Any) -> str:
    ix = ctx.py
    jx = ctx.jinja
    it, ji = ctx.flow
    rep.rule("R01.1", "import closure: for every property kind, requiredness and host module, every name of the import universe used by "
                      "the kind's macros or type strings is imported by the host header or by the kind's get_imports")
    rep.rule("R01.1b", "the literal-enum helper check_<name> is named by the same method where it is defined, imported and called")
    rep.rule("R01.2", "lazy-import placement: every function of the model class whose inlined macros can use a model class at run time "
                      "starts by emitting model.lazy_imports")
    rep.rule("R01.3", "evaluated annotations that can denote a lazily imported class are quoted")
    rep.rule("R01.4", "declaration order: the two class-body loops are complementary and exhaustive over (default is none, required), the "
                      "no-default loop first; positional parameters do not carry defaults out of order")
    rep.rule("R01.5", "lexical neutrality: every template block leaves the lexer of the generated language in the state it found it; no "
                      "newline-inserting filter inside a single-line string")
    rep.rule("R01.6", "dispatch totality (shared with C06 R06.3)")
    rep.rule("R01.7", "a name that starts with an underscore never yields a python name that starts with one")
    rep.rule("R01.8", "argument lists have no duplicate: every rename made while resolving parameter / attribute name conflicts is followed "
                      "by a re-check (shared with R09.3 / R18.2)")
    rep.rule("R01.9", "no stale module: every directory that receives files whose names depend on the document is emptied earlier in the "
                      "same run, on every path")

    # ---- import universe ---------------------------------------------------------------------------------------------
    mt = jx.templates.get("model.py.jinja")
    et = jx.templates.get("endpoint_module.py.jinja")
    rep.require(mt and et, "host templates")

    def header_names(ti: Any) -> set[str]:
        out: set[str] = set()
        for f in tplq.frags(ti.tree.body):
            if f.kind == "data" and not f.loops:
                for line in f.text.splitlines():
                    if re.match(r"\s*(from\s+\S+\s+import|import)\s", line) and not f.guards:
                        out |= _import_names(line)
        return out

    hdr = {"model": header_names(mt), "endpoint": header_names(et)}
    rep.floor("model_header_imports", len(hdr["model"]), 8)
    rep.floor("endpoint_header_imports", len(hdr["endpoint"]), 8)
    sc = PathStrings(ix)
    proto = ix.cls("PropertyProtocol")
    universe = set(hdr["model"]) | set(hdr["endpoint"])
    kind_imports: dict[tuple[str, bool], set[str]] = {}
    for c in ix.property_classes():
        gi = ix.find_method(c, "get_imports")
        for req in (True, False):
            strings = sc.collect(gi, c, {"self.required": req})
            names: set[str] = set()
            for s_ in strings:
                if _IMPORT_LINE.match(s_.replace("\x00", "H")):
                    names |= _import_names(s_)
            kind_imports[(c.name, req)] = names
            universe |= names
    universe -= {"H"}
    rep.floor("import_universe", len(universe), 25)

    # ---- R01.1 ------------------------------------------------------------------------------------------------------------
    pe = PathEnum(ix)
    n_ob = 0
    macro_sets = {"model": ("construct", "construct_function", "check_type_for_construct", "transform", "transform_multipart"),
                  "endpoint": ("construct", "construct_function", "check_type_for_construct", "transform", "transform_header",
                               "transform_multipart_body")}
    shared = jx.templates.get("property_templates/property_macros.py.jinja")
    helpers = jx.templates.get("property_templates/helpers.jinja")
    for c in ix.property_classes():
        tname = ix.const_str(*_cv(ix, c, "template")) or ""
        ti = jx.templates.get("property_templates/" + tname)
        rep.require(ti, f"template of {c.name}")
        for req in (True, False):
            # identifiers in type strings of this kind for this requiredness
            tstrings: set[str] = set()
            for mname in ("get_type_string", "get_base_type_string", "get_base_json_type_string", "get_instance_type_string"):
                m = ix.find_method(c, mname)
                if m is not None:
                    for no_opt in (False, True):
                        tstrings |= sc.collect(m, c, {"self.required": req, "no_optional": no_opt})
            for cvn in ("_type_string", "_json_type_string"):
                v = ix.const_str(*_cv(ix, c, cvn))
                if v:
                    tstrings.add(v)
            type_ids = set()
            for s_ in tstrings:
                type_ids |= {m_.group(0) for m_ in re.finditer(r"(?<![\w.])[^\W\d]\w*", s_.replace("\x00", " "))}
            for host in ("model", "endpoint"):
                used = set(type_ids)
                for mn in macro_sets[host]:
                    srcs = [ti]
                    if mn == "construct" and "construct_function" in ti.macros:
                        srcs.append(shared)  # construct_template
                    for src_t in srcs:
                        for mm in ([mn] if src_t is ti else ["construct_template"]):
                            m2 = src_t.macros.get(mm)
                            if m2 is None:
                                continue
                            for fr in tplq.frags(m2.body):
                                if fr.kind != "data":
                                    continue
                                names_ = tplq.guard_atoms(fr)
                                # 'Unset' in get_type_strings_in_union(...)  <=>  not required (R10.1 decides that equivalence)
                                unset_atoms = [a for a in names_ if "'Unset' in property.get_type_strings_in_union" in a]
                                if "property.required" in names_ or unset_atoms:
                                    def consistent(e: dict) -> bool:
                                        if "property.required" in e and e["property.required"] != req:
                                            return False
                                        return all(e[a] == (not req) for a in unset_atoms)
                                    if not any(tplq.guard_holds(fr, e) for e in tplq.assignments(names_) if consistent(e)):
                                        continue
                                used |= _idents(fr.text)
                if host == "endpoint" and not req:
                    used |= {"Unset"}  # guarded_statement
                need = (used & universe)
                have = hdr[host] | kind_imports[(c.name, req)]
                # lazily imported classes and check_ helpers are holes, handled by R01.1b / R01.2
                missing = sorted(need - have)
                n_ob += 1
                rep.check(not missing, "R01.1", f"{c.name}[required={req}]@{host}",
                          f"generated {host} modules using a {'required' if req else 'optional'} {c.name} refer to {missing} without importing "
                          "it (NameError at import or call time)", where=f"{c.module.rel}:{c.node.lineno}", lhs=sorted(need), rhs=sorted(have & need))
    rep.floor("import_closure_obligations", n_ob, 60)

    # ---- R01.1b --------------------------------------------------------------------------------------------------------------
    le = ix.cls("LiteralEnumProperty")
    gi = le.methods.get("get_imports")
    rep.require(gi, "LiteralEnumProperty.get_imports")
    ok_imp = False
    for n in ast.walk(gi.node):
        if isinstance(n, ast.JoinedStr):
            for i, v in enumerate(n.values):
                if isinstance(v, ast.Constant) and str(v.value).endswith("check_") and i + 1 < len(n.values):
                    nxt = n.values[i + 1]
                    ok_imp = isinstance(nxt, ast.FormattedValue) and norm(nxt.value) == "self.get_class_name_snake_case()"
    use_ok = def_ok = False
    lt = jx.templates.get("property_templates/literal_enum_property.py.jinja")
    for fr_prev, fr in _pairs(list(tplq.macro_frags(lt, "construct_function"))):
        if fr_prev.kind == "data" and fr_prev.text.rstrip().endswith("check_") and fr.kind == "expr":
            use_ok = fr.text == "property.get_class_name_snake_case()"
    let = jx.templates.get("literal_enum.py.jinja")
    for fr_prev, fr in _pairs(list(tplq.frags(let.tree.body))):
        if fr_prev.kind == "data" and fr_prev.text.rstrip().endswith("def check_") and fr.kind == "expr":
            def_ok = fr.text == "enum.get_class_name_snake_case()"
    rep.check(ok_imp and use_ok and def_ok, "R01.1b", "literal-enum::check-helper-name",
              f"the check_ helper is named differently where it is defined ({def_ok}), imported ({ok_imp}) and called ({use_ok}): ImportError "
              "for class names whose module name differs from their snake-cased name", where(gi, gi.node), lhs=[def_ok, ok_imp, use_ok],
              rhs="get_class_name_snake_case() at all three")
    # module of the import = module the file is written to
    mods = {norm(v.value) for n in ast.walk(gi.node) if isinstance(n, ast.JoinedStr) for v in n.values if isinstance(v, ast.FormattedValue)
            and "module_name" in norm(v.value)}
    rep.check(mods == {"self.class_info.module_name"}, "R01.1b", "literal-enum::import-module", "helper imported from another module than the enum",
              where(gi, gi.node), lhs=sorted(mods), rhs=["self.class_info.module_name"])

    # ---- R01.2 ---------------------------------------------------------------------------------------------------------------
    top = list(tplq.frags(mt.tree.body))
    defs = [(f.line + f.text[:m_.start()].count("\n"), m_.group(1)) for f in top if f.kind == "data"
            for m_ in re.finditer(r"def (to_dict|to_multipart|from_dict)\(", f.text)]
    lazy_loops = [f_.lineno for f_ in mt.tree.find_all(nodes.For) if expr_text(f_.iter).startswith("model.lazy_imports")]
    rep.floor("model_functions", len(defs), 3)
    for line, name in defs:
        nxt = min([l for l, _ in defs if l > line] + [10 ** 9])
        has = any(line <= l < nxt for l in lazy_loops) and any(line <= l <= line + 2 for l in lazy_loops)
        rep.check(has, "R01.2", f"model.py.jinja::{name}::lazy-imports-first",
                  f"{name} does not start by importing the lazily referenced model classes although the macros it inlines can emit "
                  "isinstance(x, Model) / Model.from_dict(...) (NameError at call time)", where=f"{PKG}/templates/model.py.jinja:{line}",
                  lhs=lazy_loops, rhs=f"a `for lazy_import in model.lazy_imports` loop right after def {name}")
    tc = [f_ for f_ in mt.tree.find_all(nodes.For) if expr_text(f_.iter).startswith("model.lazy_imports")]
    rep.check(any("TYPE_CHECKING" in "".join(getattr(c_, "data", "") for o in f_.find_all(nodes.Output) for c_ in o.nodes) for f_ in tc), "R01.2",
              "model.py.jinja::type-checking-block", "lazy imports are not also emitted under TYPE_CHECKING", where=f"{PKG}/templates/model.py.jinja")

    # ---- R01.3 -----------------------------------------------------------------------------------------------------------------
    ts = proto.methods.get("to_string")
    calls = [c_ for c_ in ast.walk(ts.node) if isinstance(c_, ast.Call) and norm(c_.func) == "self.get_type_string"]
    rep.check(bool(calls) and all(any(k.arg == "quoted" and isinstance(k.value, ast.Constant) and k.value.value is True for k in c_.keywords) for c_ in calls),
              "R01.3", "PropertyProtocol.to_string::quoted", "attribute declarations use unquoted type strings: a lazily imported model class in a "
              "class-level annotation raises NameError at import", where(ts, ts.node))
    # the annotation of additional properties, however the template names it: the expression that asks the property for its type string
    apt = [n for n in mt.tree.find_all(nodes.Assign) if "model.additional_properties.get_type_string(" in expr_text(n.node)] or \
        [c_ for c_ in mt.tree.find_all(nodes.Call) if expr_text(c_.node) == "model.additional_properties.get_type_string"]
    rep.check(bool(apt) and all("quoted=(not model.additional_properties.is_base_type)" in expr_text(getattr(a_, "node", a_) if isinstance(a_, nodes.Assign) else a_)
                                for a_ in apt), "R01.3",
              "model.py.jinja::additional_property_type::quoted", "the additional-properties annotation is not quoted for non-base types",
              where=f"{PKG}/templates/model.py.jinja")
    mp = ix.cls("ModelProperty").methods.get("get_type_string")
    def _quotes(fn: ast.AST) -> bool:
        # an `if` on the parameter `quoted` whose body builds '<something>' (f-string that starts and ends with a single quote)
        for i_ in ast.walk(fn):
            if isinstance(i_, ast.If) and any(isinstance(n_, ast.Name) and n_.id == "quoted" for n_ in ast.walk(i_.test)):
                for j in [x for b_ in i_.body for x in ast.walk(b_) if isinstance(x, ast.JoinedStr)]:
                    v = j.values
                    if (len(v) >= 3 and isinstance(v[0], ast.Constant) and v[0].value == "'" and isinstance(v[-1], ast.Constant)
                            and v[-1].value == "'" and any(isinstance(x, ast.FormattedValue) for x in v)):
                        return True
        return False

    rep.check(_quotes(mp.node), "R01.3", "ModelProperty.get_type_string::quotes-class-name",
              "quoted=True no longer quotes the class name", where(mp, mp.node))

    # ---- R01.4 -------------------------------------------------------------------------------------------------------------------
    # (loop variables are canonical: the variable of `for x in ITER` reads `ITER[*]`, see sa/jinja_canon.py)
    decl = [f for f in top if f.kind == "expr" and f.loops and f.text.startswith(f"declare_property({f.loops[-1]}[*])")]
    rep.check(len(decl) == 2, "R01.4", "model.py.jinja::two-declaration-loops", "expected two declaration passes", where=f"{PKG}/templates/model.py.jinja",
              lhs=len(decl), rhs=2)
    if len(decl) == 2:
        a, b = sorted(decl, key=lambda f: f.line)
        names_ = sorted(set(tplq.guard_atoms(a)) | set(tplq.guard_atoms(b)))
        ok = bool(names_)
        first_no_default = True
        for env in tplq.assignments(names_):
            ha = tplq.guard_holds(a, {k: env[k] for k in tplq.guard_atoms(a)})
            hb = tplq.guard_holds(b, {k: env[k] for k in tplq.guard_atoms(b)})
            if ha == hb:
                ok = False  # not complementary / not exhaustive
            # the first pass must contain exactly the attributes that get no `= ...` : default is none and required
            pv = f"{a.loops[-1]}[*]"
            nd = (env.get(f"{pv}.default is none", False)) and env.get(f"{pv}.required", False)
            if ha != nd:
                first_no_default = False
        same_dom = a.loops == b.loops == ("(model.required_properties + model.optional_properties)",)
        rep.check(ok and first_no_default and same_dom, "R01.4", "model.py.jinja::declaration-order",
                  "attributes without a default are not all declared before attributes with one (attrs raises 'No mandatory attributes allowed "
                  "after an attribute with a default value' at import)", where=f"{PKG}/templates/model.py.jinja:{a.line}",
                  lhs=[[g for g, _ in a.guards], [g for g, _ in b.guards]], rhs="first pass = (default is none and required), second = complement")
    em = jx.templates.get("endpoint_macros.py.jinja")
    arg = em.macros.get("arguments")
    pos = [f for f in tplq.frags(arg.body) if f.kind == "expr" and f.loops == ("endpoint.path_parameters",) and f.text == "endpoint.path_parameters[*].to_string()"]
    star = next((f for f in tplq.frags(arg.body) if f.kind == "data" and f.text.strip().startswith("*,")), None)
    if pos and star is not None and pos[0].line < star.line:
        rep.fail("R01.4", "endpoint_macros.py.jinja::arguments::positional-defaults",
                 "path parameters are positional and emitted through to_string(), which carries the schema default: a defaulted path parameter "
                 "before one without default is a SyntaxError in every function of the endpoint module", where=f"{PKG}/templates/{em.name}:{pos[0].line}",
                 lhs="to_string() before `*,`", rhs="no defaults, or defaulted ones last")
    # ---- R01.5 ---------------------------------------------------------------------------------------------------------------------
    rep.check(not ji.neutrality, "R01.5", "templates::lexically-neutral-blocks", f"some template block changes the lexical state: {list(ji.neutrality.values())[:2]}",
              where="", lhs=len(ji.neutrality), rhs=0)
    for k, msg in sorted(ji.neutrality.items()):
        rep.fail("R01.5", f"{k[0]}::{k[1]}::{k[2]}", msg, where=f"{PKG}/templates/{k[0]}")
    n_py = 0
    for name, st in sorted(ji.top_states.items()):
        n_py += 1
        rep.check(st in (LX.CODE, LX.INERT, LX.COMMENT), "R01.5", f"{name}::ends-in-code", f"template ends inside {st}", where=f"{PKG}/templates/{name}")
    rep.floor("rendered_templates", n_py, 14)
    for e in ji.emissions.values():
        if ("STR1" in e.kind) and re.search(r"\|(wordwrap|indent|center)\b", e.expr):
            rep.fail("R01.5", f"{e.template}::{e.macro}::{e.expr}", "a newline-inserting filter is applied inside a single-line string literal",
                     where=f"{PKG}/templates/{e.template}:{e.line}")
    # ---- R01.6 ------------------------------------------------------------------------------------------------------------------------
    for dk, d in sorted(ji.dispatches.items(), key=lambda kv: (kv[1].template, kv[1].macro, kv[1].expr)):
        rep.check(not d.missing_in, "R01.6", f"{d.template}::{d.macro}::{d.alias}.{d.attr}",
                  f"`{d.alias}.{d.attr}(...)` unguarded but missing in {sorted(set(d.missing_in))}: the module is never written",
                  where=f"{PKG}/templates/{d.template}:{d.line}")
    # ---- R01.7 --------------------------------------------------------------------------------------------------------------------------
    ch = ctx.chars
    t = ctx.tables
    us = 1 << ord("_")
    lead = S(t.ALL, us, False)
    f = ix.func("PythonIdentifier.__new__")
    for mode in (False, True):
        out, paths = ch.run_function(f, {"value": lead, "prefix": ch.PREFIX, "cls": None, "skip_snake_case": mode})
        rep.require(isinstance(out, S), "E6 result")
        rep.check(not (out.first & us), "R01.7", f"PythonIdentifier[{'raw' if mode else 'snake'}]::leading-underscore-input",
                  "a document name starting with '_' can yield a python name starting with '_': attrs strips the underscore for __init__, so "
                  "`_id` next to `id` becomes a duplicate argument (SyntaxError at import)", where=f"{f.module.rel}:{f.node.lineno}",
                  lhs="first characters of the result for inputs starting with '_' (E6)", rhs="never '_'")
    # ---- R01.8 --------------------------------------------------------------------------------------------------------------------------
    # two parameters of one operation with the same python name are a `duplicate argument` SyntaxError in every function of the endpoint
    # module: a rename is only final once the renamed name has been compared again
    check_param_conflicts(rep, ctx, "R01.8")
    # ---- R01.9 --------------------------------------------------------------------------------------------------------------------------
    _rebuilt_from_empty(rep, ctx)
    rep.not_decided += ["syntactic validity of the composition of fragments for every document; validity of pyproject.toml beyond its string contexts"]
    return LEVEL


_CREATES = {"write_text", "write_bytes", "open-w", "touch", "mkdir", "makedirs"}


def _rebuilt_from_empty(rep: Report, ctx: Any) -> None:
    """R01.9.  With `overwrite` the output directory already holds an earlier generation.  A file whose name is fixed is replaced by
    the new run; a file whose name comes from the document is only replaced when the new document yields the same name.  A module left
    over from an earlier document imports model modules that the current run did not write (ModuleNotFoundError).  Necessary condition:
    whatever directory receives document-named entries is removed earlier in the same run, on every path that reaches the write.
    Paths are the abstract interpreter's string structure of the operand (<root> + literal text + holes), so neither the spelling of a
    local nor the function that finally performs the write matters: a write in a helper is followed to the helper's call sites."""
    ix = ctx.py
    it, _ = ctx.flow
    cfgs: dict[str, Any] = {}
    effs = []
    for e in effect_sites(ix):
        av = it.node_av.get(id(e.target)) if e.target is not None else None
        if av is not None and "Path" in av.types and av.alts:
            effs.append((e, av))

    def split(alt: tuple) -> "tuple[Any, str, bool]":
        """(root, literal path up to the first document-dependent component, has such a component)"""
        root = alt[0] if alt and alt[0].kind != "lit" else None
        text = ""
        for p_ in alt[1 if root is not None else 0:]:
            if p_.kind != "lit":
                return root, text, True
            text += p_.text
        return root, text, False

    removals: list[tuple[Any, Any, str]] = []  # (effect, root, directory)
    for e, av in effs:
        if e.what == "rmtree":
            parts = [split(a) for a in av.alts]
            if len(parts) == 1 and not parts[0][2]:
                removals.append((e, parts[0][0], parts[0][1].rstrip("/")))

    def under(d: str, top: str) -> bool:
        return d == top or d.startswith(top + "/")

    def resets(n: object, g: Any, root: Any, d: str, depth: int = 0) -> bool:
        """statement n of g removes a directory that contains d: by itself, or by calling a helper every path of which does"""
        if not isinstance(n, ast.stmt):
            return False
        own = list(walk_own(n))
        if any(e.func is g and r == root and under(d, top) and any(x is e.node for x in own) for e, r, top in removals):
            return True
        if depth < 2:
            for c_ in own:
                if isinstance(c_, ast.Call):
                    for h in _callees(ix, g, c_):
                        ch = cfg_of(h, cfgs)
                        if ch.every_path_passes(ENTRY, EXIT, lambda m, h=h: resets(m, h, root, d, depth + 1)):
                            return True
        return False

    def covered(g: Any, node: ast.AST, root: Any, d: str, depth: int = 0) -> bool:
        st = stmt_of(g.node, node)
        if st is None:
            return False
        if cfg_of(g, cfgs).is_dominated_by(st, lambda m: resets(m, g, root, d)):
            return True
        if depth >= 3:
            return False
        sites = [(h, c_) for h in ix.all_functions if h is not g for c_ in ast.walk(h.node) if isinstance(c_, ast.Call) and g in _callees(ix, h, c_)]
        return bool(sites) and all(covered(h, c_, root, d, depth + 1) for h, c_ in sites)

    by_dir: dict[str, list[tuple[Any, bool]]] = {}
    for e, av in effs:
        if e.what not in _CREATES:
            continue
        for alt in av.alts:
            root, text, dyn = split(alt)
            if not dyn:
                continue
            d = text.rsplit("/", 1)[0]  # the directory in which the first document-dependent component is created
            by_dir.setdefault(d, []).append((e, covered(e.func, e.node, root, d)))
    rep.floor("document_named_directories", len(by_dir), 2)
    for d, sites in sorted(by_dir.items()):
        bad = sorted({f"{short(e.func)}::{e.what}" for e, ok in sites if not ok})
        e0 = next((e for e, ok in sites if not ok), sites[0][0])
        rep.check(not bad, "R01.9", f"output-tree::{d or '/'}::rebuilt-from-empty",
                  f"files or directories named after the document are created under <output>{d or '/'} without that directory having been "
                  f"removed earlier in the run on every path ({bad}): on regeneration, modules of an earlier document survive and import "
                  "model modules that no longer exist (ModuleNotFoundError)", e0.where,
                  lhs=sorted({f"{short(e.func)}::{e.what}" for e, _ in sites}), rhs=f"each dominated by rmtree of {d or '/'} or of a directory above it")


def _callees(ix: Any, g: Any, c: ast.Call) -> list[Any]:
    """functions of the package a call made in g may enter: `self.m()` / `cls.m()` / `Class.m()` -> method m of g's class (or of Class),
    plain `f()` -> function f of g's module"""
    cn = call_name(c)
    head, _, last = cn.rpartition(".")
    out = []
    if head in ("self", "cls") and g.cls is not None:
        m = ix.find_method(g.cls, last)
        if m is not None:
            out.append(m)
    elif head == "":
        out += [h for h in ix.all_functions if h.cls is None and h.parent is None and h.name == last and h.module is g.module]
    else:
        out += [h for h in ix.all_functions if h.cls is not None and h.cls.name == head and h.name == last]
    return out


def _cv(ix: Any, c: Any, name: str) -> tuple[Any, Any]:
    r = ix.find_classvar(c, name)
    if r is None:
        return (c.module, ast.Constant(value=None))
    return (r[0].module, r[1])


def _pairs(xs: list[Any]) -> list[tuple[Any, Any]]:
    return list(zip(xs, xs[1:]))
