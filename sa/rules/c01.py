"""C01 - every generated client is a valid, importable Python package (structural clauses)."""
from __future__ import annotations

import ast
import re
from dataclasses import replace
from typing import Any

from jinja2 import nodes

from .. import lexstate as LX
from .. import tplq
from ..astutil import (Locals, anon, call_name, cfg_of, constructs_error, local_names, names_in, norm, receivers, region, short, stmt_calls,
                       stmt_of, where)
from ..cfg import ENTRY, EXIT, walk_own
from ..charclass import S
from ..core import PKG, Report
from ..domain import CONFIG, CONST, ENUM, ESC, IDENT, NUM, WORD, is_esc
from ..jinja_interp import expr_text
from ..pe import StringCollector
from ..skelscan import strip_strings
from .effects import effect_sites, operand_av

LEVEL = ("necessary conditions, each of which yields a SyntaxError / NameError / ImportError when broken (compiling and importing "
         "every output is not decided): import closure per property kind x requiredness x host (names used by the kind's macros "
         "and type strings that belong to the import universe are imported by the host header or the kind's get_imports); the "
         "check_ helper is named by one expression of the enum at definition, import and use; lazily imported model classes are imported in "
         "every function that uses them at run time; evaluated annotations are quoted; attribute declaration order (truth "
         "table); parameter lists valid on every rendering (defaults of positional parameters in order with and without the `*,` "
         "separator, a written separator followed by a parameter); lexical neutrality of every template block; dispatch totality; names never start with an underscore; every rename "
         "made to resolve an argument-name conflict is re-checked; directories that receive document-named modules are rebuilt "
         "from empty.")

_KW = {"if", "else", "elif", "for", "in", "is", "not", "and", "or", "return", "def", "class", "import", "from", "as", "try",
       "except", "finally", "raise", "with", "while", "pass", "None", "True", "False", "lambda", "await", "async"}


_OWN_TEXT = {CONST, ENUM, NUM, IDENT, WORD, CONFIG}  # text the generator makes itself: literals, members, numbers, sanitised names, configuration
_FIELD = re.compile(r"\{[^{}]*\}")
_IMPORT_LINE = re.compile(r"\s*(from\s+\S+\s+import|import)\s")


def _tv(e: ast.expr, env: dict[str, bool]) -> "bool | None":
    """three-valued truth of a test under the known atoms (atoms are identified by their text: `self.required`, a parameter, a local
    that currently holds a known boolean)"""
    if isinstance(e, ast.Constant) and (isinstance(e.value, bool) or e.value is None):
        return bool(e.value)
    if isinstance(e, ast.BoolOp):
        vals = [_tv(v, env) for v in e.values]
        absorbing = isinstance(e.op, ast.Or)
        if any(v is absorbing for v in vals):
            return absorbing
        return (not absorbing) if all(v is (not absorbing) for v in vals) else None
    if isinstance(e, ast.UnaryOp) and isinstance(e.op, ast.Not):
        v = _tv(e.operand, env)
        return None if v is None else not v
    if isinstance(e, ast.IfExp):
        c = _tv(e.test, env)
        a, b = _tv(e.body, env), _tv(e.orelse, env)
        if c is None:
            return a if a == b else None
        return a if c else b
    if isinstance(e, ast.Compare) and len(e.ops) == 1 and isinstance(e.ops[0], (ast.Is, ast.IsNot)) and \
            isinstance(e.comparators[0], ast.Constant) and isinstance(e.comparators[0].value, bool):
        v = _tv(e.left, env)  # `x is True` / `x is not False` on a known boolean
        if v is None:
            return None
        same = v is e.comparators[0].value
        return same if isinstance(e.ops[0], ast.Is) else not same
    return env.get(norm(e))


def _assume(e: ast.expr, truth: bool, env: dict[str, bool]) -> None:
    """record what a taken branch says about the atoms of its test (only where that is a certainty)"""
    if isinstance(e, ast.UnaryOp) and isinstance(e.op, ast.Not):
        _assume(e.operand, not truth, env)
    elif isinstance(e, ast.BoolOp):
        if truth == isinstance(e.op, ast.And):  # `a and b` taken / `a or b` not taken: every operand is decided
            for v in e.values:
                _assume(v, truth, env)
    elif not isinstance(e, (ast.Constant, ast.IfExp, ast.Compare, ast.Call)):
        env.setdefault(norm(e), truth)


class PathStrings(StringCollector):
    """StringCollector (string constants executed on the paths consistent with the known boolean atoms) that keeps the atoms
    path-sensitive: a local bound to a decidable boolean expression is an atom from then on (`flag = not (a or self.required)` ...
    `if flag:` is the same decision as `if not (a or self.required):`), a taken branch decides the atoms of its test, and what the
    arms of an `if` disagree on is forgotten where they join.  The shape of the method (early return / nested if / named condition /
    branch order) does not change the result."""

    def collect(self, f: Any, cls: Any, env: dict[str, bool], depth: int = 0, defining: Any = None) -> set[str]:
        return super().collect(f, cls, dict(env), depth, defining)  # the atoms are updated along the path: never the caller's dict

    def _expr(self, node: ast.AST, cls: Any, env: dict[str, bool], out: set[str], depth: int, f: Any, defining: Any) -> None:
        """a conditional expression is the same decision as an `if` statement: of `a if c else b` only the operand that the known atoms
        select is executed (likewise the operands of `and` / `or` behind one that decides the result)"""
        return super()._expr(_executed(node, env), cls, env, out, depth, f, defining)

    def _block(self, body: list[ast.stmt], cls: Any, env: dict[str, bool], out: set[str], depth: int, f: Any, defining: Any) -> bool:
        for st in body:
            if isinstance(st, ast.Expr) and isinstance(st.value, ast.Constant):
                continue
            if isinstance(st, ast.If):
                v = _tv(st.test, env)
                self._expr(st.test, cls, env, out, depth, f, defining)
                live: list[dict[str, bool]] = []
                for truth, arm in ((True, st.body), (False, st.orelse)):
                    if v is (not truth):
                        continue
                    e2 = dict(env)
                    _assume(st.test, truth, e2)
                    if not (arm and self._block(arm, cls, e2, out, depth, f, defining)):
                        live.append(e2)
                if not live:
                    return True
                keep = {k: x for k, x in live[0].items() if all(e_.get(k) is x for e_ in live[1:])}
                env.clear()
                env.update(keep)
                continue
            if isinstance(st, (ast.Return, ast.Raise)):
                self._expr(st, cls, env, out, depth, f, defining)
                return True
            stored = {norm(n) for n in ast.walk(st) if isinstance(n, (ast.Name, ast.Attribute)) and isinstance(n.ctx, (ast.Store, ast.Del))}
            if isinstance(st, (ast.For, ast.AsyncFor, ast.While, ast.With, ast.AsyncWith, ast.Try, ast.Match)):
                _forget(env, stored)
                for sub in _sub_blocks(st):
                    self._block(sub, cls, dict(env), out, depth, f, defining)
                for e in _own_parts(st):
                    self._expr(e, cls, env, out, depth, f, defining)
                continue
            self._expr(st, cls, env, out, depth, f, defining)
            val, tgts = None, []
            if isinstance(st, (ast.Assign, ast.AnnAssign)) and st.value is not None:
                tgts = st.targets if isinstance(st, ast.Assign) else [st.target]
                if len(tgts) == 1 and isinstance(tgts[0], ast.Name):
                    val = _tv(st.value, env)
            _forget(env, stored)
            if val is not None:
                env[tgts[0].id] = val
        return False


class _Executed(ast.NodeTransformer):
    def __init__(self, env: dict[str, bool]) -> None:
        self.env = env
        self.changed = False

    def visit_IfExp(self, n: ast.IfExp) -> ast.AST:
        v = _tv(n.test, self.env)
        if v is None:
            return self.generic_visit(n)
        self.changed = True
        return ast.Tuple(elts=[self.visit(n.test), self.visit(n.body if v else n.orelse)], ctx=ast.Load())

    def visit_BoolOp(self, n: ast.BoolOp) -> ast.AST:
        absorbing = isinstance(n.op, ast.Or)
        for i, v in enumerate(n.values[:-1]):
            if _tv(v, self.env) is absorbing:  # the operands behind it are not evaluated
                self.changed = True
                return ast.Tuple(elts=[self.visit(x) for x in n.values[:i + 1]], ctx=ast.Load())
        return self.generic_visit(n)


def _executed(node: ast.AST, env: dict[str, bool]) -> ast.AST:
    """the expression / statement without the operands that the known atoms leave unevaluated (a copy; the node itself where nothing is
    decided)"""
    if not any(isinstance(n, (ast.IfExp, ast.BoolOp)) for n in ast.walk(node)):
        return node
    import copy

    tr = _Executed(env)
    new = tr.visit(copy.deepcopy(node))
    return new if tr.changed else node


def _forget(env: dict[str, bool], names: set[str]) -> None:
    for k in [k for k in env if k in names or any(re.search(rf"(?<![\w.]){re.escape(n)}(?!\w)", k) for n in names)]:
        del env[k]


def _sub_blocks(st: ast.stmt) -> list[list[ast.stmt]]:
    out = [getattr(st, fld) for fld in ("body", "orelse", "finalbody") if isinstance(getattr(st, fld, None), list) and getattr(st, fld)]
    out += [h.body for h in getattr(st, "handlers", []) or []]
    out += [c.body for c in getattr(st, "cases", []) or []]
    return [b for b in out if b and isinstance(b[0], ast.stmt)]


def _own_parts(st: ast.stmt) -> list[ast.AST]:
    if isinstance(st, (ast.For, ast.AsyncFor)):
        return [st.iter]
    if isinstance(st, ast.While):
        return [st.test]
    if isinstance(st, (ast.With, ast.AsyncWith)):
        return [i.context_expr for i in st.items]
    if isinstance(st, ast.Match):
        return [st.subject]
    return []


def _idents(code: str) -> set[str]:
    out: set[str] = set()
    state = LX.CODE
    for line in code.split("\n"):
        stripped, state, fexprs = strip_strings(line, state)
        for src in [stripped] + fexprs:
            for m in re.finditer(r"(?<![\w.])[^\W\d]\w*", src):
                if m.group(0) not in _KW:
                    out.add(m.group(0))
    return out


def _import_names(text: str) -> set[str]:
    """names bound by an import statement given as text (holes are \\x00; a replacement field of a str.format template is a hole too)"""
    t = _FIELD.sub("H", text.replace("\x00", "H"))
    try:
        tree = ast.parse(t.strip())
    except SyntaxError:
        return set()
    out = set()
    for n in ast.walk(tree):
        if isinstance(n, ast.ImportFrom):
            out |= {a.asname or a.name for a in n.names}
        elif isinstance(n, ast.Import):
            out |= {(a.asname or a.name).split(".")[0] for a in n.names}
    return out


# ---- the texts a small builder method returns (R01.1 / R01.1b) -------------------------------------------------------------------------
# An import line is text.  Whether it is written down as one literal, put together by an f-string from locals, joined from a list of
# names that grows on some paths, or produced by a comprehension over a tuple of names is a matter of style.  The evaluation below
# follows the *values* through a method (abstractly: no code is run, nothing is looked up outside the syntax tree) on the paths that are
# consistent with the known boolean atoms:
#   VStr   the alternative texts of a string, each a sequence of parts ("lit", text) | ("expr", node of the expression that fills it)
#   VSeq   a list / tuple whose elements are known one by one
#   VBag   a collection of which only the strings that MAY be in it are known (sets; whatever was built by a loop of unknown length)
#   VMap   a dict display with constant keys (a table the text is looked up in)
#   VOpq   anything else, remembered as the expression that computed it (a local bound to it reads as that expression)
# Every alternative that may arise is kept (where two paths join, the union), so the result over-approximates the texts of the method.
# Of a sorted / reversed sequence only the elements are tracked, not their order, and a collection of unknown order that is joined
# reads as its possible elements in some order: what is asked of a text is which names it imports.  A name that the method does not
# bind reads as the module-level constant, `self.X` / `cls.X` as the class-level constant of that name.

_MAXALT = 64
_UNROLL = 8
Parts = tuple  # tuple[("lit", str) | ("expr", ast.AST), ...]


class VStr:
    def __init__(self, alts: Any) -> None:
        self.alts: frozenset[Parts] = frozenset(alts)


class VSeq:
    def __init__(self, items: Any) -> None:
        self.items: tuple = tuple(items)


class VBag:
    def __init__(self, elems: Any = ()) -> None:
        self.elems: frozenset[Parts] = frozenset(elems)


class VMap:
    def __init__(self, items: Any) -> None:
        self.items: dict[Any, Any] = dict(items)  # constant key -> value (a dict display whose keys are constants)


class VOpq:
    def __init__(self, node: ast.AST) -> None:
        self.node = node


def _norm_parts(parts: Any) -> Parts:
    return tuple(_merge(list(parts)))


def _vstrings(v: Any) -> frozenset[Parts]:
    """the strings a value is or may contain"""
    if isinstance(v, VStr):
        return v.alts
    if isinstance(v, VBag):
        return v.elems
    if isinstance(v, VSeq):
        return frozenset(s_ for x in v.items for s_ in _vstrings(x))
    if isinstance(v, VMap):
        return frozenset(s_ for x in v.items.values() for s_ in _vstrings(x))
    return frozenset()


def _vsame(a: Any, b: Any) -> bool:
    if a is b:
        return True
    if type(a) is not type(b):
        return False
    if isinstance(a, VStr):
        return a.alts == b.alts
    if isinstance(a, VBag):
        return a.elems == b.elems
    if isinstance(a, VSeq):
        return len(a.items) == len(b.items) and all(_vsame(x, y) for x, y in zip(a.items, b.items))
    if isinstance(a, VMap):
        return a.items.keys() == b.items.keys() and all(_vsame(x, b.items[k]) for k, x in a.items.items())
    return a.node is b.node


def _vjoin(a: Any, b: Any) -> Any:
    """the value at a place that is reached with a or with b (None: not bound on that path)"""
    if a is None or b is None:
        return a if b is None else b
    if _vsame(a, b):
        return a
    if isinstance(a, VStr) and isinstance(b, VStr):
        return VStr(a.alts | b.alts)
    if isinstance(a, VSeq) and isinstance(b, VSeq) and len(a.items) == len(b.items):
        return VSeq(_vjoin(x, y) for x, y in zip(a.items, b.items))
    if isinstance(a, (VSeq, VBag, VMap)) or isinstance(b, (VSeq, VBag, VMap)):
        return VBag(_vstrings(a) | _vstrings(b))
    # a text or something unknown on either path: each alternative is kept (an unknown value as the expression that computed it)
    return VStr(frozenset().union(*[x.alts if isinstance(x, VStr) else {(("expr", x.node),)} for x in (a, b)]))


def _join_states(states: list[dict[str, Any]]) -> dict[str, Any]:
    out: dict[str, Any] = {}
    for k in {k for s_ in states for k in s_}:
        v = None
        for s_ in states:
            v = _vjoin(v, s_.get(k))
        if v is not None:
            out[k] = v
    return out


def parts_text(parts: Parts, hole: str = "\x00") -> str:
    return "".join(v if k == "lit" else hole for k, v in parts)


class _Frame:
    def __init__(self, f: Any, cls: Any, defining: Any, depth: int) -> None:
        self.f, self.cls, self.defining, self.depth = f, cls, defining, depth
        self.rets: list[Any] = []
        self.finals: list[dict[str, Any]] = []  # the locals where the method ends (a helper may have added to a collection handed to it)
        self.exits: list[list[tuple[str, dict[str, Any]]]] = []  # per enclosing loop: states at `break` / `continue`


class StrEval:
    """the values of the string-structure evaluation described above; `call` gives what a method returns"""

    MUTATORS = {"add", "update", "append", "extend", "insert", "discard", "remove", "clear", "sort", "reverse", "pop", "difference_update",
                "intersection_update", "symmetric_difference_update"}

    def __init__(self, ix: Any) -> None:
        self.ix = ix
        self.owner: dict[int, Any] = {}  # id(expression node used as a part) -> function it stands in
        self._local_names: dict[str, set[str]] = {}

    # -- methods ----------------------------------------------------------------------------------------------------------------
    def call(self, f: Any, cls: Any, env: dict[str, bool], args: "dict[str, Any] | None" = None, depth: int = 0, defining: Any = None) -> Any:
        return self._call(f, cls, env, args, depth, defining)[0]

    def _call(self, f: Any, cls: Any, env: dict[str, bool], args: "dict[str, Any] | None", depth: int, defining: Any) -> tuple[Any, dict[str, Any]]:
        fr = _Frame(f, cls, defining or f.cls or cls, depth)
        state = dict(args or {})
        if not self._block(f.node.body, fr, dict(env), state):
            fr.finals.append(state)
        ret = None
        for r in fr.rets:
            ret = _vjoin(ret, r)
        return ret, _join_states(fr.finals)

    def texts(self, f: Any, cls: Any, env: dict[str, bool]) -> set[str]:
        """the texts (holes: \\x00) that the method's result is or may contain"""
        return {parts_text(p_) for p_ in _vstrings(self.call(f, cls, env))}

    # -- statements -------------------------------------------------------------------------------------------------------------
    def _block(self, body: list[ast.stmt], fr: _Frame, env: dict[str, bool], state: dict[str, Any]) -> bool:
        """executes the block on (env, state) in place; True when no path falls through its end"""
        for st in body:
            if self._stmt(st, fr, env, state):
                return True
        return False

    def _stmt(self, st: ast.stmt, fr: _Frame, env: dict[str, bool], state: dict[str, Any]) -> bool:
        if isinstance(st, ast.If):
            v = _tv(st.test, env)
            self.ev(st.test, fr, env, state)
            live: list[tuple[dict[str, bool], dict[str, Any]]] = []
            for truth, arm in ((True, st.body), (False, st.orelse)):
                if v is (not truth):
                    continue
                e2, s2 = dict(env), dict(state)
                _assume(st.test, truth, e2)
                if not (arm and self._block(arm, fr, e2, s2)):
                    live.append((e2, s2))
            if not live:
                return True
            keep = {k: x for k, x in live[0][0].items() if all(e_.get(k) is x for e_, _ in live[1:])}
            env.clear()
            env.update(keep)
            joined = _join_states([s_ for _, s_ in live])
            state.clear()
            state.update(joined)
            return False
        if isinstance(st, ast.Return):
            fr.rets.append(self.ev(st.value, fr, env, state) if st.value is not None else None)
            fr.finals.append(dict(state))
            return True
        if isinstance(st, ast.Raise):
            return True
        if isinstance(st, (ast.Break, ast.Continue)):
            if fr.exits:
                fr.exits[-1].append(("break" if isinstance(st, ast.Break) else "continue", dict(state)))
            return True
        stored = {norm(n) for n in ast.walk(st) if isinstance(n, (ast.Name, ast.Attribute)) and isinstance(n.ctx, (ast.Store, ast.Del))}
        if isinstance(st, (ast.For, ast.AsyncFor)):
            _forget(env, stored)
            self._loop(st, fr, env, state)
            return False
        if isinstance(st, ast.While):
            _forget(env, stored)
            self.ev(st.test, fr, env, state)
            self._weak_loop(st.body, None, None, fr, env, state)
            if st.orelse:
                self._block(st.orelse, fr, dict(env), state)
            return False
        if isinstance(st, (ast.With, ast.AsyncWith)):
            for i_ in st.items:
                v_ = self.ev(i_.context_expr, fr, env, state)
                if i_.optional_vars is not None:
                    self._bind(i_.optional_vars, VOpq(i_.context_expr) if not isinstance(v_, VOpq) else v_, state)
            _forget(env, stored)
            return self._block(st.body, fr, env, state)
        if isinstance(st, (ast.Try, ast.Match)) or st.__class__.__name__ == "TryStar":
            _forget(env, stored)
            if isinstance(st, ast.Match):
                self.ev(st.subject, fr, env, state)
                outs, dead = [dict(state)], False  # no case may match
                for case in st.cases:
                    s2 = dict(state)
                    if not self._block(case.body, fr, dict(env), s2):
                        outs.append(s2)
            else:
                s_body = dict(state)
                t_body = self._block(st.body, fr, dict(env), s_body)
                outs = []
                if not t_body:
                    s_else = dict(s_body)
                    if not (st.orelse and self._block(st.orelse, fr, dict(env), s_else)):
                        outs.append(s_else)
                mid = _join_states([state, s_body])  # an exception may leave the body anywhere
                for h in st.handlers:
                    s_h = dict(mid)
                    if not self._block(h.body, fr, dict(env), s_h):
                        outs.append(s_h)
                dead = not outs
                if dead:
                    outs = [mid]
            joined = _join_states(outs)
            state.clear()
            state.update(joined)
            if getattr(st, "finalbody", None):
                dead = self._block(st.finalbody, fr, env, state) or dead
            return dead
        if isinstance(st, (ast.Assign, ast.AnnAssign)):
            if st.value is None:
                return False
            val = self.ev(st.value, fr, env, state)
            tgts = st.targets if isinstance(st, ast.Assign) else [st.target]
            truth = _tv(st.value, env) if len(tgts) == 1 and isinstance(tgts[0], ast.Name) else None
            _forget(env, stored)
            for t in tgts:
                self._bind(t, val, state)
            if truth is not None:
                env[tgts[0].id] = truth
            return False
        if isinstance(st, ast.AugAssign):
            val = self.ev(st.value, fr, env, state)
            _forget(env, stored)
            if isinstance(st.target, ast.Name):
                cur = state.get(st.target.id)
                new = self._binop(st.op, cur if cur is not None else self._opq(st.target, fr), val, st, fr, st.target, st.value)
                if isinstance(new, VOpq) and new.node is st:
                    state.pop(st.target.id, None)
                else:
                    state[st.target.id] = new
            return False
        if isinstance(st, ast.Delete):
            for t in st.targets:
                if isinstance(t, ast.Name):
                    state.pop(t.id, None)
            _forget(env, stored)
            return False
        if isinstance(st, ast.Expr):
            self.ev(st.value, fr, env, state)
            _forget(env, stored)
            return False
        return False  # pass, import, assert, global, nested definitions: nothing that a text is made of

    def _bind(self, target: ast.AST, val: Any, state: dict[str, Any]) -> None:
        if isinstance(target, ast.Name):
            state[target.id] = val
        elif isinstance(target, (ast.Tuple, ast.List)):
            plain = not any(isinstance(t, ast.Starred) for t in target.elts)
            if isinstance(val, VSeq) and plain and len(val.items) == len(target.elts):
                for t, x in zip(target.elts, val.items):
                    self._bind(t, x, state)
            else:
                for t in ast.walk(target):
                    if isinstance(t, ast.Name):
                        state.pop(t.id, None)
        elif isinstance(target, ast.Subscript) and isinstance(target.value, ast.Name) and target.value.id in state:
            cur = state[target.value.id]  # an element replaced: which one is not tracked
            if isinstance(cur, (VSeq, VBag)):
                state[target.value.id] = VBag(_vstrings(cur) | _vstrings(val))

    def _loop(self, st: Any, fr: _Frame, env: dict[str, bool], state: dict[str, Any]) -> None:
        it = self.ev(st.iter, fr, env, state)
        if isinstance(it, VSeq) and len(it.items) <= _UNROLL:
            outs: list[dict[str, Any]] = []
            cur: "dict[str, Any] | None" = dict(state)
            for x in it.items:
                if cur is None:
                    break
                self._bind(st.target, x, cur)
                fr.exits.append([])
                dead = self._block(st.body, fr, dict(env), cur)
                ex = fr.exits.pop()
                outs += [s_ for k, s_ in ex if k == "break"]
                nxt = [s_ for k, s_ in ex if k == "continue"] + ([] if dead else [cur])
                cur = _join_states(nxt) if nxt else None
            if cur is not None:
                if st.orelse:
                    self._block(st.orelse, fr, dict(env), cur)
                outs.append(cur)
            joined = _join_states(outs) if outs else dict(state)
            state.clear()
            state.update(joined)
            return
        self._weak_loop(st.body, st.target, it, fr, env, state)
        if st.orelse:
            self._block(st.orelse, fr, dict(env), state)

    def _weak_loop(self, body: list[ast.stmt], target: "ast.AST | None", it: Any, fr: _Frame, env: dict[str, bool], state: dict[str, Any]) -> None:
        """a loop that runs an unknown number of times: the state after it is the join over no, one and further rounds (the second
        round starts from what the first may have left; what a text is made of does not grow after that)"""
        acc = dict(state)
        for _ in range(2):
            cur = dict(acc)
            if target is not None:
                elem = _vstrings(it) if isinstance(it, (VBag, VSeq)) else frozenset()
                if elem and isinstance(target, ast.Name):
                    cur[target.id] = VStr(elem)
                else:
                    for t in ast.walk(target):
                        if isinstance(t, ast.Name):
                            cur.pop(t.id, None)
            fr.exits.append([])
            dead = self._block(body, fr, dict(env), cur)
            ex = fr.exits.pop()
            acc = _join_states([acc] + [s_ for _, s_ in ex] + ([] if dead else [cur]))
            for k, v in list(acc.items()):  # what was a sequence before the loop and differs after it has an unknown number of elements
                if isinstance(v, VSeq) and not _vsame(v, state.get(k)):
                    acc[k] = VBag(_vstrings(v))
        state.clear()
        state.update(acc)

    # -- expressions ------------------------------------------------------------------------------------------------------------
    def _opq(self, node: ast.AST, fr: _Frame) -> VOpq:
        self.owner[id(node)] = fr.f
        return VOpq(node)

    def _pieces(self, v: Any, node: ast.AST, fr: _Frame) -> frozenset[Parts]:
        """the alternatives of a value where it is put into a text"""
        if isinstance(v, VStr):
            return v.alts
        if isinstance(v, VOpq):
            self.owner.setdefault(id(v.node), fr.f)
            return frozenset({(("expr", v.node),)})
        self.owner[id(node)] = fr.f
        return frozenset({(("expr", node),)})

    @staticmethod
    def _product(seqs: list[frozenset[Parts]]) -> "frozenset[Parts] | None":
        out: set[Parts] = {()}
        for alts in seqs:
            out = {_norm_parts(a + b) for a in out for b in alts}
            if len(out) > _MAXALT:
                return None
        return frozenset(out)

    def _concat(self, vals: list[tuple[Any, ast.AST]], whole: ast.AST, fr: _Frame) -> Any:
        got = self._product([self._pieces(v, n, fr) for v, n in vals])
        return VStr(got) if got is not None else self._opq(whole, fr)

    def ev(self, e: "ast.AST | None", fr: _Frame, env: dict[str, bool], state: dict[str, Any]) -> Any:
        if e is None:
            return None
        if isinstance(e, ast.Constant):
            return VStr({_norm_parts([("lit", e.value)])}) if isinstance(e.value, str) else self._opq(e, fr)
        if isinstance(e, ast.Name):
            v = state.get(e.id)
            if v is None and e.id not in self._locals(fr.f):
                v = self._constant(fr.f.module, e.id, fr)
            return v if v is not None else self._opq(e, fr)
        if isinstance(e, ast.Attribute) and isinstance(e.value, ast.Name) and e.value.id in ("self", "cls") and fr.cls is not None:
            cv = self.ix.find_classvar(fr.cls, e.attr)
            if cv is not None and self.ix.find_method(fr.cls, e.attr) is None and fr.depth < 4:
                v = self._literal(cv[1], cv[0].module, fr)
                if v is not None:
                    return v
            return self._opq(e, fr)
        if isinstance(e, ast.Dict):
            vals_ = [self.ev(x, fr, env, state) for x in e.values]
            if all(isinstance(k, ast.Constant) for k in e.keys):
                return VMap((k.value, v) for k, v in zip(e.keys, vals_))
            for k in e.keys:
                self.ev(k, fr, env, state)
            return VBag(s_ for v in vals_ for s_ in _vstrings(v))
        if isinstance(e, ast.JoinedStr):
            vals: list[tuple[Any, ast.AST]] = []
            for v in e.values:
                if isinstance(v, ast.FormattedValue) and v.conversion == -1 and v.format_spec is None:
                    vals.append((self.ev(v.value, fr, env, state), v.value))
                elif isinstance(v, ast.FormattedValue):
                    self.ev(v.value, fr, env, state)
                    vals.append((self._opq(v, fr), v))
                else:
                    vals.append((self.ev(v, fr, env, state), v))
            return self._concat(vals, e, fr)
        if isinstance(e, ast.NamedExpr):
            v = self.ev(e.value, fr, env, state)
            self._bind(e.target, v, state)
            return v
        if isinstance(e, ast.Await):
            return self.ev(e.value, fr, env, state)
        if isinstance(e, ast.IfExp):
            c = _tv(e.test, env)
            self.ev(e.test, fr, env, state)
            if c is not None:
                return self.ev(e.body if c else e.orelse, fr, env, state)
            e_t, e_f = dict(env), dict(env)
            _assume(e.test, True, e_t)
            _assume(e.test, False, e_f)
            return _vjoin(self.ev(e.body, fr, e_t, state), self.ev(e.orelse, fr, e_f, state))
        if isinstance(e, ast.BoolOp):
            out = None
            for v in e.values:  # `x or "default"`: one of the operands
                out = _vjoin(out, self.ev(v, fr, env, state))
            return out
        if isinstance(e, (ast.List, ast.Tuple, ast.Set)):
            items: list[Any] = []
            exact = not isinstance(e, ast.Set)
            for x in e.elts:
                if isinstance(x, ast.Starred):
                    v = self.ev(x.value, fr, env, state)
                    if isinstance(v, VSeq):
                        items += list(v.items)
                    else:
                        exact = False
                        items.append(v)
                else:
                    items.append(self.ev(x, fr, env, state))
            return VSeq(items) if exact else VBag(s_ for x in items for s_ in _vstrings(x))
        if isinstance(e, ast.BinOp):
            l, r = self.ev(e.left, fr, env, state), self.ev(e.right, fr, env, state)
            if isinstance(e.op, ast.Mod) and isinstance(l, VStr):
                return self._percent(l, e, fr, env, state)
            return self._binop(e.op, l, r, e, fr, e.left, e.right)
        if isinstance(e, (ast.ListComp, ast.SetComp, ast.GeneratorExp)):
            got: list[Any] = []
            exact = self._comp(e, 0, fr, env, dict(state), got) and not isinstance(e, ast.SetComp)
            return VSeq(got) if exact else VBag(s_ for x in got for s_ in _vstrings(x))
        if isinstance(e, ast.Subscript):
            v = self.ev(e.value, fr, env, state)
            self.ev(e.slice, fr, env, state)
            if isinstance(v, VMap):
                return self._lookup(v, e.slice, None, env)
            if isinstance(v, VSeq) and isinstance(e.slice, ast.Constant) and isinstance(e.slice.value, int) and not isinstance(e.slice.value, bool) \
                    and -len(v.items) <= e.slice.value < len(v.items):
                return v.items[e.slice.value]
            if isinstance(v, (VSeq, VBag)) and not isinstance(e.slice, ast.Slice) and _vstrings(v):
                return VStr(_vstrings(v))
            return self._opq(e, fr)
        if isinstance(e, ast.Call):
            return self._ev_call(e, fr, env, state)
        for ch in ast.iter_child_nodes(e):
            if isinstance(ch, ast.expr):
                self.ev(ch, fr, env, state)  # calls inside (a helper that adds to a collection it is handed) still take effect
        return self._opq(e, fr)

    def _locals(self, f: Any) -> set[str]:
        if f.qual not in self._local_names:
            a = f.node.args
            self._local_names[f.qual] = set(Locals(f.node).defs) | {x.arg for x in [*a.posonlyargs, *a.args, *a.kwonlyargs, a.vararg, a.kwarg] if x}
        return self._local_names[f.qual]

    def _constant(self, mod: Any, name: str, fr: _Frame) -> Any:
        """value of a module-level name that is assigned a display of literals (followed through `from x import NAME`)"""
        r = self.ix.resolve(mod, name)
        if not r or r[0] != "var":
            return None
        m2, n2 = r[1]
        return self._literal(m2.variables[n2], m2, fr)

    def _literal(self, node: ast.AST, mod: Any, fr: _Frame, depth: int = 0) -> Any:
        """value of an expression that stands outside any function: texts, displays of them, names of further such constants"""
        if isinstance(node, ast.Constant) and isinstance(node.value, str):
            return VStr({_norm_parts([("lit", node.value)])})
        if depth > 4:
            return None
        if isinstance(node, (ast.Tuple, ast.List)) and not any(isinstance(x, ast.Starred) for x in node.elts):
            items = [self._literal(x, mod, fr, depth + 1) for x in node.elts]
            return VSeq(x if x is not None else self._opq(n_, fr) for x, n_ in zip(items, node.elts))
        if isinstance(node, ast.Set) or (isinstance(node, ast.Call) and isinstance(node.func, ast.Name) and node.func.id in ("frozenset", "set", "tuple", "list")
                                         and len(node.args) == 1 and not node.keywords):
            inner = node.elts if isinstance(node, ast.Set) else [node.args[0]]
            return VBag(s_ for x in inner for s_ in _vstrings(self._literal(x, mod, fr, depth + 1)))
        if isinstance(node, ast.Dict) and all(isinstance(k, ast.Constant) for k in node.keys):
            vals = [self._literal(x, mod, fr, depth + 1) for x in node.values]
            return VMap((k.value, v if v is not None else self._opq(n_, fr)) for k, v, n_ in zip(node.keys, vals, node.values))
        if isinstance(node, ast.JoinedStr) or (isinstance(node, ast.BinOp) and isinstance(node.op, ast.Add)):
            parts = _merge(_py_parts(node, {}))
            for k, v in parts:
                if k == "expr":
                    self.owner.setdefault(id(v), fr.f)
            return VStr({tuple(parts)}) if any(k == "lit" for k, _ in parts) else None
        if isinstance(node, ast.Name):
            return self._constant(mod, node.id, fr)
        return None

    def _lookup(self, m: VMap, key: ast.AST, default: Any, env: dict[str, bool]) -> Any:
        """m[key] / m.get(key, default): the entry of a constant key or of a key whose truth is known, else any entry"""
        k: Any = key.value if isinstance(key, ast.Constant) else _tv(key, env)
        if k is not None or isinstance(key, ast.Constant):
            hit = [v for kk, v in m.items.items() if kk == k and type(kk) is type(k)]
            if hit:
                return hit[0]
            if isinstance(key, ast.Constant) or all(isinstance(kk, bool) for kk in m.items):
                return default if default is not None else VBag()
        out = default
        for v in m.items.values():
            out = _vjoin(out, v)
        return out if out is not None else VBag()

    def _binop(self, op: ast.AST, l: Any, r: Any, whole: ast.AST, fr: _Frame, lnode: ast.AST, rnode: ast.AST) -> Any:
        if isinstance(op, ast.Add) and isinstance(l, VSeq) and isinstance(r, VSeq):
            return VSeq(l.items + r.items)
        if isinstance(op, ast.Add) and (isinstance(l, VStr) or isinstance(r, VStr)):
            return self._concat([(l, lnode), (r, rnode)], whole, fr)
        if isinstance(op, (ast.Add, ast.BitOr, ast.Sub, ast.BitAnd, ast.BitXor)) and (isinstance(l, (VSeq, VBag)) or isinstance(r, (VSeq, VBag))):
            return VBag(_vstrings(l) | (_vstrings(r) if isinstance(op, (ast.Add, ast.BitOr, ast.BitXor)) else frozenset()))
        return self._opq(whole, fr)

    def _percent(self, l: VStr, e: ast.BinOp, fr: _Frame, env: dict[str, bool], state: dict[str, Any]) -> Any:
        args = list(e.right.elts) if isinstance(e.right, ast.Tuple) else [e.right]
        outs: set[Parts] = set()
        for alt in l.alts:
            if len(alt) > 1 or (alt and alt[0][0] != "lit"):
                return self._opq(e, fr)
            text = alt[0][1] if alt else ""
            chunks = text.split("%s")
            if "%%" in text or len(chunks) != len(args) + 1 or any("%" in c for c in chunks):
                return self._opq(e, fr)
            seqs = [frozenset({_norm_parts([("lit", chunks[0])])})]
            for a, c in zip(args, chunks[1:]):
                seqs += [self._pieces(self.ev(a, fr, env, state), a, fr), frozenset({_norm_parts([("lit", c)])})]
            got = self._product(seqs)
            if got is None:
                return self._opq(e, fr)
            outs |= got
        return VStr(outs)

    def _comp(self, e: Any, k: int, fr: _Frame, env: dict[str, bool], state: dict[str, Any], got: list[Any]) -> bool:
        """elements of a comprehension, generator k onwards; True when they are known one by one"""
        if k == len(e.generators):
            got.append(self.ev(e.elt, fr, env, state))
            return True
        g = e.generators[k]
        it = self.ev(g.iter, fr, env, state)
        rounds: list[Any]
        exact = isinstance(it, VSeq) and len(it.items) <= _UNROLL
        if exact:
            rounds = list(it.items)
        else:
            elem = _vstrings(it) if isinstance(it, (VBag, VSeq)) else frozenset()
            rounds = [VStr(elem) if elem and isinstance(g.target, ast.Name) else None]
        for x in rounds:
            s2, e2 = dict(state), dict(env)
            if x is None:
                for t in ast.walk(g.target):
                    if isinstance(t, ast.Name):
                        s2.pop(t.id, None)
            else:
                self._bind(g.target, x, s2)
            skip = False
            for c in g.ifs:
                v = _tv(c, e2)
                self.ev(c, fr, e2, s2)
                if v is False:
                    skip = True
                    break
                if v is None:
                    exact = False  # the element may be left out
                _assume(c, True, e2)
            if not skip:
                exact = self._comp(e, k + 1, fr, e2, s2, got) and exact
        return exact

    def _resolve(self, c: ast.Call, fr: _Frame) -> tuple[Any, Any]:
        """(method or function of the package that the call enters, class that defines it) for self.m() / cls.m() / super().m() / f()"""
        fn = c.func
        if isinstance(fn, ast.Attribute):
            if isinstance(fn.value, ast.Name) and fn.value.id in ("self", "cls") and fr.cls is not None:
                m = self.ix.find_method(fr.cls, fn.attr)
                return m, (m.cls if m is not None and m.cls is not None else fr.defining)
            if isinstance(fn.value, ast.Call) and isinstance(fn.value.func, ast.Name) and fn.value.func.id == "super" and fr.cls is not None:
                mro = self.ix.mro(fr.cls)
                idx = next((i for i, k in enumerate(mro) if k is fr.defining or k == fr.defining), -1)
                for k in mro[idx + 1:]:
                    if fn.attr in k.methods:
                        return k.methods[fn.attr], k
            return None, None
        if isinstance(fn, ast.Name):
            hs = [h for h in self.ix.all_functions if h.cls is None and h.parent is None and h.name == fn.id and h.module is fr.f.module]
            return (hs[0], None) if len(hs) == 1 else (None, None)
        return None, None

    def _ev_call(self, c: ast.Call, fr: _Frame, env: dict[str, bool], state: dict[str, Any]) -> Any:
        fn = c.func
        argv = [(a, self.ev(a.value if isinstance(a, ast.Starred) else a, fr, env, state)) for a in c.args]
        kwv = [(k, self.ev(k.value, fr, env, state)) for k in c.keywords]
        plain = not any(isinstance(a, ast.Starred) for a in c.args) and all(k.arg for k in c.keywords)
        name = fn.id if isinstance(fn, ast.Name) else None
        # constructors and order-only transformations of collections
        if name in ("set", "frozenset", "list", "tuple", "sorted", "reversed") and plain and len(argv) <= 1:
            if not argv:
                return VBag() if name in ("set", "frozenset") else VSeq(())
            v = argv[0][1]
            if isinstance(v, VSeq) and name not in ("set", "frozenset"):
                return v
            if isinstance(v, (VSeq, VBag)):
                return VBag(_vstrings(v))
            return self._opq(c, fr)
        if name == "str" and plain and len(argv) == 1 and not kwv and isinstance(argv[0][1], VStr):
            return argv[0][1]
        if isinstance(fn, ast.Attribute):
            recv = self.ev(fn.value, fr, env, state)
            m = fn.attr
            if m == "join" and isinstance(recv, VStr) and plain and len(argv) == 1 and isinstance(argv[0][1], (VSeq, VBag)) and \
                    (isinstance(argv[0][1], VSeq) or argv[0][1].elems):
                joined = argv[0][1]
                if isinstance(joined, VBag):  # elements in some order
                    joined = VSeq(VStr({p_}) for p_ in sorted(joined.elems, key=parts_text))
                seqs: list[frozenset[Parts]] = []
                for i_, x in enumerate(joined.items):
                    if i_:
                        seqs.append(recv.alts)
                    seqs.append(self._pieces(x, c, fr))
                got = self._product(seqs)
                return VStr(got) if got is not None else self._opq(c, fr)
            if m == "format" and isinstance(recv, VStr) and plain:
                outs: set[Parts] = set()
                for alt in recv.alts:
                    if len(alt) > 1 or (alt and alt[0][0] != "lit"):
                        return self._opq(c, fr)
                    fields = _format_fields(alt[0][1] if alt else "", [a for a, _ in argv], {k.arg: k.value for k, _ in kwv})
                    if fields is None:
                        return self._opq(c, fr)
                    byid = {id(a): v for a, v in argv}
                    byid.update({id(k.value): v for k, v in kwv})
                    got = self._product([frozenset({_norm_parts([(k_, v_)])}) if k_ == "lit" else self._pieces(byid[id(v_)], v_, fr) for k_, v_ in fields])
                    if got is None:
                        return self._opq(c, fr)
                    outs |= got
                return VStr(outs)
            if isinstance(recv, VMap):
                if m == "get" and plain and 1 <= len(argv) <= 2 and not kwv:
                    return self._lookup(recv, argv[0][0], argv[1][1] if len(argv) == 2 else None, env)
                if m == "values":
                    return VBag(_vstrings(recv))
                return self._opq(c, fr)
            if isinstance(recv, VOpq) and m in ("add", "update", "append", "extend", "insert") and isinstance(fn.value, ast.Name) and \
                    any(_vstrings(v) for _, v in argv):
                recv = VBag()  # a collection that came from somewhere else: of its elements only those added here are known
            if isinstance(recv, (VSeq, VBag)):
                if m in self.MUTATORS and isinstance(fn.value, ast.Name):
                    state[fn.value.id] = self._mutated(recv, m, [v for _, v in argv], c)
                    return self._opq(c, fr)
                if m in ("copy", "union", "__or__") and plain:
                    if m == "copy":
                        return recv
                    return VBag(_vstrings(recv) | frozenset(s_ for _, v in argv for s_ in _vstrings(v)))
                if m in ("difference", "intersection"):
                    return VBag(_vstrings(recv))
        h, d2 = self._resolve(c, fr)
        if h is not None and h != fr.f and fr.depth < 4 and plain:
            bound: dict[str, tuple[ast.AST, Any]] = {}
            a_ = h.node.args
            pos = [x.arg for x in [*a_.posonlyargs, *a_.args]]
            if pos and pos[0] in ("self", "cls") and h.kind != "staticmethod" and h.cls is not None:
                pos = pos[1:]
            for p_, (a, v) in zip(pos, argv):
                bound[p_] = (a, v)
            if a_.vararg is not None:
                bound[a_.vararg.arg] = (c, VSeq(v for _, v in argv[len(pos):]))
            for k, v in kwv:
                bound[k.arg] = (k.value, v)
            e2 = {k: v for k, v in env.items() if k.startswith("self.")}
            for p_, (a, _) in bound.items():
                t = _tv(a, env)
                if t is not None:
                    e2[p_] = t
            args = {p_: v for p_, (a, v) in bound.items() if v is not None}  # a parameter reads as the value handed to it
            ret, finals = self._call(h, fr.cls if h.cls is not None else None, e2, args, fr.depth + 1, d2)
            for p_, (a, v) in bound.items():  # a collection handed to the helper holds afterwards what the helper put into it
                if isinstance(a, ast.Name) and isinstance(v, (VSeq, VBag)) and isinstance(finals.get(p_), (VSeq, VBag)) and a.id in state:
                    state[a.id] = finals[p_]
            if ret is not None and not isinstance(ret, VOpq):
                return ret
        return self._opq(c, fr)

    @staticmethod
    def _mutated(recv: Any, m: str, args: list[Any], c: ast.Call) -> Any:
        if isinstance(recv, VSeq):
            if m == "append" and len(args) == 1:
                return VSeq(recv.items + (args[0],))
            if m == "extend" and len(args) == 1 and isinstance(args[0], VSeq):
                return VSeq(recv.items + args[0].items)
            if m == "insert" and len(args) == 2:
                i = c.args[0]
                neg = isinstance(i, ast.UnaryOp) and isinstance(i.op, ast.USub)
                n = i.operand if neg else i
                if isinstance(n, ast.Constant) and isinstance(n.value, int) and not isinstance(n.value, bool):
                    at = max(0, len(recv.items) - n.value) if neg else min(n.value, len(recv.items))
                    return VSeq(recv.items[:at] + (args[1],) + recv.items[at:])
            if m in ("sort", "reverse"):
                return recv
            if m == "clear":
                return VSeq(())
        if m == "clear":
            return VBag()
        added = frozenset(s_ for v in (args[1:] if m == "insert" else args) for s_ in _vstrings(v)) if m in ("add", "update", "append", "extend", "insert") \
            else frozenset()
        return VBag(_vstrings(recv) | added)  # removal is not tracked: the strings that MAY be in it


def run(rep: Report, ctx: Any) -> str:
    ix = ctx.py
    jx = ctx.jinja
    it, ji = ctx.flow
    rep.rule("R01.1","import closure: for every property kind, requiredness and host module, every name of the import universe used by "
                      "the kind's macros or type strings is imported by the host header or by the kind's get_imports")
    rep.rule("R01.1b", "the literal-enum helper check_<name> is named by the same expression of the enum where it is defined, imported and "
                       "called, and imported from the module the enum is written to")
    rep.rule("R01.2", "lazy-import placement: in every function of the model class into which macros of property templates are expanded, "
                      "model.lazy_imports is emitted before the first of them on every path through the template (macros, partials and "
                      "captured blocks read where they are emitted); at module level the same imports stand in the block of an "
                      "`if TYPE_CHECKING:` line")
    rep.rule("R01.3", "evaluated annotations that can denote a lazily imported class are quoted")
    rep.rule("R01.4", "declaration order: the declaration passes of the class body partition the attributes over (default is none, required), "
                      "no pass mixes attributes with and without default, passes without default come first; in a parameter list (the "
                      "bracket group or macro body that writes the separator `*,`), on every rendering - every number of elements (0, 1, 2) "
                      "of the collections it loops over or measures, every value of its other conditions - no positional parameter that may "
                      "lack a default (an element's to_string(), text without `=`) follows one that may carry one, where positional means "
                      "before the separator and, on a rendering on which the separator is not written, everywhere; and a separator that is "
                      "written is followed by a parameter")
    rep.rule("R01.5", "lexical neutrality: every template block leaves the lexer of the generated language in the state it found it; no "
                      "newline-inserting filter inside a single-line string; inside a triple-quoted literal no hole that can carry document "
                      "text stands directly before the closing delimiter unless its escaping neutralises the quote character and the "
                      "backslash (the last character of the text would lengthen or swallow the delimiter)")
    rep.rule("R01.6", "dispatch totality (shared with C06 R06.3)")
    rep.rule("R01.7", "a name that starts with an underscore never yields a python name that starts with one")
    rep.rule("R01.8", "argument lists have no duplicate: every rename made while resolving parameter / attribute name conflicts is followed "
                      "by a re-check (parameters: recorded in the set whose test decides between a further pass and success; attributes: "
                      "equality test of the two python names)")
    rep.rule("R01.10", "nothing that remains imports a module that was removed - the thread of dependants is unbroken: the identities a piece "
                       "has to be removed with (what the registry of dependencies records for a reference) are handed down to everything "
                       "that is built inside the piece: a function that receives them passes them, or a collection that contains them, to "
                       "every function it calls that accepts them (the registry's own methods apart)")
    rep.rule("R01.9", "no stale module: every directory that receives files whose names depend on the document is emptied earlier in the "
                      "same run, on every path")

    # ---- import universe ---------------------------------------------------------------------------------------------
    mt = jx.templates.get("model.py.jinja")
    et = jx.templates.get("endpoint_module.py.jinja")
    rep.require(mt and et, "host templates")

    def header_names(ti: Any) -> set[str]:
        """names imported unconditionally by the text the template writes outside every loop (in place, in a partial it includes, in a
        macro it expands)"""
        out: set[str] = set()
        for f in _TplRun(jx, ti).frags(ti.tree.body, ti):
            if f.kind == "data" and not f.loops:
                for line in f.text.splitlines():
                    if re.match(r"\s*(from\s+\S+\s+import|import)\s", line) and not f.guards:
                        out |= _import_names(line)
        return out

    hdr = {"model": header_names(mt), "endpoint": header_names(et)}
    rep.floor("model_header_imports", len(hdr["model"]), 5)
    rep.floor("endpoint_header_imports", len(hdr["endpoint"]), 5)
    sc = PathStrings(ix)
    sv = StrEval(ix)
    proto = ix.cls("PropertyProtocol")
    universe = set(hdr["model"]) | set(hdr["endpoint"])
    kind_imports: dict[tuple[str, bool], set[str]] = {}
    for c in ix.property_classes():
        gi = ix.find_method(c, "get_imports")
        rep.require(gi, f"{c.name}.get_imports")
        for req in (True, False):
            # the import lines of the kind: the texts its get_imports may return (however they are put together), and - for what is
            # handed through code the evaluation cannot follow - every string constant on the same paths
            strings = sv.texts(gi, c, {"self.required": req}) | sc.collect(gi, c, {"self.required": req})
            names: set[str] = set()
            for s_ in strings:
                if _IMPORT_LINE.match(s_.replace("\x00", "H")):
                    names |= _import_names(s_)
            kind_imports[(c.name, req)] = names
            universe |= names
    universe -= {"H"}
    rep.floor("import_universe", len(universe), 13)

    # ---- R01.1 ------------------------------------------------------------------------------------------------------------
    n_ob = 0
    macro_sets = {"model": ("construct", "construct_function", "check_type_for_construct", "transform", "transform_multipart"),
                  "endpoint": ("construct", "construct_function", "check_type_for_construct", "transform", "transform_header",
                               "transform_multipart_body")}
    shared = jx.templates.get("property_templates/property_macros.py.jinja")
    for c in ix.property_classes():
        tname = ix.const_str(*_cv(ix, c, "template")) or ""
        ti = jx.templates.get("property_templates/" + tname)
        rep.require(ti, f"template of {c.name}")
        for req in (True, False):
            # identifiers in type strings of this kind for this requiredness
            tstrings: set[str] = set()
            for mname in ("get_type_string", "get_base_type_string", "get_base_json_type_string", "get_instance_type_string"):
                m = ix.find_method(c, mname)
                if m is not None:
                    for no_opt in (False, True):
                        tstrings |= sc.collect(m, c, {"self.required": req, "no_optional": no_opt})
            for cvn in ("_type_string", "_json_type_string"):
                v = ix.const_str(*_cv(ix, c, cvn))
                if v:
                    tstrings.add(v)
            type_ids = set()
            for s_ in tstrings:
                type_ids |= {m_.group(0) for m_ in re.finditer(r"(?<![\w.])[^\W\d]\w*", s_.replace("\x00", " "))}
            for host in ("model", "endpoint"):
                used = set(type_ids)
                for mn in macro_sets[host]:
                    srcs = [ti]
                    if mn == "construct" and "construct_function" in ti.macros:
                        srcs.append(shared)  # construct_template
                    for src_t in srcs:
                        for mm in ([mn] if src_t is ti else ["construct_template"]):
                            m2 = src_t.macros.get(mm)
                            if m2 is None:
                                continue
                            sdefs = _set_defs(src_t.tree)
                            for fr in tplq.frags(m2.body):
                                if fr.kind != "data":
                                    continue
                                if fr.guard_nodes and sdefs:  # a condition named by a `set` variable is the condition it is set to
                                    fr = replace(fr, guard_nodes=tuple(_tsubst(g_, sdefs) for g_ in fr.guard_nodes))
                                names_ = tplq.guard_atoms(fr)
                                # 'Unset' in get_type_strings_in_union(...)  <=>  not required (R10.1 decides that equivalence)
                                unset_atoms = [a for a in names_ if "'Unset' in property.get_type_strings_in_union" in a]
                                if "property.required" in names_ or unset_atoms:
                                    def consistent(e: dict) -> bool:
                                        if "property.required" in e and e["property.required"] != req:
                                            return False
                                        return all(e[a] == (not req) for a in unset_atoms)
                                    if not any(tplq.guard_holds(fr, e) for e in tplq.assignments(names_) if consistent(e)):
                                        continue
                                used |= _idents(fr.text)
                if host == "endpoint" and not req:
                    used |= {"Unset"}  # guarded_statement
                need = (used & universe)
                have = hdr[host] | kind_imports[(c.name, req)]
                # lazily imported classes and check_ helpers are holes, handled by R01.1b / R01.2
                missing = sorted(need - have)
                n_ob += 1
                rep.check(not missing, "R01.1", f"{c.name}[required={req}]@{host}",
                          f"generated {host} modules using a {'required' if req else 'optional'} {c.name} refer to {missing} without importing "
                          "it (NameError at import or call time)", where=f"{c.module.rel}:{c.node.lineno}", lhs=sorted(need), rhs=sorted(have & need))
    rep.floor("import_closure_obligations", n_ob, 32)

    # ---- R01.1b --------------------------------------------------------------------------------------------------------------
    _check_helper_name(rep, ctx)

    # ---- R01.2 ---------------------------------------------------------------------------------------------------------------
    _lazy_imports_placed(rep, ctx, mt)

    # ---- R01.3 -----------------------------------------------------------------------------------------------------------------
    ts = ix.find_method(proto, "to_string")
    rep.require(ts, "PropertyProtocol.to_string")
    calls = [(g, c_) for g in region(ix, ts) for c_ in ast.walk(g.node) if isinstance(c_, ast.Call) and norm(c_.func) == "self.get_type_string"]

    def _is_true(g: Any, c_: ast.Call) -> bool:
        v = next((k.value for k in c_.keywords if k.arg == "quoted"), None)
        if isinstance(v, ast.Name):
            v = _once_bound(g.node).get(v.id, v)
        return isinstance(v, ast.Constant) and v.value is True

    rep.check(bool(calls) and all(_is_true(g, c_) for g, c_ in calls),
              "R01.3", "PropertyProtocol.to_string::quoted", "attribute declarations use unquoted type strings: a lazily imported model class in a "
              "class-level annotation raises NameError at import", where(ts, ts.node))
    # the annotation of additional properties, however the template names it or its parts: every place that asks the additional
    # property for its type string passes `quoted` = not a base type (or plainly true)
    # (in whichever template - model.py.jinja, a partial it includes, a helper whose macro it expands - the question is asked)
    apt: list[tuple[nodes.Call, dict]] = []
    for _tn, ti_ in sorted(jx.templates.items()):
        mdefs = _set_defs(ti_.tree)
        apt += [(c_, mdefs) for c_ in ti_.tree.find_all(nodes.Call) if expr_text(_tsubst(c_.node, mdefs)) == "model.additional_properties.get_type_string"]
    rep.require(apt, "a template expression that asks model.additional_properties for its type string")
    q_ok = {"(not model.additional_properties.is_base_type)", "True"}
    rep.check(all(any(k.key == "quoted" and expr_text(_tsubst(k.value, mdefs)) in q_ok for k in a_.kwargs) for a_, mdefs in apt), "R01.3",
              "model.py.jinja::additional_property_type::quoted", "the additional-properties annotation is not quoted for non-base types",
              where=f"{PKG}/templates/model.py.jinja")
    # quoted=True puts the class name between quotes: on the paths of ModelProperty.get_type_string taken with quoted=True a text that begins
    # and ends with a single quote around a computed part is built (f-string, str.format or concatenation with a lone quote), whatever the
    # shape of the decision
    mpc = ix.cls("ModelProperty")
    mp = ix.find_method(mpc, "get_type_string")
    rep.require(mp, "ModelProperty.get_type_string")
    quoting = [s_ for s_ in sc.collect(mp, mpc, {"quoted": True})
               if s_ == "'" or (len(s_) >= 3 and s_[0] == "'" and s_[-1] == "'" and ("\x00" in s_ or _FIELD.search(s_) or "%s" in s_))]
    rep.check(bool(quoting), "R01.3", "ModelProperty.get_type_string::quotes-class-name",
              "quoted=True no longer quotes the class name", where(mp, mp.node))

    # ---- R01.4 -------------------------------------------------------------------------------------------------------------------
    # (loop variables are canonical: the variable of `for x in ITER` reads `ITER[*]`, see sa/jinja_canon.py)
    # The class body declares its attributes in passes: runs of a loop over the attributes that emit `<element>.to_string()` (in place or
    # through a macro of the template the element is handed to), each under a condition on the element.  An attribute is declared
    # without `= ...` exactly when it is required and has no default.  However many passes there are, however they are brought about (two
    # loops one after the other; one loop inside a loop over a literal tuple of constants, which is that loop written out once per
    # constant; a macro expanded twice with different arguments) and however their conditions are written: every attribute falls into
    # exactly one pass, no pass can hold both an attribute without and one with a default (within a pass the order is the list's), and
    # no pass that can hold one with a default precedes a pass that can hold one without.  Conditions are compared as truth tables over
    # their atoms (and / or / not / conditional expressions / == and != between boolean-valued operands), the element spelled `•`.
    decl = _declaration_passes(mt, jx)
    rep.require(bool(decl), "the loops of model.py.jinja (its macros, partials) that declare the attributes: `<element>.to_string()` written in a loop")
    if decl:
        def rel(p_: dict, atom: str) -> str:
            return atom.replace(p_["elem"], "•") if p_["elem"] else atom

        # the elements of a pass are properties (the domain is required below to be the model's property lists): an attribute that every
        # property class which declares it declares as `bool` can only be True or False
        by_attr: dict[str, set[str]] = {}
        for k in [proto, *ix.property_classes()]:
            for a_, ann in k.fields.items():
                by_attr.setdefault(a_, set()).add(norm(ann) if ann is not None else "")
        bool_attrs = {a_ for a_, ts_ in by_attr.items() if ts_ == {"bool"}}
        elems = {p_["elem"] for p_ in decl if p_["elem"]}
        cond = Cond(lambda n: isinstance(n, nodes.Getattr) and isinstance(n.node, nodes.Name) and n.node.name in elems and n.attr in bool_attrs)

        def site_atoms(p_: dict, site: tuple) -> list[str]:
            return [rel(p_, a_) for t_, _ in site for a_ in cond.atoms(t_)]

        def site_holds(p_: dict, site: tuple, env: dict[str, bool]) -> bool:
            return all(cond.holds(t_, lambda a_: env[rel(p_, a_)]) == pol for t_, pol in site)

        names_ = sorted({a_ for p_ in decl for site in p_["sites"] for a_ in site_atoms(p_, site)})
        rep.require(len(names_) <= 12, "declaration conditions over at most 12 atoms")
        may: list[set[bool]] = [set() for _ in decl]  # per pass: can it hold an attribute without default (True) / with one (False)
        partition = True
        for env in tplq.assignments(names_):
            n_decl = 0
            nd = env.get("•.default is none", False) and env.get("•.required", False)
            for i_, p_ in enumerate(decl):
                k_ = sum(site_holds(p_, site, env) for site in p_["sites"])
                n_decl += k_
                if k_:
                    may[i_].add(nd)
            if n_decl != 1:
                partition = False  # an attribute declared twice or not at all
        pure = all(len(m_) == 1 for m_ in may)
        kinds = [next(iter(m_)) for m_ in may if len(m_) == 1]
        ordered = pure and kinds == sorted(kinds, reverse=True)  # every pass without defaults before every pass with defaults
        # one list, run through by every pass (whatever the list is called: what is asked is that each of its elements is declared once)
        same_dom = len({p_["domain"] for p_ in decl}) == 1 and not any(p_["nested"] for p_ in decl)
        rep.check(partition and ordered and same_dom, "R01.4", "model.py.jinja::declaration-order",
                  "attributes without a default are not all declared before attributes with one (attrs raises 'No mandatory attributes allowed "
                  "after an attribute with a default value' at import)", where=f"{PKG}/templates/model.py.jinja:{decl[0]['line']}",
                  lhs=[[[("" if pol else "not ") + rel(p_, expr_text(t_)) for t_, pol in site] for site in p_["sites"]] for p_ in decl],
                  rhs="passes partition the attributes; (default is none and required) first, the rest after")
    # parameter lists (the text around a `*,` separator): see _parameter_lists
    _parameter_lists(rep, ctx)
    # ---- R01.5 ---------------------------------------------------------------------------------------------------------------------
    rep.check(not ji.neutrality, "R01.5", "templates::lexically-neutral-blocks", f"some template block changes the lexical state: {list(ji.neutrality.values())[:2]}",
              where="", lhs=len(ji.neutrality), rhs=0)
    for k, msg in sorted(ji.neutrality.items()):
        rep.fail("R01.5", f"{k[0]}::{k[1]}::{k[2]}", msg, where=f"{PKG}/templates/{k[0]}")
    n_py = 0
    for name, st in sorted(ji.top_states.items()):
        n_py += 1
        rep.check(st in (LX.CODE, LX.INERT, LX.COMMENT), "R01.5", f"{name}::ends-in-code", f"template ends inside {st}", where=f"{PKG}/templates/{name}")
    rep.floor("rendered_templates", n_py, 8)
    for e in ji.emissions.values():
        if ("STR1" in e.kind) and re.search(r"\|(wordwrap|indent|center)\b", e.expr):
            rep.fail("R01.5", f"{e.template}::{e.macro}::{e.expr}", "a newline-inserting filter is applied inside a single-line string literal",
                     where=f"{PKG}/templates/{e.template}:{e.line}")
    # the closing delimiter of a triple-quoted literal: a hole directly in front of it (no padding, or padding stripped by whitespace
    # control) lets the LAST character of the text meet the delimiter - a quote makes it four quotes, a backslash escapes its first
    # quote - so the text there must be the generator's own (literals, sanitised names, numbers, configuration) or escaped for both
    n_tq = 0
    glued: list[str] = []
    for e in sorted(ji.emissions.values(), key=lambda e_: (e_.template, e_.macro, e_.expr, e_.kind)):
        if "STR3" not in e.kind or not e.labels:
            continue
        n_tq += 1
        q = e.kind[-1]
        loose = sorted(l for l in e.labels if l not in _OWN_TEXT and not (is_esc(l) and {q, "\\"} <= set(l[len(ESC):])))
        if not e.follow_ok and loose:
            glued.append(f"{e.template}:{e.line}")
            rep.fail("R01.5", f"{e.template}::{e.macro}::{e.expr}::closing-delimiter@{e.kind}",
                     f"text labelled {loose} is emitted directly before the closing {q * 3}: a text that ends in {q} or in a backslash leaves the "
                     "literal unterminated (SyntaxError, the module cannot be imported)", where=f"{PKG}/templates/{e.template}:{e.line}",
                     lhs=sorted(e.labels), rhs=f"padding before the delimiter, or text escaped for {q} and backslash")
    rep.check(not glued, "R01.5", "templates::triple-quoted::closing-delimiter-padded", f"document text directly before a closing triple quote: {glued[:3]}",
              where="", lhs=len(glued), rhs=0)
    rep.floor("triple_quoted_holes", n_tq, 10)
    # ---- R01.6 ------------------------------------------------------------------------------------------------------------------------
    for dk, d in sorted(ji.dispatches.items(), key=lambda kv: (kv[1].template, kv[1].macro, kv[1].expr)):
        rep.check(not d.missing_in, "R01.6", f"{d.template}::{d.macro}::{d.alias}.{d.attr}",
                  f"`{d.alias}.{d.attr}(...)` unguarded but missing in {sorted(set(d.missing_in))}: the module is never written",
                  where=f"{PKG}/templates/{d.template}:{d.line}")
    # ---- R01.7 --------------------------------------------------------------------------------------------------------------------------
    ch = ctx.chars
    t = ctx.tables
    us = 1 << ord("_")
    lead = S(t.ALL, us, False)
    f = ix.func("PythonIdentifier.__new__")
    for mode in (False, True):
        out, paths = ch.run_function(f, {"value": lead, "prefix": ch.PREFIX, "cls": None, "skip_snake_case": mode})
        rep.require(isinstance(out, S), "E6 result")
        rep.check(not (out.first & us), "R01.7", f"PythonIdentifier[{'raw' if mode else 'snake'}]::leading-underscore-input",
                  "a document name starting with '_' can yield a python name starting with '_': attrs strips the underscore for __init__, so "
                  "`_id` next to `id` becomes a duplicate argument (SyntaxError at import)", where=f"{f.module.rel}:{f.node.lineno}",
                  lhs="first characters of the result for inputs starting with '_' (E6)", rhs="never '_'")
    # ---- R01.8 --------------------------------------------------------------------------------------------------------------------------
    # two parameters of one operation with the same python name are a `duplicate argument` SyntaxError in every function of the endpoint
    # module: a rename is only final once the renamed name has been compared again
    _renames_rechecked(rep, ctx)
    # ---- R01.9 --------------------------------------------------------------------------------------------------------------------------
    _rebuilt_from_empty(rep, ctx)
    # ---- R01.10 -------------------------------------------------------------------------------------------------------------------------
    _dependants_handed_down(rep, ctx)
    rep.not_decided += ["syntactic validity of the composition of fragments for every document; validity of pyproject.toml beyond its string contexts"]
    # ---- R01.11 -------------------------------------------------------------------------------------------------------------------------
    from .glue import check as keyword_glue

    keyword_glue(rep, ctx, "R01.11")
    # ---- R01.12 -------------------------------------------------------------------------------------------------------------------------
    _names_bound(rep, ctx, universe)
    # ---- R01.13 -------------------------------------------------------------------------------------------------------------------------
    _imports_conserved(rep, ctx)
    # ---- R01.14 -------------------------------------------------------------------------------------------------------------------------
    _sibling_modules_named_as_written(rep, ctx)
    return LEVEL


# ---- R01.13 ---------------------------------------------------------------------------------------------------------------------------
# R01.1 decides that the import lines a kind's get_imports / get_lazy_imports returns cover the names its generated code uses.  That is
# worth what reaches the host module: between those methods and the template loop that prints the host's import set, the lines are
# collected (update, |=, union, copies) and must not be lost.  The one line a host may drop is the import of its own module (the class
# is defined there).  Stated for every function of the package and every template: a value that holds import lines - the result of
# get_imports / get_lazy_imports, the attributes and parameters relative_imports / lazy_imports, locals made from them - is never
# narrowed (set difference / intersection, discard / remove / pop / clear, a comprehension, loop or filter() with a condition on the
# line, a template filter other than an ordering one, a loop filter) by anything but a test against the host's `self_import`.
_IMPORT_SOURCES = ("get_imports", "get_lazy_imports")
_IMPORT_SLOTS = ("relative_imports", "lazy_imports")
_SAME_LINES = ("set", "frozenset", "list", "tuple", "sorted", "copy", "union", "chain")
_NARROWING_CALLS = ("difference", "difference_update", "intersection", "intersection_update", "symmetric_difference",
                    "symmetric_difference_update", "discard", "remove", "pop", "clear")
_OWN_MODULE = "self_import"


def _imports_conserved(rep: Report, ctx: Any) -> None:
    from ..astutil import bool_atoms

    rep.rule("R01.13", "import lines are conserved: between get_imports / get_lazy_imports and the template loop that prints a host's "
                       "relative_imports / lazy_imports, a set of import lines is only ever narrowed by the test against the host's own "
                       "module (self_import); templates print the sets through ordering filters only")
    ix, jx = ctx.py, ctx.jinja
    n_flows = 0
    for g in ix.all_functions:
        if g.parent is not None:
            continue  # (a nested function is part of the function it stands in: it reads that function's locals)
        fn = g.node
        lc = Locals(fn)
        held = {a.arg for x in ast.walk(fn) if isinstance(x, (ast.FunctionDef, ast.AsyncFunctionDef, ast.Lambda))
                for a in [*x.args.posonlyargs, *x.args.args, *x.args.kwonlyargs] if a.arg in _IMPORT_SLOTS}

        def lines(e: "ast.AST | None", depth: int = 0) -> bool:
            """e is a collection of import lines"""
            if e is None or depth > 6:
                return False
            if isinstance(e, ast.Name):
                return e.id in held
            if isinstance(e, ast.Attribute):
                return e.attr in _IMPORT_SLOTS
            if isinstance(e, ast.Call):
                last = call_name(e).rsplit(".", 1)[-1]
                if last in _IMPORT_SOURCES:
                    return True
                if last in _SAME_LINES or last in _NARROWING_CALLS:
                    recv = [e.func.value] if isinstance(e.func, ast.Attribute) else []
                    return any(lines(a.value if isinstance(a, ast.Starred) else a, depth + 1) for a in [*recv, *e.args])
                return False
            if isinstance(e, ast.BinOp):
                return lines(e.left, depth + 1) or (isinstance(e.op, (ast.BitOr, ast.BitAnd, ast.BitXor)) and lines(e.right, depth + 1))
            if isinstance(e, ast.IfExp):
                return lines(e.body, depth + 1) or lines(e.orelse, depth + 1)
            if isinstance(e, ast.BoolOp):
                return any(lines(v, depth + 1) for v in e.values)
            if isinstance(e, (ast.SetComp, ast.ListComp, ast.GeneratorExp)):
                return isinstance(e.elt, ast.Name) and any(lines(c.iter, depth + 1) and isinstance(c.target, ast.Name) and c.target.id == e.elt.id
                                                           for c in e.generators)
            if isinstance(e, (ast.Set, ast.List, ast.Tuple)):
                return any(isinstance(x, ast.Starred) and lines(x.value, depth + 1) for x in e.elts)
            return False

        for _ in range(4):  # locals made from import lines, or that import lines are added to
            more = {n for n, ds in lc.defs.items() if n not in held and any(not k.startswith("for") and lines(v) for k, _, v in ds)}
            more |= {r for attr in ("update", "extend") for r, c_ in receivers(fn, attr) if r.isidentifier() and r not in held
                     and any(lines(a) for a in c_.args)}
            if not more:
                break
            held |= more
        if not (held or any(isinstance(x, ast.Call) and call_name(x).rsplit(".", 1)[-1] in _IMPORT_SOURCES for x in ast.walk(fn))
                or any(isinstance(x, ast.Attribute) and x.attr in _IMPORT_SLOTS for x in ast.walk(fn))):
            continue
        n_flows += 1
        ln = local_names(fn)

        def own_module_only(tests: list[ast.AST]) -> bool:
            """every condition the decision consists of is a test against the host's own module"""
            atoms = [a for t in tests for a in bool_atoms(t)]
            return bool(atoms) and all(_OWN_MODULE in a for a in atoms)

        lost: list[tuple[ast.AST, str]] = []
        for x in ast.walk(fn):
            if isinstance(x, ast.BinOp) and isinstance(x.op, (ast.Sub, ast.BitAnd, ast.BitXor)) and \
                    (lines(x.left) or (not isinstance(x.op, ast.Sub) and lines(x.right))):
                lost.append((x, "difference"))
            elif isinstance(x, ast.AugAssign) and isinstance(x.op, (ast.Sub, ast.BitAnd, ast.BitXor)) and lines(x.target):
                lost.append((x, "difference"))
            elif isinstance(x, ast.Call) and isinstance(x.func, ast.Attribute) and x.func.attr in _NARROWING_CALLS and lines(x.func.value):
                lost.append((x, x.func.attr))
            elif isinstance(x, ast.Call) and call_name(x) in ("filter", "itertools.filterfalse", "filterfalse") and len(x.args) == 2 and lines(x.args[1]):
                if not (isinstance(x.args[0], ast.Lambda) and own_module_only([x.args[0].body])):
                    lost.append((x, "filter"))
            elif isinstance(x, (ast.SetComp, ast.ListComp, ast.GeneratorExp, ast.DictComp)):
                for c in x.generators:
                    if lines(c.iter) and c.ifs and not own_module_only(list(c.ifs)):
                        lost.append((x, "comprehension-filter"))
            elif isinstance(x, (ast.For, ast.AsyncFor)) and lines(x.iter) and isinstance(x.target, ast.Name):
                el = x.target.id
                for t in [y for b_ in x.body for y in ast.walk(b_) if isinstance(y, ast.If) and el in names_in(y.test)]:
                    inner = [z for b_ in [*t.body, *t.orelse] for z in ast.walk(b_)]
                    selects = any(isinstance(z, ast.Continue) for z in inner) or any(
                        isinstance(z, ast.Call) and isinstance(z.func, ast.Attribute) and z.func.attr in ("add", "append") and
                        any(isinstance(a, ast.Name) and a.id == el for a in z.args) for z in inner)
                    if selects and not own_module_only([t.test]):
                        lost.append((t, "loop-filter"))
        for x, how in lost:
            rep.fail("R01.13", f"{short(g)}::{how}->{anon(x, ln)[:70]}",
                     "import lines that a property's get_imports / get_lazy_imports contributed are removed on their way to the host module by "
                     "something other than the test against the host's own module: a name the generated code uses is no longer imported "
                     "(NameError / ImportError in the generated module)", where(g, x), lhs=norm(x)[:120],
                     rhs=f"import lines only collected; dropped only by a test against {_OWN_MODULE}")
        if not lost:
            rep.check(True, "R01.13", f"{short(g)}::import-lines-kept", "", where(g, fn))
    rep.floor("functions_handling_import_lines", n_flows, 6)

    n_loops = 0
    for tn_, ti_ in sorted(jx.templates.items()):
        for lp in ti_.tree.find_all(nodes.For):
            flt = [x for x in [lp.iter, *lp.iter.find_all(nodes.Filter)] if isinstance(x, nodes.Filter)]
            base = lp.iter
            while isinstance(base, nodes.Filter) and base.node is not None:
                base = base.node
            if not (isinstance(base, nodes.Getattr) and base.attr in _IMPORT_SLOTS):
                continue
            n_loops += 1
            bad = sorted({x.name for x in flt if x.name not in _ORDER_ONLY}) + (["loop filter"] if lp.test is not None else [])
            rep.check(not bad, "R01.13", f"{tn_}::for {_domain(lp.iter)}::all-lines-printed",
                      f"the loop that prints the import lines of the host leaves some out ({bad})", where=f"{PKG}/templates/{tn_}:{lp.lineno}",
                      lhs=expr_text(lp.iter), rhs="ordering filters only, no loop filter")
    rep.floor("import_line_loops", n_loops, 3)


# ---- R01.14 ---------------------------------------------------------------------------------------------------------------------------
# A module of the generated package exists under the name the builder writes it: the stem expression E of a path `<dir> / f"{E}.py"`
# in the module that writes the tree (PythonIdentifier(endpoint.name, prefix), <model>.class_info.module_name).  Template text that
# imports a sibling module through a hole (`from . import {{ H }}`, `from .{{ H }} import ...`, `from .pkg.{{ H }} import`) refers
# to a file only when H is the same derivation: the same function of the same field of the element.  Both sides are brought to one
# spelling - the element at hand is `_`; functions the environment offers to templates under another name (globals bound to a lambda,
# TEMPLATE_FILTERS) are the functions they stand for; `utils.` / `self.` qualification dropped - and compared.  (That the element
# ranges over the same collection as the loop that writes the files is not compared.)
_MODULE_HOLE = re.compile(r"(?:^|\n)[ \t]*(?:from[ \t]+\.+(?:\w+\.)*|from[ \t]+\.+[ \t]+import[ \t]+(?:\w+[ \t]*,[ \t]*)*)$")


def _sibling_modules_named_as_written(rep: Report, ctx: Any) -> None:
    import copy

    rep.rule("R01.14", "a sibling module that template text imports through a hole is named by the derivation under which the builder "
                       "writes a module file (the stem of a path `<dir> / f\"{E}.py\"`): same function of the same field")
    ix, jx = ctx.py, ctx.jinja
    proj = ix.cls("Project")
    writer_mod = proj.module

    class Canon(ast.NodeTransformer):
        def __init__(self, local: set[str], once: dict[str, ast.AST], depth: int = 0) -> None:
            self.local, self.once, self.depth = local, once, depth

        def visit_Name(self, n: ast.Name) -> ast.AST:
            if n.id in self.once and self.depth < 4:
                return Canon(self.local, self.once, self.depth + 1).visit(copy.deepcopy(self.once[n.id]))
            return ast.Name(id="_", ctx=ast.Load()) if n.id in self.local else n

        def visit_Attribute(self, n: ast.Attribute) -> ast.AST:
            if isinstance(n.value, ast.Name) and n.value.id in ("utils", "self") and n.value.id not in self.local:
                return ast.Name(id=n.attr, ctx=ast.Load())
            return self.generic_visit(n)

    def canon(e: ast.AST, local: set[str], once: dict[str, ast.AST]) -> str:
        return ast.unparse(ast.fix_missing_locations(Canon(local, once).visit(copy.deepcopy(e))))

    # the stems under which modules are written
    stems: dict[str, str] = {}
    for g in ix.all_functions:
        if g.module is not writer_mod or g.parent is not None:
            continue
        once, local = _once_bound(g.node), local_names(g.node)
        for n in ast.walk(g.node):
            if isinstance(n, ast.BinOp) and isinstance(n.op, ast.Div):
                r = n.right
                for _ in range(3):
                    if isinstance(r, ast.Name) and r.id in once:
                        r = once[r.id]
                if isinstance(r, ast.JoinedStr) and len(r.values) == 2 and isinstance(r.values[0], ast.FormattedValue) and \
                        isinstance(r.values[1], ast.Constant) and r.values[1].value == ".py":
                    stems.setdefault(canon(r.values[0].value, local, once), where(g, n))
    rep.require(stems, "the paths `<dir> / f\"{E}.py\"` under which the builder writes document-named modules")
    rep.floor("module_stem_derivations", len(stems), 2)

    # what the environment offers to templates under a name of its own
    offered: dict[str, tuple[list[str], ast.AST]] = {}
    for g in ix.all_functions:
        if g.module is not writer_mod:
            continue
        for c_ in ast.walk(g.node):
            if isinstance(c_, ast.Call) and isinstance(c_.func, ast.Attribute) and c_.func.attr == "update" and norm(c_.func.value).endswith("globals"):
                for k in c_.keywords:
                    if k.arg and isinstance(k.value, ast.Lambda):
                        offered[k.arg] = ([a.arg for a in k.value.args.args], k.value.body)
    filters: dict[str, str] = {}
    for st in writer_mod.tree.body:
        if isinstance(st, (ast.Assign, ast.AnnAssign)) and isinstance(st.value, ast.Dict) and "FILTERS" in norm(st.targets[0] if isinstance(st, ast.Assign) else st.target):
            for k, v in zip(st.value.keys, st.value.values):
                if isinstance(k, ast.Constant) and isinstance(k.value, str):
                    filters[k.value] = canon(v, set(), {})

    def tpl(n: nodes.Node) -> str:
        """the hole as a Python expression of the element at hand"""
        if isinstance(n, nodes.Name):
            return n.name if n.name in ("config", "utils") or n.name in offered else "_"
        if isinstance(n, nodes.Const):
            return repr(n.value)
        if isinstance(n, nodes.Getattr):
            inner = tpl(n.node)
            return n.attr if inner in ("utils",) else f"{inner}.{n.attr}"
        if isinstance(n, nodes.Filter) and n.node is not None and n.name in filters and not n.args and not n.kwargs:
            return f"{filters[n.name]}({tpl(n.node)})"
        if isinstance(n, nodes.Call) and not n.kwargs and not n.dyn_args and not n.dyn_kwargs:
            args = [tpl(a) for a in n.args]
            if isinstance(n.node, nodes.Name) and n.node.name in offered and len(offered[n.node.name][0]) == len(args):
                params, body = offered[n.node.name]
                try:
                    binding = {p_: ast.parse(a, mode="eval").body for p_, a in zip(params, args)}
                except SyntaxError:
                    return expr_text(n)
                return canon(body, set(), binding)
            return f"{tpl(n.node)}({', '.join(args)})"
        return expr_text(n)

    n_holes = 0
    for tn_, ti_ in sorted(jx.templates.items()):
        if not tn_.endswith(".py.jinja"):
            continue
        for mname_, body_ in [("<top>", ti_.tree.body)] + [(m_.name, m_.body) for m_ in ti_.macros.values()]:
            before = ""
            for fr in tplq.frags(body_):
                if fr.kind == "data":
                    before = (before + fr.text)[-200:]
                    continue
                if _MODULE_HOLE.search(before):
                    n_holes += 1
                    got = tpl(fr.node)
                    rep.check(got in stems, "R01.14", f"{tn_}::{mname_}::module<-{fr.text[:60]}",
                              "template text imports a sibling module under a name that is not derived the way the builder names the files it "
                              "writes: for names the two derivations treat differently (reserved words, leading digits / underscores) the "
                              "import names a module that does not exist or is not an identifier (ImportError / SyntaxError)",
                              where=f"{PKG}/templates/{tn_}:{fr.line}", lhs=got, rhs=sorted(stems))
                before = (before + "\x00")[-200:]
    rep.floor("module_holes_in_template_imports", n_holes, 0)  # (none today: the import lines with module names are composed in Python)


# ---- R01.4, parameter lists ------------------------------------------------------------------------------------------------------------
# A parameter list is the bracket group (or the whole macro body, when the brackets are written by the caller) in which the separator
# `*,` is written.  What Python asks of it: among the parameters that are positional - those before the separator, and ALL of them on
# a rendering on which the separator is not written - none without a default follows one with a default; and a separator that is
# written is followed by a parameter.  Which parameters are written depends on the rendering: on how many elements each collection
# has that the list loops over or asks the length of (0, 1, 2: two elements of one collection are enough to be out of order) and on
# the conditions it tests.  The list is therefore rendered for every such assignment - loops as many times as their collection is
# long, conditions evaluated (`|length`, comparisons of lengths, truth of a collection, and / or / not; the length of what a method
# of the package returns as a concatenation of its object's collections is the sum of theirs; anything else is a free atom) - and each
# rendering is cut at the commas of the group.  A parameter written as `<element>.to_string()` carries whatever default the document
# gives it (may or may not have one), a parameter written as text has one exactly when the text has a `=`.
_LEN_FILTERS = ("length", "count")


class _Len(int):
    """the number of elements of a collection"""


class _ListEval:
    def __init__(self, ix: Any, defs: "dict[str, list[nodes.Node]] | None" = None) -> None:
        self.ix = ix
        self.defs = defs or {}  # template-local names and what they are `set` to
        self.colls: list[str] = []
        self.atoms: list[str] = []
        self.unresolved: list[str] = []
        self.env: dict[str, Any] = {}
        self.recording = True
        self._concat: dict[str, "list[str] | None"] = {}

    def _coll(self, key: str) -> _Len:
        if key not in self.colls:
            self.colls.append(key)
        return _Len(self.env.get(key, 0))

    def _atom(self, key: str) -> bool:
        if key not in self.atoms:
            self.atoms.append(key)
        return bool(self.env.get(key, False))

    def parts_of(self, name: str) -> "list[str] | None":
        """attributes of its object whose concatenation the method (or property) `name` of the package returns: [] when there is no such
        method, None when there is one and its result is not such a concatenation"""
        if name in self._concat:
            return self._concat[name]
        fs = [f for f in self.ix.all_functions if f.name == name and f.cls is not None]
        got: "list[str] | None" = []
        if fs:
            alts = [_concat_parts(self.ix, f) for f in fs]
            got = alts[0] if all(a is not None and a == alts[0] for a in alts) else None
        self._concat[name] = got
        return got

    def seq(self, n: nodes.Node) -> _Len:
        """the length of an iterable"""
        n = self._defined(n)
        while isinstance(n, nodes.Filter) and n.name in _ORDER_ONLY and n.node is not None and not n.args:
            n = self._defined(n.node)
        if isinstance(n, nodes.Add):
            return _Len(self.seq(n.left) + self.seq(n.right))
        if isinstance(n, (nodes.List, nodes.Tuple)):
            return _Len(len(n.items))
        recv, name = None, None
        if isinstance(n, nodes.Call) and isinstance(n.node, nodes.Getattr) and not (n.args or n.kwargs or n.dyn_args or n.dyn_kwargs):
            recv, name = n.node.node, n.node.attr
        elif isinstance(n, nodes.Getattr):
            recv, name = n.node, n.attr
        if name is not None:
            parts = self.parts_of(name)
            if parts is None:
                if expr_text(n) not in self.unresolved:
                    self.unresolved.append(expr_text(n))
            elif parts:
                r = _unparen(expr_text(recv))
                return _Len(sum(self._coll(f"{r}.{a}") for a in parts))
        return self._coll(_domain_text(expr_text(n)))

    def _defined(self, n: nodes.Node, depth: int = 0) -> nodes.Node:
        """a variable that is `set` once reads as what it is set to"""
        while isinstance(n, nodes.Name) and depth < 6:
            ds = self.defs.get(n.name, [])
            if len(ds) != 1 or not isinstance(ds[0], nodes.Expr):
                break
            n, depth = ds[0], depth + 1
        return n

    def is_seq(self, n: nodes.Node) -> bool:
        n = self._defined(n)
        if isinstance(n, (nodes.Add, nodes.List, nodes.Tuple)):
            return True
        if isinstance(n, nodes.Filter) and n.name in _ORDER_ONLY and n.node is not None:
            return self.is_seq(n.node)
        if isinstance(n, nodes.Call) and isinstance(n.node, nodes.Getattr):
            return bool(self.parts_of(n.node.attr))
        return _domain_text(expr_text(n)) in self.colls or (isinstance(n, nodes.Getattr) and bool(self.parts_of(n.attr)))

    def val(self, n: nodes.Node) -> Any:
        n = self._defined(n)
        if isinstance(n, nodes.Const):
            return n.value
        if isinstance(n, nodes.Not):
            return not self.val(n.node)
        if isinstance(n, (nodes.And, nodes.Or)):
            l = self.val(n.left)
            if self.recording or bool(l) == isinstance(n, nodes.And):  # (while the atoms are being collected: both operands)
                r = self.val(n.right)
                return r if bool(l) == isinstance(n, nodes.And) else l
            return l
        if isinstance(n, nodes.CondExpr):
            c = self.val(n.test)
            a, b = self.val(n.expr1), (self.val(n.expr2) if n.expr2 is not None else None)
            return a if c else b
        if isinstance(n, nodes.Filter) and n.name in _LEN_FILTERS and n.node is not None:
            return int(self.seq(n.node))
        if isinstance(n, nodes.Compare) and len(n.ops) == 1:
            l, r = self.val(n.expr), self.val(n.ops[0].expr)
            num = lambda x: isinstance(x, int) and not isinstance(x, bool)  # noqa: E731
            if num(l) and num(r):
                op = n.ops[0].op
                return {"eq": l == r, "ne": l != r, "gt": l > r, "gteq": l >= r, "lt": l < r, "lteq": l <= r}.get(op, False)
            return self._atom(_unparen(expr_text(n)))
        if self.is_seq(n):
            return self.seq(n)
        return self._atom(_unparen(expr_text(n)))


def _concat_parts(ix: Any, f: Any, nested: bool = False, level: int = 0) -> "list[str] | None":
    """[X, Y, ...] when the method returns, on its only path, a list with one element per element of self.X, of self.Y, ... (nested: a
    collection whose members are self.X, self.Y, ... themselves); else None.  Written as a concatenation, a display with starred
    parts, a comprehension that keeps every element, a chain over the collections or over the values of a table of them - in the
    method or in a helper method of the class that it calls."""
    fn = f.node
    own = list(ast.walk(fn))
    rets = [n for n in own if isinstance(n, ast.Return)]
    if len(rets) != 1 or rets[0].value is None or level > 3 or \
            any(isinstance(n, (ast.If, ast.For, ast.While, ast.Try, ast.FunctionDef, ast.Lambda)) and n is not fn for n in own):
        return None
    once = _once_bound(fn)

    def helper(e: ast.AST, want_nested: bool) -> "list[str] | None":
        if isinstance(e, ast.Call) and isinstance(e.func, ast.Attribute) and isinstance(e.func.value, ast.Name) and e.func.value.id == "self" \
                and not e.args and not e.keywords and f.cls is not None:
            m = ix.find_method(f.cls, e.func.attr)
            if m is not None and m != f:
                return _concat_parts(ix, m, want_nested, level + 1)
        return None

    def colls(e: ast.AST, depth: int = 0) -> "list[str] | None":
        """e is a collection of the collections self.X, ..."""
        if isinstance(e, ast.Name) and e.id in once and depth < 6:
            return colls(once[e.id], depth + 1)
        if isinstance(e, (ast.List, ast.Tuple)) or (isinstance(e, ast.Dict) and None not in e.keys):
            out: list[str] = []
            for x in (e.values if isinstance(e, ast.Dict) else e.elts):
                if not (isinstance(x, ast.Attribute) and isinstance(x.value, ast.Name) and x.value.id == "self"):
                    return None
                out.append(x.attr)
            return out
        if isinstance(e, ast.Call) and isinstance(e.func, ast.Attribute) and e.func.attr == "values" and not e.args and not e.keywords:
            return colls(e.func.value, depth)  # (a table of collections: its values)
        return helper(e, True)

    def parts(e: ast.AST, depth: int = 0) -> "list[str] | None":
        if isinstance(e, ast.Name) and e.id in once and depth < 6:
            return parts(once[e.id], depth + 1)
        if isinstance(e, ast.Attribute) and isinstance(e.value, ast.Name) and e.value.id == "self":
            return [e.attr]
        if isinstance(e, ast.BinOp) and isinstance(e.op, ast.Add):
            l, r = parts(e.left, depth), parts(e.right, depth)
            return None if l is None or r is None else l + r
        if isinstance(e, (ast.List, ast.Tuple)):
            out: list[str] = []
            for x in e.elts:
                got = parts(x.value, depth) if isinstance(x, ast.Starred) else None
                if got is None:
                    return None
                out += got
            return out
        if isinstance(e, (ast.ListComp, ast.GeneratorExp)) and len(e.generators) == 1 and not e.generators[0].ifs:
            return parts(e.generators[0].iter, depth)
        if isinstance(e, ast.Call):
            name = call_name(e)
            if name in ("list", "tuple", "sorted", "reversed") and len(e.args) == 1 and not isinstance(e.args[0], ast.Starred):
                return parts(e.args[0], depth)
            if name.endswith("chain.from_iterable") and len(e.args) == 1 and not e.keywords:
                return colls(e.args[0], depth)
            if name.split(".")[-1] == "chain" and not e.keywords:
                if len(e.args) == 1 and isinstance(e.args[0], ast.Starred):
                    return colls(e.args[0].value, depth)
                out = []
                for x in e.args:
                    got = None if isinstance(x, ast.Starred) else parts(x, depth)
                    if got is None:
                        return None
                    out += got
                return out
            if name == "sum" and len(e.args) == 2 and isinstance(e.args[1], ast.List) and not e.args[1].elts:
                return colls(e.args[0], depth)
            return helper(e, False)
        return None

    return (colls if nested else parts)(rets[0].value)


def _loop_tree(frs: list[tuple[int, Any]], depth: int = 0) -> list[Any]:
    """the fragments grouped by the runs of the loops they stand in: a fragment (index, fragment) or (iterable, [items of the body])"""
    out: list[Any] = []
    i = 0
    while i < len(frs):
        f = frs[i][1]
        if len(f.lids) <= depth:
            out.append(frs[i])
            i += 1
            continue
        j = i
        while j < len(frs) and len(frs[j][1].lids) > depth and frs[j][1].lids[depth] == f.lids[depth]:
            j += 1
        out.append((f.lnodes[depth], _loop_tree(frs[i:j], depth + 1)))
        i = j
    return out


class _Param:
    def __init__(self, idx: int) -> None:
        self.idx, self.text, self.elem, self.eq, self.line = idx, "", None, False, 0

    @property
    def kind(self) -> str:
        t = self.text.strip()
        if self.elem is None and t.startswith("**"):
            return "kw"
        if self.elem is None and t.startswith("*"):
            return "star"
        if self.elem is None and t in ("", "/"):
            return "none"
        if self.elem is not None:
            return "M"  # may or may not carry a default
        return "D" if self.eq else "N"

    @property
    def what(self) -> str:
        if self.elem is not None:
            return self.elem
        m = re.match(r"\s*([^\W\d]\w*)", self.text)
        return m.group(1) if m else self.text.strip()[:20]


class _Group:
    def __init__(self, opened: "tuple[int, int] | None", lo: int) -> None:
        self.opened = opened  # (fragment, offset in it) of the bracket that opens the group; None: the text outside all brackets
        self.lo, self.hi = lo, lo
        self.params: list[_Param] = [_Param(lo)]


def _groups(rendered: list[tuple[int, Any]]) -> list[_Group]:
    """the comma-separated pieces of every bracket group of the text (and of the text outside all brackets), innermost first"""
    done: list[_Group] = []
    first = rendered[0][0] if rendered else 0
    stack: list[_Group] = [_Group(None, first)]
    for idx, f in rendered:
        cur = stack[-1].params[-1]
        if f.kind == "expr":
            if ".to_string()" in f.text:
                cur.elem = _domain_text(f.loops[-1]) if f.loops else f.text
            if not cur.text.strip():
                cur.idx, cur.line = idx, f.line
            cur.text += "\x00"
            continue
        prev = ""
        for off, ch in enumerate(f.text):
            cur = stack[-1].params[-1]
            if not cur.text.strip():
                cur.idx, cur.line = idx, f.line
            if ch in "([{":
                cur.text += ch
                stack.append(_Group((idx, off), idx))
            elif ch in ")]}":
                g = stack.pop()
                g.hi = idx
                done.append(g)
                if not stack:  # (a bracket closed that the text did not open: what came before it was a group of its own)
                    stack.append(_Group(None, idx))
                stack[-1].params[-1].text += ch
            elif ch == ",":
                stack[-1].params.append(_Param(idx))
            else:
                if ch == "=":
                    cur.eq = prev not in ("=", "!", "<", ">")
                cur.text += ch
            prev = ch
    while stack:
        g = stack.pop()
        g.hi = rendered[-1][0] if rendered else first
        done.append(g)
    return done


def _parameter_lists(rep: Report, ctx: Any) -> None:
    import itertools

    ix, jx = ctx.py, ctx.jinja
    n_lists = 0
    legacy: "tuple[str, int] | None" = None
    defs: dict[str, list[nodes.Node]] = {}
    for t_ in jx.templates.values():
        for k, v in _set_defs(t_.tree).items():
            defs.setdefault(k, [])
            defs[k] += [d for d in v if not any(d is x for x in defs[k])]
    for tn_, ti_ in sorted(jx.templates.items()):
        for mname_, body_ in [("<top>", ti_.tree.body)] + [(m_.name, m_.body) for m_ in ti_.macros.values()]:
            afr = list(_TplRun(jx, ti_).frags(body_, ti_))
            # the separators written in the body itself (what a macro it expands writes is that macro's list)
            stars = {i for i, f in enumerate(afr) if f.kind == "data" and f.origin is None and re.search(r"(?m)^[ \t]*\*,", f.text)}
            if not stars:
                continue
            # the groups the separators are written in: the text rendered once with everything in it
            lists = [g for g in _groups(list(enumerate(afr))) if any(p_.kind == "star" and p_.idx in stars for p_ in g.params)]
            rep.require(lists, f"the parameter list around the `*,` of {tn_}::{mname_}")
            for gi, lst in enumerate(lists):
                n_lists += 1
                found = _list_findings(rep, ix, afr, lst, f"{tn_}::{mname_}", defs)
                if "positional-defaults" in found and legacy is None:
                    legacy = (tn_, found["positional-defaults"][1])
                others = {k: v for k, v in found.items() if k != "positional-defaults"}
                sfx = f"#{gi}" if gi else ""
                rep.check(not others, "R01.4", f"{tn_}::{mname_}::separator-where-needed{sfx}",
                          f"the parameter list is not valid on every rendering: {sorted(others)}", where=f"{PKG}/templates/{tn_}",
                          lhs=sorted(others), rhs="`*,` written on exactly the renderings on which a parameter follows it; positional defaults in order")
                for k, (msg, line, shown) in sorted(others.items()):
                    rep.fail("R01.4", f"{tn_}::{mname_}::{k}{sfx}", msg, where=f"{PKG}/templates/{tn_}:{line}", lhs=f"rendering with {shown}",
                             rhs="no parameter without default after one with default among the positional ones; a parameter after a bare *")
    rep.require(n_lists, "a template text that writes the `*,` separator of a parameter list")
    rep.floor("parameter_lists", n_lists, 1)
    if legacy is not None:
        rep.fail("R01.4", "endpoint_macros.py.jinja::arguments::positional-defaults",
                 "path parameters are positional and emitted through to_string(), which carries the schema default: a defaulted path parameter "
                 "before one without default is a SyntaxError in every function of the endpoint module", where=f"{PKG}/templates/{legacy[0]}:{legacy[1]}",
                 lhs="to_string() before `*,`", rhs="no defaults, or defaulted ones last")


def _list_findings(rep: Report, ix: Any, afr: list[Any], lst: _Group, name: str, defs: dict) -> dict[str, tuple[str, int, Any]]:
    import itertools

    frs = [(i, f) for i, f in enumerate(afr) if lst.lo <= i <= lst.hi]
    tree = _loop_tree(frs)
    ev = _ListEval(ix, defs)
    for _, f in frs:  # the collections first (what is looped over, what is measured), then the conditions
        for ln in f.lnodes:
            ev.seq(ln)
        for g_ in f.guard_nodes:
            for flt in [x for x in [g_, *g_.find_all(nodes.Filter)] if isinstance(x, nodes.Filter) and x.name in _LEN_FILTERS and x.node is not None]:
                ev.seq(flt.node)
    for _, f in frs:
        for g_ in f.guard_nodes:
            ev.val(g_)
    rep.require(not ev.unresolved, f"the length of {ev.unresolved} in terms of the collections of its object")
    ev.recording = False
    colls, atoms_ = list(ev.colls), list(ev.atoms)
    rep.require(3 ** len(colls) * 2 ** len(atoms_) <= 20000, f"a parameter list over a few collections and conditions ({name}: {colls}, {atoms_})")
    first_star = min(p_.idx for p_ in lst.params if p_.kind == "star")
    lead = next((p_.what for p_ in lst.params if p_.kind in ("M", "N", "D")), None)  # the parameter(s) the list begins with
    found: dict[str, tuple[str, int, Any]] = {}

    def render(items: list[Any], out: list[tuple[int, Any]]) -> None:
        for it_ in items:
            if isinstance(it_[0], int):
                f = it_[1]
                if all(bool(ev.val(g_)) == pol for g_, (_, pol) in zip(f.guard_nodes, f.guards)):
                    out.append(it_)
            else:
                for _ in range(int(ev.seq(it_[0]))):
                    render(it_[1], out)

    for lens in itertools.product((0, 1, 2), repeat=len(colls)):
        for bools in itertools.product((False, True), repeat=len(atoms_)):
            ev.env = {**dict(zip(colls, lens)), **dict(zip(atoms_, bools))}
            out: list[tuple[int, Any]] = []
            render(tree, out)
            if not out:
                continue
            shown = {k: v for k, v in ev.env.items() if v}
            for g in _groups(out):
                if g.opened != lst.opened:  # the list itself: the group at the same place, with or without the separator in it
                    continue
                ps = [p_ for p_ in g.params if p_.kind != "none"]
                k_star = next((k for k, p_ in enumerate(ps) if p_.kind == "star"), None)
                if k_star is not None and not any(p_.kind in "MND" for p_ in ps[k_star + 1:]) and ps[k_star].text.strip() == "*":
                    found.setdefault("separator-without-keyword-parameter", (
                        "the separator `*` is written with no parameter after it (SyntaxError: named arguments must follow bare *)",
                        ps[k_star].line, shown))
                positional = [p_ for p_ in (ps if k_star is None else ps[:k_star]) if p_.kind in "MND"]
                for a_, b_ in itertools.combinations(positional, 2):
                    if not (a_.kind in "MD" and b_.kind in "MN"):
                        continue
                    if b_.idx < first_star and a_.what == b_.what == lead:
                        # (the finding known for the collection the list begins with keeps its key)
                        found.setdefault("positional-defaults", (f"{a_.what} before {b_.what}", a_.line, shown))
                    elif b_.idx < first_star:
                        found.setdefault(f"positional-defaults::{b_.what}", (
                            f"`{b_.what}` is written before the separator `*,` (positional) behind `{a_.what}`, which may carry a "
                            "default: a parameter without a default after one with a default is a SyntaxError", b_.line, shown))
                    else:
                        found.setdefault(f"separator-omitted::{b_.what}", (
                            f"on a rendering on which the separator `*,` is not written, `{b_.what}` (written behind its place) is "
                            f"positional and follows `{a_.what}`, which may carry a default: a parameter without a default after "
                            "one with a default is a SyntaxError in the generated function", b_.line, shown))
    return found


# ---- R01.12 ---------------------------------------------------------------------------------------------------------------------------
# A name that the *text* of a template reads inside a generated function (not a hole: holes are document names and are C18's subject)
# has to be bound by something the generator writes: the function or an enclosing generated function (parameter, assignment, loop /
# with / except target, import), the module level of the host template, an import line of the import universe (what headers and the
# kinds' get_imports can contribute; that the kind at hand really contributes it is R01.1), or Python's builtins.  The generated
# scopes are those of the C18 skeleton: macros expanded as events with their arguments substituted, so a destination text that a macro
# builds from an argument (`"_temp_" + destination`) is read as the code it becomes.
_BOUND_TEMPLATES = ("model.py.jinja", "endpoint_module.py.jinja", "client.py.jinja")
_LAMBDA = re.compile(r"\blambda\b([^:]*):")
_WALRUS = re.compile(r"([^\W\d]\w*)\s*:=")


def _names_bound(rep: Report, ctx: Any, universe: set[str]) -> None:
    import builtins

    from ..skeleton import scan
    from . import c18

    rep.rule("R01.12", "every name that template text reads inside a generated function is bound by text the generator writes: in the "
                       "function or an enclosing one, at module level of the host template, by an import line of the import universe, "
                       "or it is a builtin (macros are expanded with their arguments, so a destination built from an argument is read as "
                       "the code it becomes)")
    ix = ctx.py
    w = c18.CanonWalker(ctx.jinja, c18.type_idents(ix))
    w.inner_required = c18.inner_properties_required(ix)
    n_pairs = 0
    for tn in _BOUND_TEMPLATES:
        if tn not in ctx.jinja.templates:
            rep.require(tn not in c18.TEMPLATES, f"template {tn}")
            continue
        root = scan(w.walk_template(tn), tn)
        modbind = {e.name for e in root.events if not e.hole and e.kind in ("BIND", "PARAM", "ATTRBIND")}
        seen: dict[tuple[str, str], Any] = {}

        def rec(sc: Any, outer: frozenset[str]) -> None:
            vis = outer
            if sc.kind == "function":
                here = {e.name for e in sc.events if not e.hole and e.kind in ("BIND", "PARAM")}
                for e in sc.events:  # lambda parameters and walrus targets are bindings the scanner records as reads
                    for m_ in _LAMBDA.finditer(e.text):
                        here |= set(re.findall(r"[^\W\d]\w*", m_.group(1)))
                    here |= set(_WALRUS.findall(e.text))
                vis = outer | here
                for e in sc.events:
                    if e.kind != "READ" or e.hole:
                        continue
                    good = e.name in vis or e.name in modbind or e.name in universe or hasattr(builtins, e.name)
                    k = (sc.path(), e.name)
                    if k not in seen or (not good and seen[k][0]):
                        seen[k] = (good, e)
            for c_ in sc.children:
                rec(c_, frozenset(vis))

        rec(root, frozenset())
        for (path, name), (good, e) in sorted(seen.items()):
            n_pairs += 1
            rep.check(good, "R01.12", f"{tn}::{path}::{name}::bound",
                      f"the generated function {path} reads `{name}`, which nothing the generator writes binds (NameError when the line "
                      f"runs), e.g. `{e.text.strip()[:100]}`", where=f"{PKG}/templates/{tn} (skeleton line {e.line})",
                      lhs=f"read of `{name}`", rhs="bound in the function, an enclosing one, the module, the import universe or builtins")
    rep.floor("template_names_read_in_generated_functions", n_pairs, 120)
    from ..skelscan import scan_lines

    ctl = scan_lines(["def f(src):", "    _tmp_out[src] = []", "    return out"], [], [], "control")
    fsc = ctl.children[0]
    bound = {e.name for e in fsc.events if not e.hole and e.kind in ("BIND", "PARAM")}
    rep.control("R01.12 unbound destination", {e.name for e in fsc.events if e.kind == "READ" and not e.hole} - bound >= {"_tmp_out", "out"})


# ---- R01.2 ----------------------------------------------------------------------------------------------------------------------------
# The model module is the text that model.py.jinja emits.  Where in the template a piece of that text is written down is a matter of
# style: in place, in a macro of the template or of a helper template (`from ... import m`, `import ... as h`), in a partial that is
# `include`d, in a `{% set x %}...{% endset %}` block that is emitted later, in a macro that receives the function's name as an
# argument.  The rule therefore *runs* the template abstractly - statement by statement in execution order, calls / includes / blocks
# expanded where they are emitted with the arguments for the parameters, both arms of every `if` whose test is not decided, every
# loop no, one and more times - and keeps, for every path, a small state of the generated text:
#     fn    the function of the generated class the text is in (after the last `def name(`; None before the first / after `class`)
#     imp   the lazily imported classes have been imported in fn  (the loop over model.lazy_imports that emits its element was passed)
#     tc    the last non-blank text at module level is the line `if TYPE_CHECKING:` (followed by nothing but lazy imports)
#     col   position in the line: at its beginning / after indentation only / after text
# Conditions that do not change during a rendering (they mention only render arguments: `model.is_multipart_body`, ...) and that
# decide whether a `def`, a lazy-import loop or the `if TYPE_CHECKING:` line is emitted are enumerated (truth assignments), so that
# `{% if c %}def f{% endif %} ... {% if c %}imports{% endif %}` is the same as one block.  A rendering in which model.lazy_imports is
# empty needs no import: assignments that make a test of that collection false are skipped.
_ORDER_ONLY = ("sort", "list", "unique", "reverse")
_LAZY = "model.lazy_imports"
_AWAIT = "\0name"
_MARK = re.compile(r"(?<!\w)def[ \t]+(\w*)|^class\s", re.M)


def _domain(n: nodes.Node) -> str:
    """text of an iterable, order-only filters removed"""
    while isinstance(n, nodes.Filter) and n.name in _ORDER_ONLY and n.node is not None and not n.args:
        n = n.node
    return _domain_text(expr_text(n))  # a `set` variable reads as the text of its definition


def _domain_text(t: str) -> str:
    """the same for the text of an iterable"""
    t = _unparen(t)
    again = True
    while again:
        again = False
        for f in _ORDER_ONLY:
            if t.endswith("|" + f):
                t, again = _unparen(t[:-len(f) - 1]), True
    return t


def _empties(atom: str, dom: str) -> bool:
    """the atom is a test of whether the collection has elements"""
    t = _unparen(atom)
    return t in (dom, dom + "|length", dom + "|count", dom + "|length > 0", dom + "|length != 0", dom + "|count > 0")


def _const_truth(t: nodes.Node) -> "bool | None":
    """the value of a condition that consists of constants only (what a test on a macro parameter becomes where the macro is expanded
    with a constant argument); None when it depends on anything else"""
    if isinstance(t, nodes.Const):
        return bool(t.value)
    if isinstance(t, nodes.Not):
        v = _const_truth(t.node)
        return None if v is None else not v
    if isinstance(t, (nodes.And, nodes.Or)):
        l, r = _const_truth(t.left), _const_truth(t.right)
        absorbing = isinstance(t, nodes.Or)
        if l is absorbing or r is absorbing:
            return absorbing
        return (not absorbing) if l is (not absorbing) and r is (not absorbing) else None
    if isinstance(t, nodes.Compare) and len(t.ops) == 1 and isinstance(t.expr, nodes.Const) and isinstance(t.ops[0].expr, nodes.Const):
        l, r, op = t.expr.value, t.ops[0].expr.value, t.ops[0].op
        if op in ("eq", "ne"):
            return (l == r) == (op == "eq")
        if op in ("in", "notin") and isinstance(r, str) and isinstance(l, str):
            return (l in r) == (op == "in")
    if isinstance(t, nodes.Test) and isinstance(t.node, nodes.Const) and t.name == "none" and not t.args:
        return t.node.value is None
    return None


class _TplRun:
    def __init__(self, jx: Any, root: Any) -> None:
        self.jx, self.root = jx, root
        self.sdefs: dict[str, dict] = {}
        self.blocks: dict[str, dict[str, nodes.AssignBlock]] = {}
        self.user_alias: dict[str, set[str]] = {}
        self.const_alias: dict[str, dict[str, str]] = {}
        self.from_macros: dict[str, dict[str, tuple[str, str]]] = {}
        # names that are not render arguments: aliases, `loop` (parameters of macros are replaced by the arguments where a macro is expanded)
        self.bound = {"loop", "caller", "varargs", "kwargs", "self"}
        for ti in jx.templates.values():
            for n in ti.tree.find_all(nodes.Import):
                self.bound.add(n.target)
        self._lazy_target: "str | None" = None
        self.chain: list[Any] = []  # the templates whose `include` is being expanded
        self._lstack: list[tuple[int, nodes.Node]] = []  # the loops being expanded: (number of the run of the loop, its iterable)
        self._ostack: list[tuple[str, str]] = []  # the macros / partials being expanded: (template, macro)
        # what `caller(...)` stands for in the macro being expanded: the `{% call %}` block that expands it (block, its template, the
        # names bound where it stands, the expansions it stands in) - None in a macro that is expanded by a plain call
        self._cstack: list[Any] = []
        self._lcount = 0
        self.reset({})
        self.relevant: set[str] = set()
        self.opaque: list[str] = []

    def reset(self, assignment: dict[str, bool]) -> None:
        self.assignment = assignment
        self.marks = 0
        self.uses: dict[str, list[bool]] = {}       # function -> imp at each expansion of a property macro
        self.fn_line: dict[str, int] = {}
        self.module_level: list[tuple[bool, str, int]] = []  # (tc, col, line) at each module-level emission of a lazy import

    # -- per template facts ------------------------------------------------------------------------------------------------------------
    def facts(self, ti: Any) -> None:
        if ti.name in self.sdefs:
            return
        self.sdefs[ti.name] = {k: v for k, v in _set_defs(ti.tree).items()}
        self.blocks[ti.name] = {a.target.name: a for a in ti.tree.find_all(nodes.AssignBlock) if isinstance(a.target, nodes.Name)}
        ua, ca, fm = set(), {}, {}
        for n in ti.tree.find_all(nodes.Import):
            if isinstance(n.template, nodes.Const) and isinstance(n.template.value, str) and not n.template.value.startswith("property_templates/") \
                    and n.template.value in self.jx.templates:
                ca[n.target] = n.template.value
            else:
                ua.add(n.target)  # the template of a property kind, chosen per property
        for n in ti.tree.find_all(nodes.FromImport):
            if isinstance(n.template, nodes.Const) and n.template.value in self.jx.templates:
                for item in n.names:
                    src, dst = (item, item) if isinstance(item, str) else item
                    if src in self.jx.templates[n.template.value].macros:
                        fm[dst] = (n.template.value, src)
        self.user_alias[ti.name], self.const_alias[ti.name], self.from_macros[ti.name] = ua, ca, fm
        for k in [*ua, *ca, *fm]:  # a name that is (also) bound by an import is not read as a `set` definition
            self.sdefs[ti.name].pop(k, None)

    def subst(self, n: nodes.Node, ti: Any, binds: dict[str, nodes.Node]) -> nodes.Node:
        defs = dict(self.sdefs[ti.name])
        defs.update({k: [v] for k, v in binds.items()})
        return _tsubst(n, defs) if defs else n

    def macro_of(self, call: nodes.Call, ti: Any) -> "tuple[Any, nodes.Macro] | None":
        """the macro a call expands: one of the template the call stands in or, in a partial, of a template that includes it (a partial
        sees the names of the context it is included in)"""
        for t_ in [ti] + [x for x in reversed(self.chain) if x is not ti]:
            self.facts(t_)
            hit = self._macro_in(call, t_)
            if hit is not None:
                return hit
        return None

    def _macro_in(self, call: nodes.Call, ti: Any) -> "tuple[Any, nodes.Macro] | None":
        f = call.node
        if isinstance(f, nodes.Name):
            if f.name in ti.macros:
                return ti, ti.macros[f.name]
            if f.name in self.from_macros[ti.name]:
                tn, mn = self.from_macros[ti.name][f.name]
                return self.jx.templates[tn], self.jx.templates[tn].macros[mn]
        if isinstance(f, nodes.Getattr) and isinstance(f.node, nodes.Name) and f.node.name in self.const_alias[ti.name]:
            t2 = self.jx.templates[self.const_alias[ti.name][f.node.name]]
            if f.attr in t2.macros:
                return t2, t2.macros[f.attr]
        return None

    # -- the text as fragments ---------------------------------------------------------------------------------------------------------
    def frags(self, body: list[nodes.Node], ti: Any, binds: "dict[str, nodes.Node] | None" = None, guards: tuple = (), gnodes: tuple = (),
              loops: tuple = (), depth: int = 0, targets: tuple = ()) -> Any:
        """tplq.frags of the text a body emits, with what is written elsewhere put where it is emitted: calls of macros of the template
        or of a helper template (parameters replaced by the arguments), `include`d partials, captured `set` blocks"""
        self.facts(ti)
        binds = binds or {}
        defs = {k: [v] for k, v in binds.items()}

        def sub(x: nodes.Node) -> nodes.Node:
            return _tsubst(x, defs) if defs else x

        def frag(*a: Any) -> Any:
            fr = tplq.Frag(*a)
            fr.targets = targets  # the elements of the enclosing loops, as the text spells them (parallel to .loops)
            fr.lids = tuple(x[0] for x in self._lstack)  # which run of each enclosing loop (a macro expanded twice runs its loops twice)
            fr.lnodes = tuple(x[1] for x in self._lstack)
            fr.origin = self._ostack[-1] if self._ostack else None  # where the text is written down when not in the body itself
            return fr

        for n in body:
            if isinstance(n, nodes.Output):
                for c in n.nodes:
                    if isinstance(c, nodes.TemplateData):
                        yield frag("data", c.data, c.lineno, guards, gnodes, loops, c)
                        continue
                    c2 = sub(c)
                    base = c2
                    while isinstance(base, nodes.Filter) and base.node is not None:
                        base = base.node
                    if isinstance(base, nodes.Name) and base.name in self.blocks[ti.name] and depth < 4:
                        yield from self.frags(self.blocks[ti.name][base.name].body, ti, binds, guards, gnodes, loops, depth + 1, targets)
                        continue
                    if isinstance(c2, nodes.Const) and isinstance(c2.value, str) and not isinstance(c, nodes.Const) and c2.value.strip():
                        # a parameter that the expansion at hand binds to a constant text: written as that text
                        yield frag("data", c2.value, c.lineno, guards, gnodes, loops, nodes.TemplateData(c2.value, lineno=c.lineno))
                        continue
                    whole = False
                    for call in _calls_inner_first(c2):
                        if isinstance(call.node, nodes.Name) and call.node.name == "caller" and self._cstack and self._cstack[-1] is not None \
                                and depth < 8:
                            # the body of the `{% call %}` block, where the macro asks for it: with the block's parameters bound to what
                            # the macro passes, everything else read where the block stands
                            blk, bti, bbinds, bostack = self._cstack[-1]
                            bparams = [a.name for a in blk.args]
                            b3: dict[str, nodes.Node] = dict(bbinds)
                            b3.update(zip(bparams[len(bparams) - len(blk.defaults):], blk.defaults))
                            b3.update(zip(bparams, call.args))
                            b3.update({k.key: k.value for k in call.kwargs if k.key in bparams})
                            saved_o, saved_c = self._ostack, self._cstack
                            self._ostack, self._cstack = list(bostack), self._cstack[:-1]
                            try:
                                yield from self.frags(blk.body, bti, b3, guards, gnodes, loops, depth + 1, targets)
                            finally:
                                self._ostack, self._cstack = saved_o, saved_c
                            whole = whole or call is base
                            continue
                        hit = self.macro_of(call, ti)
                        if hit is not None and depth < 4:
                            yield from self._expand(hit, call, None, guards, gnodes, loops, depth, targets)
                            whole = whole or call is base
                    if not whole:
                        yield frag("expr", expr_text(c2), c.lineno, guards, gnodes, loops, c2)
            elif isinstance(n, nodes.If):
                # (a test that the expansion at hand decides - a parameter compared with the constant it is bound to - selects its arm)
                neg, gn = guards, gnodes
                for test, arm in [(n.test, n.body)] + [(el.test, el.body) for el in n.elif_]:
                    t = sub(test)
                    known = _const_truth(t) if binds else None
                    if known is False:
                        continue
                    if known is True:
                        yield from self.frags(arm, ti, binds, neg, gn, loops, depth, targets)
                        break
                    yield from self.frags(arm, ti, binds, neg + ((expr_text(t), True),), gn + (t,), loops, depth, targets)
                    neg, gn = neg + ((expr_text(t), False),), gn + (t,)
                else:
                    if n.else_:
                        yield from self.frags(n.else_, ti, binds, neg, gn, loops, depth, targets)
            elif isinstance(n, nodes.For):
                itn = sub(n.iter)
                it = expr_text(itn)
                tg = n.target.name if isinstance(n.target, nodes.Name) else ""
                self._lcount += 1
                self._lstack.append((self._lcount, itn))
                try:
                    if n.test is not None:
                        tt = sub(n.test)
                        yield from self.frags(n.body, ti, binds, guards + ((expr_text(tt), True),), gnodes + (tt,), loops + (it,), depth, targets + (tg,))
                    else:
                        yield from self.frags(n.body, ti, binds, guards, gnodes, loops + (it,), depth, targets + (tg,))
                finally:
                    self._lstack.pop()
                if n.else_:
                    yield from self.frags(n.else_, ti, binds, guards, gnodes, loops, depth, targets)
            elif isinstance(n, nodes.Include):
                for x in ([n.template] if isinstance(n.template, nodes.Const) else list(getattr(n.template, "items", []) or [])):
                    t2 = self.jx.templates.get(x.value) if isinstance(x, nodes.Const) and isinstance(x.value, str) else None
                    if t2 is not None and depth < 4:
                        self.chain.append(ti)
                        self._ostack.append((t2.name, "<top>"))
                        try:
                            yield from self.frags(t2.tree.body, t2, binds, guards, gnodes, loops, depth + 1, targets)
                        finally:
                            self.chain.pop()
                            self._ostack.pop()
                        break
            elif isinstance(n, nodes.CallBlock):
                call = sub(n.call)
                hit = self.macro_of(call, ti) if isinstance(call, nodes.Call) else None
                if hit is not None and depth < 4:
                    # `{% call(x) m(args) %}body{% endcall %}` writes what m(args) writes, the body wherever m writes caller(...)
                    yield from self._expand(hit, call, (n, ti, dict(binds), list(self._ostack)), guards, gnodes, loops, depth, targets)
                else:
                    yield from self.frags(n.body, ti, binds, guards, gnodes, loops, depth, targets)
            elif isinstance(n, (nodes.With, nodes.Scope, nodes.FilterBlock, nodes.AssignBlock)):
                yield from self.frags(getattr(n, "body", []), ti, binds, guards, gnodes, loops, depth, targets)

    def _expand(self, hit: Any, call: nodes.Call, block: Any, guards: tuple, gnodes: tuple, loops: tuple, depth: int, targets: tuple) -> Any:
        """the fragments of a macro's body with its parameters bound to the arguments of the call"""
        t2, m = hit
        params = [a.name for a in m.args]
        b2: dict[str, nodes.Node] = dict(zip(params[len(params) - len(m.defaults):], m.defaults))
        b2.update(zip(params, call.args))
        b2.update({k.key: k.value for k in call.kwargs})
        self._ostack.append((t2.name, m.name))
        self._cstack.append(block)
        try:
            yield from self.frags(m.body, t2, b2, guards, gnodes, loops, depth + 1, targets)
        finally:
            self._ostack.pop()
            self._cstack.pop()

    # -- conditions --------------------------------------------------------------------------------------------------------------------
    def stable(self, n: nodes.Node) -> bool:
        """the expression mentions only render arguments: it has one value during a rendering"""
        names = [x.name for x in ([n] if isinstance(n, nodes.Name) else []) + list(n.find_all(nodes.Name))]
        return bool(names) and all(x.isidentifier() and x not in self.bound for x in names) and "[*]" not in expr_text(n)

    def atoms(self, t: nodes.Node) -> list[nodes.Node]:
        if isinstance(t, (nodes.And, nodes.Or)):
            return self.atoms(t.left) + self.atoms(t.right)
        if isinstance(t, nodes.Not):
            return self.atoms(t.node)
        return [] if isinstance(t, nodes.Const) else [t]

    def truth(self, t: nodes.Node, env: dict[str, bool]) -> "bool | None":
        if isinstance(t, nodes.Const):
            return bool(t.value)
        if isinstance(t, nodes.Not):
            v = self.truth(t.node, env)
            return None if v is None else not v
        if isinstance(t, (nodes.And, nodes.Or)):
            l, r = self.truth(t.left, env), self.truth(t.right, env)
            absorbing = isinstance(t, nodes.Or)
            if l is absorbing or r is absorbing:
                return absorbing
            return (not absorbing) if l is (not absorbing) and r is (not absorbing) else None
        k = expr_text(t)
        if k in env:
            return env[k]
        return self.assignment.get(k)

    # -- the text ----------------------------------------------------------------------------------------------------------------------
    def feed(self, st: tuple, s: str, line: int) -> tuple:
        fn, imp, tc, col = st
        if not s:
            return st
        if fn == _AWAIT:
            m = re.match(r"\w+", s)
            fn = m.group(0) if m else "?"
            self.fn_line.setdefault(fn, line)
        for m in _MARK.finditer(s):
            self.marks += 1
            imp = False
            if m.group(0).startswith("class"):
                fn = None
            elif m.group(1):
                fn = m.group(1)
                self.fn_line.setdefault(fn, line + s[:m.start()].count("\n"))
            else:
                fn = _AWAIT if m.end() == len(s) else "?"
        if s.strip():
            now = s.rstrip().endswith("if TYPE_CHECKING:")
            self.marks += now
            tc = now
        tail = s.rsplit("\n", 1)[-1]
        base = "bol" if "\n" in s else col
        col = base if tail == "" else ("ind" if base in ("bol", "ind") else "mid") if tail.isspace() else "mid"
        return fn, imp, tc, col

    def text(self, S: frozenset, s: str, line: int) -> frozenset:
        return frozenset(self.feed(st, s, line) for st in S)

    def value(self, S: frozenset, e: nodes.Node) -> frozenset:
        """a computed value is written: some text that is neither a mark nor blank"""
        out = set()
        for fn, imp, tc, col in S:
            if fn == _AWAIT:
                fn = expr_text(e)
                self.fn_line.setdefault(fn, getattr(e, "lineno", 0))
            out.add((fn, imp, False, "mid"))
        return frozenset(out)

    def expr(self, c: nodes.Node, S: frozenset, env: dict[str, bool], ti: Any, binds: dict[str, nodes.Node], depth: int) -> frozenset:
        c2 = self.subst(c, ti, binds)
        if isinstance(c2, nodes.Const) and isinstance(c2.value, str):
            return self.text(S, c2.value, getattr(c, "lineno", 0))
        base = c2
        while isinstance(base, nodes.Filter) and base.node is not None:
            base = base.node
        if isinstance(base, nodes.Name) and base.name == self._lazy_target:
            out = set()
            for fn, imp, tc, col in S:  # an element of model.lazy_imports: an import statement
                if fn is None:
                    self.module_level.append((tc, col, getattr(c, "lineno", 0)))
                out.add((fn, imp, tc, "mid"))
            return frozenset(out)
        if isinstance(base, nodes.Name) and base.name in self.blocks[ti.name] and depth < 6:
            return self.walk(self.blocks[ti.name][base.name].body, S, env, ti, binds, depth + 1)  # a captured block is emitted here
        wrote = False
        for call in _calls_inner_first(c2):
            f = call.node
            if isinstance(f, nodes.Getattr) and isinstance(f.node, nodes.Name) and any(f.node.name in self.user_alias[t_.name] for t_ in [ti, *self.chain]):
                for fn, imp, _tc, _col in S:
                    if fn is not None:
                        self.uses.setdefault(fn, []).append(imp)
                continue
            hit = self.macro_of(call, ti)
            if hit is not None and depth < 6:
                t2, m = hit
                self.facts(t2)
                params = [a.name for a in m.args]
                b2: dict[str, nodes.Node] = dict(zip(params[len(params) - len(m.defaults):], m.defaults))
                b2.update(zip(params, call.args))
                b2.update({k.key: k.value for k in call.kwargs})
                S = self.walk(m.body, S, env, t2, b2, depth + 1)
                wrote = wrote or call is base
        return S if wrote else self.value(S, c2)

    def walk(self, body: list[nodes.Node], S: frozenset, env: dict[str, bool], ti: Any, binds: dict[str, nodes.Node], depth: int) -> frozenset:
        self.facts(ti)
        for n in body:
            if not S:
                break
            if isinstance(n, nodes.Output):
                for c in n.nodes:
                    S = self.text(S, c.data, c.lineno) if isinstance(c, nodes.TemplateData) else self.expr(c, S, env, ti, binds, depth)
            elif isinstance(n, nodes.If):
                S = self.branch(n, S, env, ti, binds, depth)
            elif isinstance(n, nodes.For):
                S = self.loop(n, S, env, ti, binds, depth)
            elif isinstance(n, nodes.Include):
                names = [n.template] if isinstance(n.template, nodes.Const) else list(getattr(n.template, "items", []) or [None])
                outs = frozenset()
                for x in names:
                    t2 = self.jx.templates.get(x.value) if isinstance(x, nodes.Const) and isinstance(x.value, str) else None
                    if t2 is None or depth >= 6:
                        self.opaque.append(f"{ti.name}:{n.lineno}: include of {expr_text(n.template)}")
                        outs |= S
                    else:
                        self.chain.append(ti)
                        try:
                            outs |= self.walk(t2.tree.body, S, env, t2, binds, depth + 1)  # a partial sees the context it is included in
                        finally:
                            self.chain.pop()
                        if not (isinstance(n.template, nodes.Const)):
                            break  # of a list of candidates the first that exists is taken
                S = outs
            elif isinstance(n, nodes.With):
                b2 = dict(binds)
                for t, v in zip(n.targets, n.values):
                    if isinstance(t, nodes.Name):
                        b2[t.name] = self.subst(v, ti, binds)
                S = self.walk(n.body, S, env, ti, b2, depth)
            elif isinstance(n, nodes.CallBlock):
                S = self.walk(n.body, S, env, ti, binds, depth)
                S = self.expr(n.call, S, env, ti, binds, depth)
            elif isinstance(n, (nodes.Scope, nodes.FilterBlock)):
                S = self.walk(n.body, S, env, ti, binds, depth)
            # Macro, Assign, AssignBlock, Import, FromImport, ExprStmt: nothing is written where they stand
        return S

    def branch(self, n: nodes.If, S: frozenset, env: dict[str, bool], ti: Any, binds: dict[str, nodes.Node], depth: int) -> frozenset:
        arms = [(n.test, n.body)] + [(el.test, el.body) for el in n.elif_]
        out: frozenset = frozenset()
        before = self.marks
        tests = []
        for test, arm in arms:
            t = self.subst(test, ti, binds)
            tests.append(t)
            v = self.truth(t, env)
            if v is not False:
                out |= self.walk(arm, S, env, ti, binds, depth)
            if v is True:
                break
        else:
            out |= self.walk(n.else_, S, env, ti, binds, depth)
        if self.marks > before:
            self.relevant |= {expr_text(a) for t in tests for a in self.atoms(t) if self.stable(a)}
        return out

    def loop(self, n: nodes.For, S: frozenset, env: dict[str, bool], ti: Any, binds: dict[str, nodes.Node], depth: int) -> frozenset:
        it = self.subst(n.iter, ti, binds)
        if isinstance(it, (nodes.Tuple, nodes.List)) and all(isinstance(x, nodes.Const) for x in it.items) and isinstance(n.target, nodes.Name) \
                and n.test is None and len(it.items) <= 8:
            for x in it.items:  # a loop over literal constants is its body once per constant
                S = self.walk(n.body, S, env, ti, {**binds, n.target.name: x}, depth)
            return S if it.items else self.walk(n.else_, S, env, ti, binds, depth)
        lazy = _domain(it) == _LAZY and n.test is None and isinstance(n.target, nodes.Name)
        if lazy:
            self.marks += 1
        first = {**env, "loop.first": True}
        later = {**env, "loop.first": False}
        for k in ("loop.index eq 1", "loop.index0 eq 0"):
            first[k], later[k] = True, False
        zero = self.walk(n.else_, S, env, ti, binds, depth) if n.else_ else S
        saved = self._lazy_target
        self._lazy_target = n.target.name if lazy else saved
        try:
            acc = self.walk(n.body, S, first, ti, binds, depth)
            if n.test is not None:
                acc |= S
            for _ in range(4):
                nxt = self.walk(n.body, acc, later, ti, binds, depth) | acc
                if nxt == acc:
                    break
                acc = nxt
        finally:
            self._lazy_target = saved
        out = zero | acc
        if lazy and self._emits_element(n):
            # passing the loop imports every lazily referenced class (none, when there is none)
            out = frozenset((fn, True if fn is not None else imp, tc, col) for fn, imp, tc, col in out)
        return out

    @staticmethod
    def _emits_element(n: nodes.For) -> bool:
        """the loop body writes the loop's element on every path (an Output that is not under a condition)"""
        for st in n.body:
            if isinstance(st, nodes.Output):
                for c in st.nodes:
                    b = c
                    while isinstance(b, nodes.Filter) and b.node is not None:
                        b = b.node
                    if isinstance(b, nodes.Name) and b.name == n.target.name:
                        return True
        return False


def _calls_inner_first(e: nodes.Node) -> list[nodes.Call]:
    out: list[nodes.Call] = []

    def rec(x: nodes.Node) -> None:
        for ch in x.iter_child_nodes():
            rec(ch)
        if isinstance(x, nodes.Call):
            out.append(x)
    rec(e)
    return out


def _lazy_imports_placed(rep: Report, ctx: Any, mt: Any) -> None:
    """R01.2 (see above).  A class that is imported lazily (its module imports this one) is bound in the model module only under
    `if TYPE_CHECKING:`; the text that macros of the property templates expand to names it at run time (isinstance(x, Model),
    Model.from_dict(...)).  Necessary conditions, on every path through the template: in a function of the generated class, the
    loop that writes the elements of model.lazy_imports is passed before the first expansion of a property macro; at module level
    every such element is written inside the block of an `if TYPE_CHECKING:` line (imported unconditionally, two models that refer to
    each other cannot be imported; outside the block's indentation the module does not compile)."""
    run_ = _TplRun(ctx.jinja, mt)
    start = frozenset({(None, False, False, "bol")})
    run_.walk(mt.tree.body, start, {}, mt, {}, 0)  # all arms: which conditions matter
    rep.require(not run_.opaque, f"templates that model.py.jinja includes: {run_.opaque[:2]}")
    names_ = sorted(run_.relevant)
    rep.require(len(names_) <= 10, "conditions on which a def / lazy-import loop of model.py.jinja depends: at most 10 atoms")
    uses: dict[str, list[bool]] = {}
    lines: dict[str, int] = {}
    module_level: list[tuple[bool, str, int]] = []
    for env in tplq.assignments(names_):
        if any(_empties(a_, _LAZY) and not v for a_, v in env.items()):
            continue  # nothing is imported lazily in this rendering
        run_.reset(env)
        run_.walk(mt.tree.body, start, {}, mt, {}, 0)
        for fn, imps in run_.uses.items():
            uses.setdefault(fn, []).extend(imps)
        for fn, ln in run_.fn_line.items():
            lines.setdefault(fn, ln)
        module_level += run_.module_level
    for name in sorted(uses):
        rep.check(all(uses[name]), "R01.2", f"model.py.jinja::{name}::lazy-imports-first",
                  f"{name} does not import the lazily referenced model classes before the first property macro it expands, on some path through "
                  "the template, although that text can contain isinstance(x, Model) / Model.from_dict(...) (NameError at call time)",
                  where=f"{PKG}/templates/model.py.jinja:{lines.get(name, 0)}", lhs=f"{sum(not x for x in uses[name])} of {len(uses[name])} expansions reached "
                  "without the imports", rhs=f"model.lazy_imports emitted in {name} before the first property macro")
    rep.floor("model_functions", len(uses), 2)
    rep.require(module_level, "the place where model.py.jinja writes model.lazy_imports at module level")
    bad = sorted({ln for tc, col, ln in module_level if not (tc and col == "ind")})
    rep.check(not bad, "R01.2", "model.py.jinja::type-checking-block", "lazy imports are written at module level outside the block of an "
              "`if TYPE_CHECKING:` line: two models that refer to each other cannot be imported", where=f"{PKG}/templates/model.py.jinja:{bad[0] if bad else 0}",
              lhs=sorted({(tc, col) for tc, col, _ in module_level}), rhs="after `if TYPE_CHECKING:` and nothing but lazy imports, indented")


# ---- R01.8 ----------------------------------------------------------------------------------------------------------------------------
def _renames_rechecked(rep: Report, ctx: Any) -> None:
    """R01.8.  Two names that collide are told apart by renaming (set_python_name); the new name can collide again, so a rename is only
    final once the new name has been compared.  For operation parameters (Endpoint._check_parameters_for_conflicts and the private
    helpers it delegates to) the comparison is a further pass over all parameters, requested by recording the rename in a set that
    the decision to stop looks at.  Stated without reference to the shape of the driver (tail recursion or loop; the pass in place or
    in a helper):
      * a *modification set* is a name whose content is added to somewhere in the region and that a test deciding the success return
        reads (parameters of a helper are identified with the arguments passed for them);
      * every rename is followed by an addition to a modification set on every path to the next parameter (or to the end of the pass);
      * the success return is only reached through such a test, from which a further pass (a call of the function itself or the head of
        an enclosing `while`) can also be reached, and only after a pass over the parameters.
    For model attributes (every other function that calls set_python_name) the rename is followed on every path by an equality test
    of the two python names, and an error can be returned."""
    ix = ctx.py
    cfgs: dict[str, Any] = {}
    ep = ix.cls("Endpoint")
    f = ix.find_method(ep, "_check_parameters_for_conflicts")
    rep.require(f, "Endpoint._check_parameters_for_conflicts")
    reg = region(ix, f)

    def renames_of(g: Any) -> list[ast.stmt]:
        return [s_ for s_ in cfg_of(g, cfgs).stmts() if stmt_calls(s_, "set_python_name")]

    def helper_calls(g: Any) -> list[tuple[Any, ast.Call]]:
        return [(h, c_) for c_ in ast.walk(g.node) if isinstance(c_, ast.Call) for h in _callees(ix, g, c_) if h in reg and h is not g]

    def adders(g: Any, depth: int = 0) -> set[str]:
        """names of g whose content grows in g or in a helper they are handed to"""
        out = {r for r, _ in receivers(g.node, "add")} | {r for r, _ in receivers(g.node, "update")}
        out |= {n.target.id for n in ast.walk(g.node) if isinstance(n, ast.AugAssign) and isinstance(n.target, ast.Name)}
        if depth < 2:
            for h, c_ in helper_calls(g):
                inner = adders(h, depth + 1)
                out |= {v.id for p_, v in _bind(h, c_).items() if p_ in inner and isinstance(v, ast.Name)}
        return out

    def reads(e: ast.AST, g: Any) -> set[str]:
        once, out, frontier = _once_bound(g.node), set(), names_in(e)
        for _ in range(3):
            out |= frontier
            frontier = {n for x in frontier if x in once for n in names_in(once[x])} - out
        return out | frontier

    # the driver: success returns, the tests they depend on, the sets those tests read
    cfg = cfg_of(f, cfgs)
    def arms(e: "ast.AST | None") -> list[ast.AST]:
        return arms(e.body) + arms(e.orelse) if isinstance(e, ast.IfExp) else [e] if e is not None else []

    success = [s_ for s_ in cfg.stmts() if isinstance(s_, ast.Return) and any(isinstance(a_, ast.Name) and a_.id == "self" for a_ in arms(s_.value))]
    rep.require(success, "success return (`return self`) of _check_parameters_for_conflicts")
    grow = adders(f)
    # (statement, test): an `if` / `while` every path to a success return goes through, or the condition of a conditional success return
    tests = [(t, t.test) for t in cfg.stmts() if isinstance(t, (ast.If, ast.While)) and reads(t.test, f) & grow
             and any(cfg.is_dominated_by(s_, lambda n, t=t: n is t) for s_ in success)]
    tests += [(s_, x.test) for s_ in success for x in ast.walk(s_) if isinstance(x, ast.IfExp) and reads(x.test, f) & grow]
    mods: dict[str, set[str]] = {f.qual: {n for _, t in tests for n in reads(t, f) & grow}}
    frontier = [f]
    for _ in range(2):
        nxt = []
        for g in frontier:
            for h, c_ in helper_calls(g):
                got = {p_ for p_, v in _bind(h, c_).items() if isinstance(v, ast.Name) and v.id in mods.get(g.qual, set())} & adders(h)
                if got - mods.get(h.qual, set()):
                    mods.setdefault(h.qual, set()).update(got)
                    nxt.append(h)
        frontier = nxt

    def records(g: Any) -> Any:
        ms = mods.get(g.qual, set())

        def pred(n: object) -> bool:
            if not isinstance(n, ast.stmt):
                return False
            if isinstance(n, ast.AugAssign) and isinstance(n.target, ast.Name) and n.target.id in ms:
                return True
            own = list(walk_own(n))
            return any(r in ms and any(c_ is x for x in own) for attr in ("add", "update") for r, c_ in receivers(n, attr))
        return pred

    def pass_loop(g: Any, st: ast.stmt) -> "ast.stmt | None":
        """outermost `for` of g around st: the loop over the things being renamed"""
        for lp in ast.walk(g.node):  # breadth-first: outer loops come first
            if isinstance(lp, (ast.For, ast.AsyncFor)) and lp is not st and any(x is st for b_ in lp.body for x in ast.walk(b_)):
                return lp
        return None

    def call_sites(h: Any) -> list[tuple[Any, ast.stmt]]:
        """(caller, statement) of every call of region helper h from another function of the region"""
        out = []
        for k in reg:
            if k is h:
                continue
            for st in cfg_of(k, cfgs).stmts():
                if any(isinstance(c_, ast.Call) and h in _callees(ix, k, c_) for c_ in walk_own(st)):
                    out.append((k, st))
        return out

    def recorded_after(g: Any, st: ast.stmt, depth: int = 0) -> bool:
        """every path from st to the next parameter passes an addition to a modification set.  The pass over the parameters may be a
        loop of g itself or of a caller: where g has no loop around st, a path that leaves g unrecorded continues behind each call of
        g in the region (a helper that only renames leaves the bookkeeping to its caller)."""
        cg, lp = cfg_of(g, cfgs), pass_loop(g, st)
        if lp is not None:
            return cg.every_path_passes(st, lp, records(g))
        if cg.every_path_passes(st, EXIT, records(g)):
            return True
        sites = call_sites(g) if g is not f and depth < 3 else []
        return bool(sites) and all(recorded_after(k, c_, depth + 1) for k, c_ in sites)

    n_ren = 0
    loops: list[tuple[Any, ast.stmt]] = []
    renaming = [g for g in reg if renames_of(g)]
    for g in renaming:
        for s_ in renames_of(g):
            n_ren += 1
            lp = pass_loop(g, s_)
            if lp is not None:
                loops.append((g, lp))
            ok = recorded_after(g, s_)
            rep.check(ok, "R01.8", f"{short(g)}::rename->{anon(s_, local_names(g.node))[:60]}",
                      "a parameter is renamed but the change is not recorded in the set of modified parameters on every path: no re-check runs",
                      where(g, s_), lhs=norm(s_)[:80], rhs="followed by <modified set>.add on every path to the next iteration")
    rep.floor("parameter_renames", n_ren, 2)
    # loops of other region functions that rename through a helper called from their body
    for g in reg:
        for lp in [n for n in ast.walk(g.node) if isinstance(n, (ast.For, ast.AsyncFor))]:
            if any(h in renaming for c_ in ast.walk(lp) if isinstance(c_, ast.Call) for h in _callees(ix, g, c_) if h in reg and h is not g):
                loops.append((g, lp))

    def reruns(t: ast.stmt) -> bool:
        """from the deciding statement a further pass is reachable other than through a success return: the function calls itself, or
        the statement stands in a `while` whose head is reached again"""
        if isinstance(t, ast.Return):
            return bool(stmt_calls(t, f.name))
        r = cfg.reachable_from(t, avoid=lambda n: any(n is s_ for s_ in success if not stmt_calls(s_, f.name)))
        again = any(isinstance(n, ast.stmt) and stmt_calls(n, f.name) for n in r)
        looped = any(isinstance(n, ast.While) and n in r and any(x is t for x in ast.walk(n)) for n in ast.walk(f.node))
        return again or looped

    rep.check(any(reruns(t) for t, _ in tests), "R01.8", f"{short(f)}::re-run",
              "the conflict check no longer re-runs itself after modifications", where(f, f.node),
              lhs=[norm(t)[:80] for _, t in tests], rhs="a test on the set of modified parameters from which a further pass is reachable")

    def visits(n: object, g: Any, depth: int = 0) -> bool:
        if not isinstance(n, ast.stmt):
            return False
        if any(lg is g and lp is n for lg, lp in loops):
            return True
        if depth < 2:
            for c_ in walk_own(n):
                if isinstance(c_, ast.Call):
                    for h in _callees(ix, g, c_):
                        if h in reg and h is not g and cfg_of(h, cfgs).every_path_passes(ENTRY, EXIT, lambda m, h=h: visits(m, h, depth + 1)):
                            return True
        return False

    for s_ in success:
        rep.check(cfg.is_dominated_by(s_, lambda n: visits(n, f)), "R01.8", f"{short(f)}::success-return",
                  "a success return is reachable without visiting the parameters (reserved names / collisions unchecked)", where(f, s_),
                  lhs="return self", rhs="dominated by the loop over all parameters")

    # naming conflict of model attributes: the raw-name fallback is followed by an equality re-check
    n_attr = 0
    for g in ix.all_functions:
        if g in reg or g.name == "set_python_name" or g.parent is not None or not renames_of(g):
            continue
        n_attr += 1
        cg = cfg_of(g, cfgs)

        def compares(n: object) -> bool:
            return isinstance(n, ast.stmt) and any(
                isinstance(x, ast.Compare) and len(x.ops) == 1 and isinstance(x.ops[0], (ast.Eq, ast.NotEq)) and
                norm(x.left).endswith(".python_name") and norm(x.comparators[0]).endswith(".python_name") for x in walk_own(n))

        # the way out when the names are still equal: an error value is returned, or the function is left by an exception (which
        # of the two is the caller's protocol, not a fact about the re-check) - in either case decided by the comparison
        gives_up = [r for r in cg.stmts() if (isinstance(r, ast.Return) and constructs_error(r.value)) or isinstance(r, ast.Raise)]
        ok = all(cg.every_path_passes(s_, EXIT, compares) for s_ in renames_of(g)) and \
            any(cg.is_dominated_by(r, compares) for r in gives_up)
        rep.check(ok, "R01.8", f"{short(g)}::re-check", "raw-name fallback is not followed by an equality test that returns an error",
                  where(g, g.node), lhs=[norm(s_)[:60] for s_ in renames_of(g)], rhs="then a comparison of the two python names on every path, and an error return")
    rep.floor("attribute_renames", n_attr, 1)


# ---- text composed from literals and computed pieces (R01.1b) -------------------------------------------------------------------
# A generated name such as `check_<x>` is written at several places of the generator (template text, an import string).  Where the
# literal part ends and the computed part begins, and through how many locals / `set` variables / concatenations the text is put
# together, is a matter of style: every site is therefore reduced to its *parts* - a sequence of ("lit", text) and ("expr", e) - with
# locals that are bound once replaced by what they are bound to, and the computed part is compared as an expression of the object the
# name belongs to (receiver spelled `self`; accessor methods that merely return an expression of `self` unfolded).

def _merge(parts: list[tuple[str, Any]]) -> list[tuple[str, Any]]:
    out: list[tuple[str, Any]] = []
    for k, v in parts:
        if k == "lit" and out and out[-1][0] == "lit":
            out[-1] = ("lit", out[-1][1] + v)
        elif not (k == "lit" and v == ""):
            out.append((k, v))
    return out


def _once_bound(fn: ast.AST) -> dict[str, ast.AST]:
    """locals of fn bound exactly once, by a plain assignment of a value: reading them is reading their definition"""
    out = {}
    for name, ds in Locals(fn).defs.items():
        if len(ds) == 1 and ds[0][0] == "assign" and ds[0][2] is not None:
            out[name] = ds[0][2]
    return out


def _py_parts(e: ast.AST, once: dict[str, ast.AST], depth: int = 0) -> list[tuple[str, Any]]:
    """parts of a Python string expression: f-string, `+`, `"...".format(...)`, `"..." % ...`, a local bound once to any of these"""
    if isinstance(e, ast.Constant) and isinstance(e.value, str):
        return [("lit", e.value)]
    if depth > 6:
        return [("expr", e)]
    if isinstance(e, ast.JoinedStr):
        out: list[tuple[str, Any]] = []
        for v in e.values:
            if isinstance(v, ast.Constant):
                out.append(("lit", str(v.value)))
            elif isinstance(v, ast.FormattedValue) and v.conversion == -1 and v.format_spec is None:
                out += _py_parts(v.value, once, depth + 1)
            else:
                out.append(("expr", v))
        return out
    if isinstance(e, ast.Name) and e.id in once:
        return _py_parts(once[e.id], once, depth + 1)
    if isinstance(e, ast.BinOp) and isinstance(e.op, ast.Add):
        l, r = _py_parts(e.left, once, depth + 1), _py_parts(e.right, once, depth + 1)
        if any(k == "lit" for k, _ in l + r):
            return l + r
    if isinstance(e, ast.Call) and isinstance(e.func, ast.Attribute) and e.func.attr == "format" and not any(
            isinstance(a, ast.Starred) for a in e.args) and all(k.arg for k in e.keywords):
        tpl = _merge(_py_parts(e.func.value, once, depth + 1))
        if len(tpl) == 1 and tpl[0][0] == "lit":
            got = _format_fields(tpl[0][1], list(e.args), {k.arg: k.value for k in e.keywords})
            if got is not None:
                return [p_ for k, v in got for p_ in ([("lit", v)] if k == "lit" else _py_parts(v, once, depth + 1))]
    if isinstance(e, ast.BinOp) and isinstance(e.op, ast.Mod):
        tpl = _merge(_py_parts(e.left, once, depth + 1))
        args = list(e.right.elts) if isinstance(e.right, ast.Tuple) else [e.right]
        if len(tpl) == 1 and tpl[0][0] == "lit" and "%%" not in tpl[0][1]:
            chunks = tpl[0][1].split("%s")
            if len(chunks) == len(args) + 1 and not any("%" in c for c in chunks):
                out = [("lit", chunks[0])]
                for a, c in zip(args, chunks[1:]):
                    out += _py_parts(a, once, depth + 1) + [("lit", c)]
                return out
    return [("expr", e)]


def _format_fields(tpl: str, args: list[ast.AST], kwargs: dict[str, ast.AST]) -> "list[tuple[str, Any]] | None":
    """("lit", text) / ("expr", argument) sequence of `tpl.format(*args, **kwargs)`; None when a field is more than a plain reference"""
    import string

    out: list[tuple[str, Any]] = []
    auto = 0
    try:
        fields = list(string.Formatter().parse(tpl))
    except ValueError:
        return None
    for text, name, spec, conv in fields:
        out.append(("lit", text))
        if name is None:
            continue
        if spec or conv:
            return None
        if name == "":
            name, auto = str(auto), auto + 1
        arg = args[int(name)] if name.isdigit() and int(name) < len(args) else kwargs.get(name)
        if arg is None:
            return None
        out.append(("expr", arg))
    return out


class _Unfold(ast.NodeTransformer):
    """locals bound once -> their definition; `self.m()` / `self.p` where m / p is a method / property of the class whose body is a
    single `return <expression of self>` -> that expression"""

    def __init__(self, ix: Any, cls: Any, once: dict[str, ast.AST], depth: int = 0) -> None:
        self.ix, self.cls, self.once, self.depth = ix, cls, once, depth

    def _accessor(self, attr: str, kind: tuple[str, ...]) -> "ast.AST | None":
        m = self.ix.find_method(self.cls, attr) if self.cls is not None else None
        if m is None or m.kind not in kind or self.depth > 3:
            return None
        body = [st for st in m.node.body if not (isinstance(st, ast.Expr) and isinstance(st.value, ast.Constant))]
        params = {a.arg for a in m.params} - {"self"}
        if len(body) != 1 or not isinstance(body[0], ast.Return) or body[0].value is None or m.node.args.vararg or m.node.args.kwarg:
            return None
        if any(isinstance(n, ast.Name) and n.id in params for n in ast.walk(body[0].value)):
            return None
        import copy

        return _Unfold(self.ix, self.cls, {}, self.depth + 1).visit(copy.deepcopy(body[0].value))

    def visit_Name(self, n: ast.Name) -> ast.AST:
        import copy

        if isinstance(n.ctx, ast.Load) and n.id in self.once and self.depth <= 3:
            return _Unfold(self.ix, self.cls, {k: v for k, v in self.once.items() if k != n.id}, self.depth + 1).visit(copy.deepcopy(self.once[n.id]))
        return n

    def visit_Call(self, n: ast.Call) -> ast.AST:
        if not n.args and not n.keywords and isinstance(n.func, ast.Attribute) and isinstance(n.func.value, ast.Name) and n.func.value.id == "self":
            got = self._accessor(n.func.attr, ("method",))
            if got is not None:
                return got
        return self.generic_visit(n)

    def visit_Attribute(self, n: ast.Attribute) -> ast.AST:
        if isinstance(n.value, ast.Name) and n.value.id == "self" and isinstance(n.ctx, ast.Load):
            got = self._accessor(n.attr, ("property",))
            if got is not None:
                return got
        return self.generic_visit(n)


def _canon_py(e: ast.AST, ix: Any, cls: Any, once: dict[str, ast.AST]) -> str:
    import copy

    return ast.unparse(ast.fix_missing_locations(_Unfold(ix, cls, once).visit(copy.deepcopy(e))))


def _set_defs(tree: nodes.Template) -> dict[str, list[nodes.Node]]:
    """template-local name (canonical, see sa/jinja_canon.py) -> the expressions it is `set` to"""
    out: dict[str, list[nodes.Node]] = {}
    for a in tree.find_all(nodes.Assign):
        if isinstance(a.target, nodes.Name):
            out.setdefault(a.target.name, []).append(a.node)
    for a in tree.find_all(nodes.AssignBlock):
        if isinstance(a.target, nodes.Name):
            out.setdefault(a.target.name, []).append(a)  # a block: never an expression
    return out


def _tsubst(n: nodes.Node, defs: dict[str, list[nodes.Node]], depth: int = 0) -> nodes.Node:
    """copy of a template expression in which every variable that is `set` exactly once (to an expression) is replaced by its
    definition: the expression in terms of render arguments, macro parameters and loop variables"""
    import copy

    if isinstance(n, nodes.Name) and depth < 6:
        ds = defs.get(n.name, [])
        if len(ds) == 1 and isinstance(ds[0], nodes.Expr):
            return _tsubst(ds[0], defs, depth + 1)
    m = copy.copy(n)
    for fld, v in n.iter_fields():
        if isinstance(v, nodes.Node):
            setattr(m, fld, _tsubst(v, defs, depth))
        elif isinstance(v, list):
            setattr(m, fld, [_tsubst(x, defs, depth) if isinstance(x, nodes.Node) else x for x in v])
    return m


def _tpl_expr_parts(n: nodes.Node) -> list[tuple[str, Any]]:
    """parts of an (already substituted) template output expression: string constants joined by `~` / `+`"""
    if isinstance(n, nodes.Const) and isinstance(n.value, str):
        return [("lit", n.value)]
    if isinstance(n, nodes.TemplateData):
        return [("lit", n.data)]
    if isinstance(n, nodes.Concat):
        return [p_ for x in n.nodes for p_ in _tpl_expr_parts(x)]
    if isinstance(n, nodes.Add):
        l, r = _tpl_expr_parts(n.left), _tpl_expr_parts(n.right)
        if any(k == "lit" for k, _ in l + r):
            return l + r
    return [("expr", n)]


def _tpl_parts(body: list[nodes.Node], defs: dict[str, list[nodes.Node]]) -> list[tuple[str, Any]]:
    """the text a template body emits, in source order (branches and loop bodies one after the other)"""
    out: list[tuple[str, Any]] = []
    for fr in tplq.frags(body):
        out += [("lit", fr.text)] if fr.kind == "data" else _tpl_expr_parts(_tsubst(fr.node, defs))
    return _merge(out)


def _canon_tpl(n: nodes.Node, ix: Any, cls: Any) -> str:
    """a template expression as an expression of the one object it is computed from (spelled `self`), accessors unfolded like on the
    Python side; its own text when it is computed from several objects or is not also a Python expression"""
    roots = sorted({x.name for x in n.find_all(nodes.Name)} | ({n.name} if isinstance(n, nodes.Name) else set()))
    text = expr_text(n)
    if len(roots) != 1:
        return text
    m = _tsubst(n, {roots[0]: [nodes.Name("self", "load")]})
    try:
        tree = ast.parse(expr_text(m), mode="eval")
    except SyntaxError:
        return text
    return _canon_py(tree.body, ix, cls, {})


# ---- declaration passes of the class body (R01.4) --------------------------------------------------------------------------------
class Cond:
    """template conditions as boolean functions of their atoms.  `bool_leaf(node)` says of an expression that is not taken apart that it
    can only be True or False (an attribute declared `bool`)."""

    def __init__(self, bool_leaf: Any = None) -> None:
        self.bool_leaf = bool_leaf or (lambda n: False)

    def boolean(self, n: nodes.Node) -> bool:
        """the expression can only yield True or False (so that == / != between two of them is `iff` / `xor`)"""
        if isinstance(n, nodes.Const):
            return isinstance(n.value, bool)
        if isinstance(n, (nodes.Not, nodes.Test, nodes.Compare)):
            return True
        if isinstance(n, (nodes.And, nodes.Or)):
            return self.boolean(n.left) and self.boolean(n.right)
        if isinstance(n, nodes.CondExpr):
            return n.expr2 is not None and self.boolean(n.expr1) and self.boolean(n.expr2)
        return bool(self.bool_leaf(n))

    def iff(self, n: nodes.Node) -> "tuple[nodes.Node, nodes.Node, bool] | None":
        """(a, b, True) for `a == b`, (a, b, False) for `a != b`, where the comparison is a boolean function of a and b"""
        if isinstance(n, nodes.Compare) and len(n.ops) == 1 and n.ops[0].op in ("eq", "ne"):
            a, b = n.expr, n.ops[0].expr
            if (self.boolean(a) and self.boolean(b)) or (isinstance(a, nodes.Const) and isinstance(b, nodes.Const)):
                return a, b, n.ops[0].op == "eq"
        return None

    def atoms(self, n: nodes.Node) -> list[str]:
        """the atoms of a condition: what remains when and / or / not / conditional expressions / constants / (in)equalities between
        boolean-valued operands are taken apart"""
        if isinstance(n, nodes.Const):
            return []
        iff = self.iff(n)
        if isinstance(n, (nodes.And, nodes.Or)):
            subs = [n.left, n.right]
        elif isinstance(n, nodes.Not):
            subs = [n.node]
        elif isinstance(n, nodes.CondExpr) and n.expr2 is not None:
            subs = [n.test, n.expr1, n.expr2]
        elif iff is not None:
            subs = [] if isinstance(iff[0], nodes.Const) and isinstance(iff[1], nodes.Const) else [iff[0], iff[1]]
        else:
            return [expr_text(n)]
        out: list[str] = []
        for x in subs:
            out += [a_ for a_ in self.atoms(x) if a_ not in out]
        return out

    def holds(self, n: nodes.Node, atom: Any) -> bool:
        """truth of the condition when `atom(text)` gives the truth of each atom"""
        if isinstance(n, nodes.Const):
            return bool(n.value)
        if isinstance(n, nodes.And):
            return self.holds(n.left, atom) and self.holds(n.right, atom)
        if isinstance(n, nodes.Or):
            return self.holds(n.left, atom) or self.holds(n.right, atom)
        if isinstance(n, nodes.Not):
            return not self.holds(n.node, atom)
        if isinstance(n, nodes.CondExpr) and n.expr2 is not None:
            return self.holds(n.expr1, atom) if self.holds(n.test, atom) else self.holds(n.expr2, atom)
        iff = self.iff(n)
        if iff is not None:
            a, b, eq = iff
            if isinstance(a, nodes.Const) and isinstance(b, nodes.Const):
                return (a.value == b.value) == eq  # two literals of the template
            return (self.holds(a, atom) == self.holds(b, atom)) == eq
        return bool(atom(expr_text(n)))


def _declaration_passes(ti: Any, jx: Any = None) -> list[dict]:
    """the passes in which the top level of the template declares attributes, in the order in which they run.  A pass is one run of a
    loop (over something other than literal constants) in which `<element>.to_string()` is emitted; its *sites* are the places that
    emit it, each with the conditions it stands under ((test, polarity), ... - variables bound to a constant or to a macro argument
    replaced by what they are bound to).  A loop over a literal tuple / list of constants is its body once per constant; a call of a
    macro (of the template, or imported by name from a helper template) is the macro's body with the arguments for the parameters; an
    `include`d partial is its text."""
    import itertools

    passes: dict[tuple, dict] = {}
    fresh = itertools.count()
    facts = _TplRun(jx, ti) if jx is not None else None

    def macro_of(call: nodes.Call, cur: Any) -> "tuple[Any, nodes.Macro] | None":
        if facts is not None:
            facts.facts(cur)
            return facts.macro_of(call, cur)
        f_ = call.node
        return (cur, cur.macros[f_.name]) if isinstance(f_, nodes.Name) and f_.name in cur.macros else None

    def subst(n: nodes.Node, binds: dict[str, nodes.Node]) -> nodes.Node:
        return _tsubst(n, {k: [v] for k, v in binds.items()}) if binds else n

    def output(c: nodes.Node, guards: tuple, loops: tuple, binds: dict[str, nodes.Node], path: tuple, depth: int, cur: Any) -> None:
        c2 = subst(c, binds)
        for call in ([c2] if isinstance(c2, nodes.Call) else []) + list(c2.find_all(nodes.Call)):
            f = call.node
            hit = macro_of(call, cur) if depth < 3 else None
            if isinstance(f, nodes.Getattr) and f.attr == "to_string" and isinstance(f.node, nodes.Name):
                pid = next((pid for elem, pid in reversed(loops) if elem == f.node.name), None)
                if pid is not None:
                    passes[pid]["sites"].append(guards)
            elif hit is not None:
                cur2, m = hit
                params = [a.name for a in m.args]
                b2: dict[str, nodes.Node] = dict(zip(params[len(params) - len(m.defaults):], m.defaults))
                b2.update(zip(params, call.args))
                b2.update({k.key: k.value for k in call.kwargs})
                walk(m.body, guards, loops, b2, path + (("call", next(fresh)),), depth + 1, cur2)

    def walk(body: list[nodes.Node], guards: tuple, loops: tuple, binds: dict[str, nodes.Node], path: tuple, depth: int, cur: Any = ti) -> None:
        for n in body:
            if isinstance(n, nodes.Output):
                for c in n.nodes:
                    if not isinstance(c, nodes.TemplateData):
                        output(c, guards, loops, binds, path, depth, cur)
            elif isinstance(n, nodes.Include) and jx is not None and depth < 3:
                for x in ([n.template] if isinstance(n.template, nodes.Const) else list(getattr(n.template, "items", []) or [])):
                    t2 = jx.templates.get(x.value) if isinstance(x, nodes.Const) and isinstance(x.value, str) else None
                    if t2 is not None:
                        facts.chain.append(cur)
                        try:
                            walk(t2.tree.body, guards, loops, binds, path + (("include", next(fresh)),), depth + 1, t2)
                        finally:
                            facts.chain.pop()
                        break
            elif isinstance(n, nodes.If):
                t = subst(n.test, binds)
                walk(n.body, guards + ((t, True),), loops, binds, path, depth, cur)
                neg = guards + ((t, False),)
                for el in n.elif_:
                    t2 = subst(el.test, binds)
                    walk(el.body, neg + ((t2, True),), loops, binds, path, depth, cur)
                    neg += ((t2, False),)
                walk(n.else_, neg, loops, binds, path, depth, cur)
            elif isinstance(n, nodes.For):
                it = subst(n.iter, binds)
                consts = list(it.items) if isinstance(it, (nodes.Tuple, nodes.List)) and all(isinstance(x, nodes.Const) for x in it.items) else None
                if consts is not None and isinstance(n.target, nodes.Name):
                    for k, x in enumerate(consts):
                        b2 = {**binds, n.target.name: x}
                        g2 = guards + (((subst(n.test, b2), True),) if n.test is not None else ())
                        walk(n.body, g2, loops, b2, path + (("const", id(n), k),), depth, cur)
                    if not consts:
                        walk(n.else_, guards, loops, binds, path, depth, cur)
                    continue
                g2 = guards + (((subst(n.test, binds), True),) if n.test is not None else ())
                pid = path + (("loop", id(n)),)
                elem = n.target.name if isinstance(n.target, nodes.Name) else ""
                passes[pid] = {"domain": _unparen(expr_text(it)), "line": n.lineno, "elem": elem, "sites": [], "nested": bool(loops)}
                walk(n.body, g2, loops + ((elem, pid),), binds, pid, depth, cur)
                walk(n.else_, guards, loops, binds, path, depth, cur)
            elif isinstance(n, (nodes.With, nodes.Scope, nodes.CallBlock, nodes.FilterBlock, nodes.AssignBlock)):
                walk(getattr(n, "body", []), guards, loops, binds, path, depth, cur)

    walk(ti.tree.body, (), (), {}, (), 0)
    return [p_ for p_ in passes.values() if p_["sites"]]


_HELPER = re.compile(r"(?<![\w.])check_$")


def _check_helper_name(rep: Report, ctx: Any) -> None:
    """R01.1b.  The module of a literal enum defines `check_<x>`; every module that uses the enum imports `check_<y>` and calls
    `check_<z>`.  x, y and z are computed at three places of the generator, from the same LiteralEnumProperty: they must be the same
    expression of it (ImportError / NameError otherwise, for the names on which two different computations disagree), and the module
    the helper is imported from must be the module the enum is written to."""
    ix, jx = ctx.py, ctx.jinja
    le = ix.cls("LiteralEnumProperty")
    gi = ix.find_method(le, "get_imports")
    rep.require(gi, "LiteralEnumProperty.get_imports")
    # import site(s): the import lines that name `check_` + something - among the texts get_imports may return (put together from
    # locals, from a tuple of names run through by a loop or comprehension, by a private helper, ...) and among the texts written down
    # in get_imports or a private helper of it (handed on through code the evaluation does not follow)
    imp: list[str] = []
    mods: list[str] = []
    sites: list[tuple[list[tuple[str, Any]], dict[str, ast.AST]]] = []  # (parts of a text, the once-bound locals of the function it stands in)
    sv = StrEval(ix)
    onces: dict[str, dict[str, ast.AST]] = {}
    for alt in sorted(_vstrings(sv.call(gi, le, {})), key=parts_text):
        # every computed part in terms of the function it was written in
        owners = {sv.owner[id(v)].qual: sv.owner[id(v)] for k, v in alt if k == "expr" and id(v) in sv.owner}
        once: dict[str, ast.AST] = {}
        for q, g in owners.items():
            once.update(onces.setdefault(q, _once_bound(g.node)))
        sites.append((list(alt), once))
    for g in region(ix, gi):
        once = _once_bound(g.node)
        inner = {id(x) for n in ast.walk(g.node) if _stringish(n) for x in ast.walk(n) if x is not n}
        for n in ast.walk(g.node):
            if _stringish(n) and id(n) not in inner:
                sites.append((_merge(_py_parts(n, once)), once))
    for parts, once in sites:
        if not _IMPORT_LINE.match(parts_text(tuple(parts), "H")):
            continue
        names_at = [i for i, (k, v) in enumerate(parts) if k == "lit" and _HELPER.search(v) and i + 1 < len(parts)]
        for i in names_at:
            imp.append(_canon_py(parts[i + 1][1], ix, le, once))
        if names_at:
            mods += [_canon_py(parts[i + 1][1], ix, le, once) for i, (k, v) in enumerate(parts)
                     if k == "lit" and v.endswith("models.") and i + 1 < len(parts)]
    # definition and use sites: template text `def check_` + expression / `check_` + expression
    dfn: list[str] = []
    use: list[str] = []
    for name, ti in sorted(jx.templates.items()):
        defs = _set_defs(ti.tree)
        for body in [ti.tree.body] + [m.body for m in ti.macros.values()]:
            parts = _tpl_parts(body, defs)
            for i, (k, v) in enumerate(parts):
                if k == "lit" and _HELPER.search(v) and i + 1 < len(parts):
                    (dfn if re.search(r"(?<!\w)def\s+check_$", v) else use).append(_canon_tpl(parts[i + 1][1], ix, le))
    rep.require(imp or dfn or use, "a site that defines, imports or calls a check_<name> helper")
    same = len(set(imp) | set(dfn) | set(use)) == 1
    rep.check(same and bool(dfn) and bool(imp), "R01.1b", "literal-enum::check-helper-name",
              f"the check_ helper is not named by one and the same expression of the enum where it is defined ({sorted(set(dfn))}), imported "
              f"({sorted(set(imp))}) and called ({sorted(set(use))}): ImportError / NameError for class names on which the computations differ",
              where(gi, gi.node), lhs=[sorted(set(dfn)), sorted(set(imp)), sorted(set(use))], rhs="one expression at all three")
    # module of the import = module the file is written to
    rep.check(set(mods) == {"self.class_info.module_name"}, "R01.1b", "literal-enum::import-module", "helper imported from another module than the enum",
              where(gi, gi.node), lhs=sorted(set(mods)), rhs=["self.class_info.module_name"])


def _unparen(t: str) -> str:
    """text of an expression without redundant outer parentheses (a `set` variable reads as its parenthesised definition)"""
    t = t.strip()
    while t.startswith("(") and t.endswith(")"):
        depth = 0
        for i, ch in enumerate(t):
            depth += ch == "("
            depth -= ch == ")"
            if depth == 0:
                break
        if i != len(t) - 1:
            break
        t = t[1:-1].strip()
    return t


def _stringish(n: ast.AST) -> bool:
    return isinstance(n, ast.JoinedStr) or (isinstance(n, ast.BinOp) and isinstance(n.op, (ast.Add, ast.Mod))) or \
        (isinstance(n, ast.Call) and isinstance(n.func, ast.Attribute) and n.func.attr == "format") or \
        (isinstance(n, ast.Constant) and isinstance(n.value, str))


_CREATES = {"write_text", "write_bytes", "open-w", "touch", "mkdir", "makedirs"}


def _rebuilt_from_empty(rep: Report, ctx: Any) -> None:
    """R01.9.  With `overwrite` the output directory already holds an earlier generation.  A file whose name is fixed is replaced by
    the new run; a file whose name comes from the document is only replaced when the new document yields the same name.  A module left
    over from an earlier document imports model modules that the current run did not write (ModuleNotFoundError).  Necessary condition:
    whatever directory receives document-named entries is removed earlier in the same run, on every path that reaches the write.
    Paths are the abstract interpreter's string structure of the operand (<root> + literal text + holes), so the spelling of a local does
    not matter; and neither does the function that finally performs the effect: when the path operand of a write / mkdir / rmtree is
    (composed from) a parameter of the function it stands in, the effect is an effect of each call of that function, on the path the
    call passes (`self._render_to(tag_dir / "__init__.py", ...)` writes that file, not the union of everything the helper ever writes).
    An effect therefore has a *chain* of places - the call in the helper, the call of the helper, ... - and its path is evaluated at the
    outermost one; a removal covers a write when, at some level, it comes first on every path in the same function and calling context."""
    ix = ctx.py
    it, _ = ctx.flow
    cfgs: dict[str, Any] = {}
    once_of: dict[str, dict[str, ast.AST]] = {}
    sites_of: dict[str, list[tuple[Any, ast.Call]]] = {}

    def call_sites(g: Any) -> list[tuple[Any, ast.Call]]:
        if g.qual not in sites_of:
            sites_of[g.qual] = [(h, c_) for h in ix.all_functions if h is not g for c_ in ast.walk(h.node)
                                if isinstance(c_, ast.Call) and g in _callees(ix, h, c_)]
        return sites_of[g.qual]

    def once(g: Any) -> dict[str, ast.AST]:
        if g.qual not in once_of:
            once_of[g.qual] = _once_bound(g.node)
        return once_of[g.qual]

    def free_params(g: Any) -> set[str]:
        bound = set(Locals(g.node).defs)
        return {a.arg for a in g.params if a.arg not in ("self", "cls")} - bound

    def uses(e: ast.AST, g: Any, params: set[str], depth: int = 0) -> set[str]:
        out: set[str] = set()
        for n in ast.walk(e):
            if isinstance(n, ast.Name):
                if n.id in params:
                    out.add(n.id)
                elif n.id in once(g) and depth < 4:
                    out |= uses(once(g)[n.id], g, params, depth + 1)
        return out

    def rewrite(e: ast.AST, g: Any, params: set[str], binding: dict[str, ast.AST], depth: int = 0) -> "ast.AST | None":
        """the path expression e of g in terms of a call of g: parameters are the call's arguments (the caller's own nodes, so that the
        interpreter's values for them are found), locals bound once are their definitions; None when that cannot be expressed"""
        if not uses(e, g, params):
            return e
        if isinstance(e, ast.Name):
            if e.id in params:
                return binding.get(e.id)
            return rewrite(once(g)[e.id], g, params, binding, depth + 1) if depth < 4 else None
        if isinstance(e, ast.BinOp) and isinstance(e.op, ast.Div):
            l, r = rewrite(e.left, g, params, binding, depth), rewrite(e.right, g, params, binding, depth)
            return None if l is None or r is None else ast.copy_location(ast.BinOp(left=l, op=e.op, right=r), e)
        if isinstance(e, ast.JoinedStr):
            vals = [rewrite(v, g, params, binding, depth) for v in e.values]
            return None if any(v is None for v in vals) else ast.copy_location(ast.JoinedStr(values=vals), e)
        if isinstance(e, ast.FormattedValue):
            v = rewrite(e.value, g, params, binding, depth)
            return None if v is None else ast.copy_location(ast.FormattedValue(value=v, conversion=e.conversion, format_spec=e.format_spec), e)
        return None

    def on_every_path(g: Any, node: ast.AST) -> bool:
        st = stmt_of(g.node, node)
        return st is not None and cfg_of(g, cfgs).every_path_passes(ENTRY, EXIT, lambda m: m is st)

    def lift(g: Any, node: ast.AST, target: "ast.AST | None", must: bool, depth: int = 0) -> list[tuple[tuple, Any]]:
        """[(chain, value of the path)] of the effect that `node` of g performs on `target`"""
        params = free_params(g)
        if target is not None and depth < 3 and uses(target, g, params) and (not must or on_every_path(g, node)):
            out: list[tuple[tuple, Any]] = []
            sites = call_sites(g)
            for h, c_ in sites:
                t2 = rewrite(target, g, params, _bind(g, c_))
                if t2 is None:
                    break
                out += [(((g, node), *chain), av) for chain, av in lift(h, c_, t2, must, depth + 1)]
            else:
                if sites:
                    return out
        return [(((g, node),), operand_av(it, target))]

    effs: list[tuple[Any, tuple, Any]] = []  # (effect, chain, path value)
    for e in effect_sites(ix):
        if e.what == "rmtree" or e.what in _CREATES:
            for chain, av in lift(e.func, e.node, e.target, e.what == "rmtree"):
                if av is not None and "Path" in av.types and av.alts:
                    effs.append((e, chain, av))

    def split(alt: tuple) -> "tuple[Any, str, bool]":
        """(root, literal path up to the first document-dependent component, has such a component)"""
        root = alt[0] if alt and alt[0].kind != "lit" else None
        text = ""
        for p_ in alt[1 if root is not None else 0:]:
            if p_.kind != "lit":
                return root, text, True
            text += p_.text
        return root, text, False

    removals: list[tuple[tuple, Any, str]] = []  # (chain, root, directory)
    for e, chain, av in effs:
        if e.what == "rmtree":
            parts = [split(a) for a in av.alts]
            if len(parts) == 1 and not parts[0][2]:
                removals.append((chain, parts[0][0], parts[0][1].rstrip("/")))

    def under(d: str, top: str) -> bool:
        return d == top or d.startswith(top + "/")

    def same_context(outer: tuple, cx: tuple) -> bool:
        """a removal whose path was decided at this level (no outer places) holds in every calling context; one that was attributed to
        callers holds in the context it was attributed to"""
        return not outer or (len(outer) == len(cx) and all(a[1] is b[1] for a, b in zip(outer, cx)))

    def resets(n: object, g: Any, root: Any, d: str, cx: tuple, depth: int = 0) -> bool:
        """statement n of g removes a directory that contains d: by itself, or by calling a helper every path of which does"""
        if not isinstance(n, ast.stmt):
            return False
        own = list(walk_own(n))
        for chain, r, top in removals:
            if r == root and under(d, top):
                for j, (rg, rnode) in enumerate(chain):
                    if rg is g and any(x is rnode for x in own) and same_context(chain[j + 1:], cx):
                        return True
        if depth < 2:
            for c_ in own:
                if isinstance(c_, ast.Call):
                    for h in _callees(ix, g, c_):
                        ch = cfg_of(h, cfgs)
                        if ch.every_path_passes(ENTRY, EXIT, lambda m, h=h: resets(m, h, root, d, (), depth + 1)):
                            return True
        return False

    def site_covered(g: Any, node: ast.AST, root: Any, d: str, cx: tuple, depth: int = 0) -> bool:
        st = stmt_of(g.node, node)
        if st is None:
            return False
        if cfg_of(g, cfgs).is_dominated_by(st, lambda m: resets(m, g, root, d, cx)):
            return True
        if cx or depth >= 3:
            return False
        sites = call_sites(g)
        return bool(sites) and all(site_covered(h, c_, root, d, (), depth + 1) for h, c_ in sites)

    def covered(chain: tuple, root: Any, d: str) -> bool:
        return any(site_covered(g, node, root, d, chain[i + 1:]) for i, (g, node) in enumerate(chain))

    by_dir: dict[str, list[tuple[Any, bool]]] = {}
    for e, chain, av in effs:
        if e.what not in _CREATES:
            continue
        for alt in av.alts:
            root, text, dyn = split(alt)
            if not dyn:
                continue
            d = text.rsplit("/", 1)[0]  # the directory in which the first document-dependent component is created
            by_dir.setdefault(d, []).append((e, covered(chain, root, d)))
    rep.floor("document_named_directories", len(by_dir), 1)
    for d, sites in sorted(by_dir.items()):
        bad = sorted({f"{short(e.func)}::{e.what}" for e, ok in sites if not ok})
        e0 = next((e for e, ok in sites if not ok), sites[0][0])
        rep.check(not bad, "R01.9", f"output-tree::{d or '/'}::rebuilt-from-empty",
                  f"files or directories named after the document are created under <output>{d or '/'} without that directory having been "
                  f"removed earlier in the run on every path ({bad}): on regeneration, modules of an earlier document survive and import "
                  "model modules that no longer exist (ModuleNotFoundError)", e0.where,
                  lhs=sorted({f"{short(e.func)}::{e.what}" for e, _ in sites}), rhs=f"each dominated by rmtree of {d or '/'} or of a directory above it")


# ---- R01.10 ---------------------------------------------------------------------------------------------------------------------------
_EMPTY = ("set()", "frozenset()", "None", "()", "[]", "{}")


def _dependants_handed_down(rep: Report, ctx: Any) -> None:
    """R01.10.  When the definition of a class fails, everything that depends on it is removed with it, so that nothing that is written
    imports a module that is not (ModuleNotFoundError otherwise).  What depends on a reference is recorded by the registry of the
    schemas (the methods of Schemas that write `self.dependencies`): the *dependants* they are handed.  A piece that is built inside
    another one (the item of an array, the member of a union, the property of a model) depends on whatever the enclosing piece depends
    on; it learns that only by being handed the enclosing piece's dependants.  Necessary condition, for the parameter(s) through which
    the registry receives them (read off the registry, `roots` today):
      a function that has the parameter passes, at every call of a function of the package that accepts it, a value that contains
        what it received: the parameter; a display that unpacks it; a union / copy of it; a local all of whose bindings are such;
    (Not claimed: that a function which cannot carry the parameter never leads to one that accepts it - EnumProperty.build makes the
    union of a nullable enum from schemas it writes itself, which refer to nothing.)  What the registry itself is told is C08 R08.6.
    A call that leaves the parameter to its default, passes a fresh collection or one made from something else is reported."""
    ix = ctx.py
    sch = ix.cls("Schemas")
    slots: set[str] = set()
    recorders: set[str] = set()
    for m in sch.methods.values():
        params = {a.arg for a in m.params} - {"self"}
        for n in ast.walk(m.node):
            held: list[ast.AST] = []
            if isinstance(n, ast.Call) and isinstance(n.func, ast.Attribute) and n.func.attr in ("update", "add", "union", "extend", "append") and \
                    "self.dependencies" in norm(n.func.value):
                held = list(n.args)
            elif isinstance(n, (ast.Assign, ast.AugAssign)) and any("self.dependencies" in norm(t) for t in (n.targets if isinstance(n, ast.Assign) else [n.target])):
                held = [n.value]
            got = {x for h in held for x in names_in(h)} & params
            if got:
                slots |= got
                recorders.add(m.qual)
    rep.require(slots, "the parameter through which Schemas records the dependants of a reference (a method that adds to self.dependencies)")

    def accepts(g: Any, slot: str) -> bool:
        return slot in {a.arg for a in g.params}

    def callees(f: Any, c: ast.Call) -> list[Any]:
        """functions of the package the call may enter: as _callees, a plain name also through the module's imports or (unique) anywhere in
        the package, a method of an unknown receiver when one class of the package defines a method of that name"""
        got = _callees(ix, f, c)
        if got:
            return got
        cn = call_name(c)
        head, _, last = cn.rpartition(".")
        if head == "":
            r = ix.resolve(f.module, last)
            if r and r[0] == "func":
                return [r[1]]
            hs = [h for h in ix.all_functions if h.cls is None and h.parent is None and h.name == last]
            return hs if len(hs) == 1 else []
        hs = [h for h in ix.all_functions if h.cls is not None and h.name == last and h.kind != "property"]
        return hs if len({h.cls.qual for h in hs}) == 1 else []

    def passed(g: Any, c: ast.Call, slot: str, lc: Locals) -> "tuple[bool, ast.AST | None]":
        """(decidable, argument passed for the parameter or None when it is left to its default)"""
        b = _bind(g, c)
        if slot in b:
            return True, b[slot]
        for k in c.keywords:
            if k.arg is None:  # **mapping: the entry of a mapping written down in the function, else not decidable
                vals = lc.values_of(k.value.id) if isinstance(k.value, ast.Name) else [k.value]
                if len(vals) != 1:
                    return False, None
                v = vals[0]
                if isinstance(v, ast.Dict) and all(isinstance(x, ast.Constant) for x in v.keys):
                    hit = [y for x, y in zip(v.keys, v.values) if x.value == slot]
                elif isinstance(v, ast.Call) and call_name(v) == "dict" and not v.args and all(x.arg for x in v.keywords):
                    hit = [x.value for x in v.keywords if x.arg == slot]
                else:
                    return False, None
                if hit:
                    return True, hit[0]
        if any(isinstance(a, ast.Starred) for a in c.args):
            return False, None
        return True, None

    def contains(e: "ast.AST | None", slot: str, lc: Locals, seen: frozenset = frozenset()) -> bool:
        """the value of e contains everything the function received for the parameter"""
        if e is None:
            return False
        if isinstance(e, ast.Name):
            if e.id in seen:
                return e.id == slot
            defs = [(k, v) for k, _, v in lc.defs.get(e.id, []) if not k.startswith("aug")]  # `x |= ...` only adds
            if e.id == slot:  # the parameter, possibly re-bound from itself (`roots = roots or set()`)
                return all(v is not None and contains(v, slot, lc, seen | {slot}) for _, v in defs)
            return bool(defs) and all(k.startswith("assign") and "[" not in k and contains(v, slot, lc, seen | {e.id}) for k, v in defs)
        if isinstance(e, ast.NamedExpr):
            return contains(e.value, slot, lc, seen)
        if isinstance(e, (ast.Set, ast.List, ast.Tuple)):
            return any(isinstance(x, ast.Starred) and contains(x.value, slot, lc, seen) for x in e.elts)
        if isinstance(e, ast.BinOp) and isinstance(e.op, (ast.BitOr, ast.Add)):
            return contains(e.left, slot, lc, seen) or contains(e.right, slot, lc, seen)
        if isinstance(e, ast.BoolOp) and isinstance(e.op, ast.Or):  # `roots or set()`: falsy dependants are no dependants
            return contains(e.values[0], slot, lc, seen)
        if isinstance(e, ast.IfExp):  # both arms, an empty arm only where the test asks the parameter itself
            arms = [e.body, e.orelse]
            full = [contains(a, slot, lc, seen) for a in arms]
            return any(full) and all(ok or (norm(a) in _EMPTY and slot in names_in(e.test)) for a, ok in zip(arms, full))
        if isinstance(e, ast.Call):
            cn = call_name(e)
            if cn in ("set", "frozenset", "list", "tuple", "sorted", "copy", "copy.copy", "copy.deepcopy", "deepcopy") and len(e.args) == 1:
                return contains(e.args[0], slot, lc, seen)
            if isinstance(e.func, ast.Attribute) and e.func.attr in ("copy", "union", "__or__"):
                return contains(e.func.value, slot, lc, seen) or (e.func.attr != "copy" and any(contains(a, slot, lc, seen) for a in e.args))
        return False

    n_fw = 0
    for slot in sorted(slots):
        for f in ix.all_functions:
            if not accepts(f, slot) or f.qual in recorders:
                continue
            lc = Locals(f.node)
            for c in ast.walk(f.node):
                if not isinstance(c, ast.Call):
                    continue
                for g in callees(f, c):
                    if not accepts(g, slot) or g.qual in recorders:  # what the registry itself is told is another matter (C08 R08.6)
                        continue
                    decidable, arg = passed(g, c, slot, lc)
                    if not decidable:
                        continue
                    n_fw += 1
                    gname = f"{g.cls.name}.{g.name}" if g.cls is not None else g.name
                    rep.check(contains(arg, slot, lc), "R01.10", f"{short(f)}->{gname}::hands-down-{slot}",
                              f"{short(f)} receives `{slot}` but does not hand them on here: what is built by this call is not removed together with "
                              "the enclosing piece, and a module that imports a removed class survives (ModuleNotFoundError at import)",
                              where(f, c), lhs=norm(arg) if arg is not None else "left to its default", rhs=f"{slot} or a collection that contains it")
    rep.floor("dependants_handed_down", n_fw, 6)


def _bind(g: Any, call: ast.Call) -> dict[str, ast.AST]:
    """parameter name of g -> argument expression at `call` (parameters left to their default are absent)"""
    a = g.node.args
    pos = [x.arg for x in [*a.posonlyargs, *a.args]]
    if pos and pos[0] in ("self", "cls") and g.kind != "staticmethod" and g.cls is not None:
        pos = pos[1:]
    out: dict[str, ast.AST] = {}
    for p_, v in zip(pos, call.args):
        if isinstance(v, ast.Starred):
            break
        out[p_] = v
    for k in call.keywords:
        if k.arg is not None:
            out[k.arg] = k.value
    return out


def _callees(ix: Any, g: Any, c: ast.Call) -> list[Any]:
    """functions of the package a call made in g may enter: `self.m()` / `cls.m()` / `Class.m()` -> method m of g's class (or of Class),
    plain `f()` -> function f of g's module"""
    cn = call_name(c)
    head, _, last = cn.rpartition(".")
    out = []
    if head in ("self", "cls") and g.cls is not None:
        m = ix.find_method(g.cls, last)
        if m is not None:
            out.append(m)
    elif head == "":
        out += [h for h in ix.all_functions if h.cls is None and h.parent is None and h.name == last and h.module is g.module]
    else:
        out += [h for h in ix.all_functions if h.cls is not None and h.cls.name == head and h.name == last]
    return out


def _cv(ix: Any, c: Any, name: str) -> tuple[Any, Any]:
    r = ix.find_classvar(c, name)
    if r is None:
        return (c.module, ast.Constant(value=None))
    return (r[0].module, r[1])
