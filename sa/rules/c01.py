"""C01 - every generated client is a valid, importable Python package (structural clauses)."""
from __future__ import annotations

import ast
import re
from typing import Any

from jinja2 import nodes

from .. import lexstate as LX
from .. import tplq
from ..astutil import norm, short, where
from ..charclass import S, members
from ..core import PKG, Report
from ..jinja_interp import expr_text
from ..pe import PathEnum, StringCollector, fstring_text
from ..skelscan import strip_strings

LEVEL = ("necessary conditions, each of which yields a SyntaxError / NameError / ImportError when broken (compiling and importing "
         "every output is not decided): import closure per property kind x requiredness x host (names used by the kind's macros "
         "and type strings that belong to the import universe are imported by the host header or the kind's get_imports); the "
         "check_ helper is named by one method at definition, import and use; lazily imported model classes are imported in "
         "every function that uses them at run time; evaluated annotations are quoted; attribute declaration order (truth "
         "table); lexical neutrality of every template block; dispatch totality; names never start with an underscore.")

_KW = {"if", "else", "elif", "for", "in", "is", "not", "and", "or", "return", "def", "class", "import", "from", "as", "try",
       "except", "finally", "raise", "with", "while", "pass", "None", "True", "False", "lambda", "await", "async"}


def _idents(code: str) -> set[str]:
    out: set[str] = set()
    state = LX.CODE
    for line in code.split("\n"):
        stripped, state, fexprs = strip_strings(line, state)
        for src in [stripped] + fexprs:
            for m in re.finditer(r"(?<![\w.])[^\W\d]\w*", src):
                if m.group(0) not in _KW:
                    out.add(m.group(0))
    return out


def _import_names(text: str) -> set[str]:
    """names bound by an import statement given as text (holes are \\x00)"""
    t = text.replace("\x00", "H")
    try:
        tree = ast.parse(t.strip())
    except SyntaxError:
        return set()
    out = set()
    for n in ast.walk(tree):
        if isinstance(n, ast.ImportFrom):
            out |= {a.asname or a.name for a in n.names}
        elif isinstance(n, ast.Import):
            out |= {(a.asname or a.name).split(".")[0] for a in n.names}
    return out


def run(rep: Report, ctx: Any) -> str:
    ix = ctx.py
    jx = ctx.jinja
    it, ji = ctx.flow
    rep.rule("R01.1", "import closure: for every property kind, requiredness and host module, every name of the import universe used by "
                      "the kind's macros or type strings is imported by the host header or by the kind's get_imports")
    rep.rule("R01.1b", "the literal-enum helper check_<name> is named by the same method where it is defined, imported and called")
    rep.rule("R01.2", "lazy-import placement: every function of the model class whose inlined macros can use a model class at run time "
                      "starts by emitting model.lazy_imports")
    rep.rule("R01.3", "evaluated annotations that can denote a lazily imported class are quoted")
    rep.rule("R01.4", "declaration order: the two class-body loops are complementary and exhaustive over (default is none, required), the "
                      "no-default loop first; positional parameters do not carry defaults out of order")
    rep.rule("R01.5", "lexical neutrality: every template block leaves the lexer of the generated language in the state it found it; no "
                      "newline-inserting filter inside a single-line string")
    rep.rule("R01.6", "dispatch totality (shared with C06 R06.3)")
    rep.rule("R01.7", "a name that starts with an underscore never yields a python name that starts with one")

    # ---- import universe ---------------------------------------------------------------------------------------------
    mt = jx.templates.get("model.py.jinja")
    et = jx.templates.get("endpoint_module.py.jinja")
    rep.require(mt and et, "host templates")

    def header_names(ti: Any) -> set[str]:
        out: set[str] = set()
        for f in tplq.frags(ti.tree.body):
            if f.kind == "data" and not f.loops:
                for line in f.text.splitlines():
                    if re.match(r"\s*(from\s+\S+\s+import|import)\s", line) and not f.guards:
                        out |= _import_names(line)
        return out

    hdr = {"model": header_names(mt), "endpoint": header_names(et)}
    rep.floor("model_header_imports", len(hdr["model"]), 8)
    rep.floor("endpoint_header_imports", len(hdr["endpoint"]), 8)
    sc = StringCollector(ix)
    proto = ix.cls("PropertyProtocol")
    universe = set(hdr["model"]) | set(hdr["endpoint"])
    kind_imports: dict[tuple[str, bool], set[str]] = {}
    for c in ix.property_classes():
        gi = ix.find_method(c, "get_imports")
        for req in (True, False):
            strings = sc.collect(gi, c, {"self.required": req})
            names: set[str] = set()
            for s_ in strings:
                if re.match(r"\s*(from\s+\S+\s+import|import)\s", s_.replace("\x00", "H")):
                    names |= _import_names(s_)
            kind_imports[(c.name, req)] = names
            universe |= names
    universe -= {"H"}
    rep.floor("import_universe", len(universe), 25)

    # ---- R01.1 ------------------------------------------------------------------------------------------------------------
    pe = PathEnum(ix)
    n_ob = 0
    macro_sets = {"model": ("construct", "construct_function", "check_type_for_construct", "transform", "transform_multipart"),
                  "endpoint": ("construct", "construct_function", "check_type_for_construct", "transform", "transform_header",
                               "transform_multipart_body")}
    shared = jx.templates.get("property_templates/property_macros.py.jinja")
    helpers = jx.templates.get("property_templates/helpers.jinja")
    for c in ix.property_classes():
        tname = ix.const_str(*_cv(ix, c, "template")) or ""
        ti = jx.templates.get("property_templates/" + tname)
        rep.require(ti, f"template of {c.name}")
        for req in (True, False):
            # identifiers in type strings of this kind for this requiredness
            tstrings: set[str] = set()
            for mname in ("get_type_string", "get_base_type_string", "get_base_json_type_string", "get_instance_type_string"):
                m = ix.find_method(c, mname)
                if m is not None:
                    for no_opt in (False, True):
                        tstrings |= sc.collect(m, c, {"self.required": req, "no_optional": no_opt})
            for cvn in ("_type_string", "_json_type_string"):
                v = ix.const_str(*_cv(ix, c, cvn))
                if v:
                    tstrings.add(v)
            type_ids = set()
            for s_ in tstrings:
                type_ids |= {m_.group(0) for m_ in re.finditer(r"(?<![\w.])[^\W\d]\w*", s_.replace("\x00", " "))}
            for host in ("model", "endpoint"):
                used = set(type_ids)
                for mn in macro_sets[host]:
                    srcs = [ti]
                    if mn == "construct" and "construct_function" in ti.macros:
                        srcs.append(shared)  # construct_template
                    for src_t in srcs:
                        for mm in ([mn] if src_t is ti else ["construct_template"]):
                            m2 = src_t.macros.get(mm)
                            if m2 is None:
                                continue
                            for fr in tplq.frags(m2.body):
                                if fr.kind != "data":
                                    continue
                                names_ = tplq.guard_atoms(fr)
                                # 'Unset' in get_type_strings_in_union(...)  <=>  not required (R10.1 decides that equivalence)
                                unset_atoms = [a for a in names_ if "'Unset' in property.get_type_strings_in_union" in a]
                                if "property.required" in names_ or unset_atoms:
                                    def consistent(e: dict) -> bool:
                                        if "property.required" in e and e["property.required"] != req:
                                            return False
                                        return all(e[a] == (not req) for a in unset_atoms)
                                    if not any(tplq.guard_holds(fr, e) for e in tplq.assignments(names_) if consistent(e)):
                                        continue
                                used |= _idents(fr.text)
                if host == "endpoint" and not req:
                    used |= {"Unset"}  # guarded_statement
                need = (used & universe)
                have = hdr[host] | kind_imports[(c.name, req)]
                # lazily imported classes and check_ helpers are holes, handled by R01.1b / R01.2
                missing = sorted(need - have)
                n_ob += 1
                rep.check(not missing, "R01.1", f"{c.name}[required={req}]@{host}",
                          f"generated {host} modules using a {'required' if req else 'optional'} {c.name} refer to {missing} without importing "
                          "it (NameError at import or call time)", where=f"{c.module.rel}:{c.node.lineno}", lhs=sorted(need), rhs=sorted(have & need))
    rep.floor("import_closure_obligations", n_ob, 60)

    # ---- R01.1b --------------------------------------------------------------------------------------------------------------
    le = ix.cls("LiteralEnumProperty")
    gi = le.methods.get("get_imports")
    rep.require(gi, "LiteralEnumProperty.get_imports")
    ok_imp = False
    for n in ast.walk(gi.node):
        if isinstance(n, ast.JoinedStr):
            for i, v in enumerate(n.values):
                if isinstance(v, ast.Constant) and str(v.value).endswith("check_") and i + 1 < len(n.values):
                    nxt = n.values[i + 1]
                    ok_imp = isinstance(nxt, ast.FormattedValue) and norm(nxt.value) == "self.get_class_name_snake_case()"
    use_ok = def_ok = False
    lt = jx.templates.get("property_templates/literal_enum_property.py.jinja")
    for fr_prev, fr in _pairs(list(tplq.macro_frags(lt, "construct_function"))):
        if fr_prev.kind == "data" and fr_prev.text.rstrip().endswith("check_") and fr.kind == "expr":
            use_ok = fr.text == "property.get_class_name_snake_case()"
    let = jx.templates.get("literal_enum.py.jinja")
    for fr_prev, fr in _pairs(list(tplq.frags(let.tree.body))):
        if fr_prev.kind == "data" and fr_prev.text.rstrip().endswith("def check_") and fr.kind == "expr":
            def_ok = fr.text == "enum.get_class_name_snake_case()"
    rep.check(ok_imp and use_ok and def_ok, "R01.1b", "literal-enum::check-helper-name",
              f"the check_ helper is named differently where it is defined ({def_ok}), imported ({ok_imp}) and called ({use_ok}): ImportError "
              "for class names whose module name differs from their snake-cased name", where(gi, gi.node), lhs=[def_ok, ok_imp, use_ok],
              rhs="get_class_name_snake_case() at all three")
    # module of the import = module the file is written to
    mods = {norm(v.value) for n in ast.walk(gi.node) if isinstance(n, ast.JoinedStr) for v in n.values if isinstance(v, ast.FormattedValue)
            and "module_name" in norm(v.value)}
    rep.check(mods == {"self.class_info.module_name"}, "R01.1b", "literal-enum::import-module", "helper imported from another module than the enum",
              where(gi, gi.node), lhs=sorted(mods), rhs=["self.class_info.module_name"])

    # ---- R01.2 ---------------------------------------------------------------------------------------------------------------
    top = list(tplq.frags(mt.tree.body))
    defs = [(f.line + f.text[:m_.start()].count("\n"), m_.group(1)) for f in top if f.kind == "data"
            for m_ in re.finditer(r"def (to_dict|to_multipart|from_dict)\(", f.text)]
    lazy_loops = [f_.lineno for f_ in mt.tree.find_all(nodes.For) if expr_text(f_.iter).startswith("model.lazy_imports")]
    rep.floor("model_functions", len(defs), 3)
    for line, name in defs:
        nxt = min([l for l, _ in defs if l > line] + [10 ** 9])
        has = any(line <= l < nxt for l in lazy_loops) and any(line <= l <= line + 2 for l in lazy_loops)
        rep.check(has, "R01.2", f"model.py.jinja::{name}::lazy-imports-first",
                  f"{name} does not start by importing the lazily referenced model classes although the macros it inlines can emit "
                  "isinstance(x, Model) / Model.from_dict(...) (NameError at call time)", where=f"{PKG}/templates/model.py.jinja:{line}",
                  lhs=lazy_loops, rhs=f"a `for lazy_import in model.lazy_imports` loop right after def {name}")
    tc = [f_ for f_ in mt.tree.find_all(nodes.For) if expr_text(f_.iter).startswith("model.lazy_imports")]
    rep.check(any("TYPE_CHECKING" in "".join(getattr(c_, "data", "") for o in f_.find_all(nodes.Output) for c_ in o.nodes) for f_ in tc), "R01.2",
              "model.py.jinja::type-checking-block", "lazy imports are not also emitted under TYPE_CHECKING", where=f"{PKG}/templates/model.py.jinja")

    # ---- R01.3 -----------------------------------------------------------------------------------------------------------------
    ts = proto.methods.get("to_string")
    calls = [c_ for c_ in ast.walk(ts.node) if isinstance(c_, ast.Call) and norm(c_.func) == "self.get_type_string"]
    rep.check(bool(calls) and all(any(k.arg == "quoted" and isinstance(k.value, ast.Constant) and k.value.value is True for k in c_.keywords) for c_ in calls),
              "R01.3", "PropertyProtocol.to_string::quoted", "attribute declarations use unquoted type strings: a lazily imported model class in a "
              "class-level annotation raises NameError at import", where(ts, ts.node))
    # the annotation of additional properties, however the template names it: the expression that asks the property for its type string
    apt = [n for n in mt.tree.find_all(nodes.Assign) if "model.additional_properties.get_type_string(" in expr_text(n.node)] or \
        [c_ for c_ in mt.tree.find_all(nodes.Call) if expr_text(c_.node) == "model.additional_properties.get_type_string"]
    rep.check(bool(apt) and all("quoted=(not model.additional_properties.is_base_type)" in expr_text(getattr(a_, "node", a_) if isinstance(a_, nodes.Assign) else a_)
                                for a_ in apt), "R01.3",
              "model.py.jinja::additional_property_type::quoted", "the additional-properties annotation is not quoted for non-base types",
              where=f"{PKG}/templates/model.py.jinja")
    mp = ix.cls("ModelProperty").methods.get("get_type_string")
    def _quotes(fn: ast.AST) -> bool:
        # an `if` on the parameter `quoted` whose body builds '<something>' (f-string that starts and ends with a single quote)
        for i_ in ast.walk(fn):
            if isinstance(i_, ast.If) and any(isinstance(n_, ast.Name) and n_.id == "quoted" for n_ in ast.walk(i_.test)):
                for j in [x for b_ in i_.body for x in ast.walk(b_) if isinstance(x, ast.JoinedStr)]:
                    v = j.values
                    if (len(v) >= 3 and isinstance(v[0], ast.Constant) and v[0].value == "'" and isinstance(v[-1], ast.Constant)
                            and v[-1].value == "'" and any(isinstance(x, ast.FormattedValue) for x in v)):
                        return True
        return False

    rep.check(_quotes(mp.node), "R01.3", "ModelProperty.get_type_string::quotes-class-name",
              "quoted=True no longer quotes the class name", where(mp, mp.node))

    # ---- R01.4 -------------------------------------------------------------------------------------------------------------------
    # (loop variables are canonical: the variable of `for x in ITER` reads `ITER[*]`, see sa/jinja_canon.py)
    decl = [f for f in top if f.kind == "expr" and f.loops and f.text.startswith(f"declare_property({f.loops[-1]}[*])")]
    rep.check(len(decl) == 2, "R01.4", "model.py.jinja::two-declaration-loops", "expected two declaration passes", where=f"{PKG}/templates/model.py.jinja",
              lhs=len(decl), rhs=2)
    if len(decl) == 2:
        a, b = sorted(decl, key=lambda f: f.line)
        names_ = sorted(set(tplq.guard_atoms(a)) | set(tplq.guard_atoms(b)))
        ok = bool(names_)
        first_no_default = True
        for env in tplq.assignments(names_):
            ha = tplq.guard_holds(a, {k: env[k] for k in tplq.guard_atoms(a)})
            hb = tplq.guard_holds(b, {k: env[k] for k in tplq.guard_atoms(b)})
            if ha == hb:
                ok = False  # not complementary / not exhaustive
            # the first pass must contain exactly the attributes that get no `= ...` : default is none and required
            pv = f"{a.loops[-1]}[*]"
            nd = (env.get(f"{pv}.default is none", False)) and env.get(f"{pv}.required", False)
            if ha != nd:
                first_no_default = False
        same_dom = a.loops == b.loops == ("(model.required_properties + model.optional_properties)",)
        rep.check(ok and first_no_default and same_dom, "R01.4", "model.py.jinja::declaration-order",
                  "attributes without a default are not all declared before attributes with one (attrs raises 'No mandatory attributes allowed "
                  "after an attribute with a default value' at import)", where=f"{PKG}/templates/model.py.jinja:{a.line}",
                  lhs=[[g for g, _ in a.guards], [g for g, _ in b.guards]], rhs="first pass = (default is none and required), second = complement")
    em = jx.templates.get("endpoint_macros.py.jinja")
    arg = em.macros.get("arguments")
    pos = [f for f in tplq.frags(arg.body) if f.kind == "expr" and f.loops == ("endpoint.path_parameters",) and f.text == "endpoint.path_parameters[*].to_string()"]
    star = next((f for f in tplq.frags(arg.body) if f.kind == "data" and f.text.strip().startswith("*,")), None)
    if pos and star is not None and pos[0].line < star.line:
        rep.fail("R01.4", "endpoint_macros.py.jinja::arguments::positional-defaults",
                 "path parameters are positional and emitted through to_string(), which carries the schema default: a defaulted path parameter "
                 "before one without default is a SyntaxError in every function of the endpoint module", where=f"{PKG}/templates/{em.name}:{pos[0].line}",
                 lhs="to_string() before `*,`", rhs="no defaults, or defaulted ones last")
    # ---- R01.5 ---------------------------------------------------------------------------------------------------------------------
    rep.check(not ji.neutrality, "R01.5", "templates::lexically-neutral-blocks", f"some template block changes the lexical state: {list(ji.neutrality.values())[:2]}",
              where="", lhs=len(ji.neutrality), rhs=0)
    for k, msg in sorted(ji.neutrality.items()):
        rep.fail("R01.5", f"{k[0]}::{k[1]}::{k[2]}", msg, where=f"{PKG}/templates/{k[0]}")
    n_py = 0
    for name, st in sorted(ji.top_states.items()):
        n_py += 1
        rep.check(st in (LX.CODE, LX.INERT, LX.COMMENT), "R01.5", f"{name}::ends-in-code", f"template ends inside {st}", where=f"{PKG}/templates/{name}")
    rep.floor("rendered_templates", n_py, 14)
    for e in ji.emissions.values():
        if ("STR1" in e.kind) and re.search(r"\|(wordwrap|indent|center)\b", e.expr):
            rep.fail("R01.5", f"{e.template}::{e.macro}::{e.expr}", "a newline-inserting filter is applied inside a single-line string literal",
                     where=f"{PKG}/templates/{e.template}:{e.line}")
    # ---- R01.6 ------------------------------------------------------------------------------------------------------------------------
    for dk, d in sorted(ji.dispatches.items(), key=lambda kv: (kv[1].template, kv[1].macro, kv[1].expr)):
        rep.check(not d.missing_in, "R01.6", f"{d.template}::{d.macro}::{d.alias}.{d.attr}",
                  f"`{d.alias}.{d.attr}(...)` unguarded but missing in {sorted(set(d.missing_in))}: the module is never written",
                  where=f"{PKG}/templates/{d.template}:{d.line}")
    # ---- R01.7 --------------------------------------------------------------------------------------------------------------------------
    ch = ctx.chars
    t = ctx.tables
    us = 1 << ord("_")
    lead = S(t.ALL, us, False)
    f = ix.func("PythonIdentifier.__new__")
    for mode in (False, True):
        out, paths = ch.run_function(f, {"value": lead, "prefix": ch.PREFIX, "cls": None, "skip_snake_case": mode})
        rep.require(isinstance(out, S), "E6 result")
        rep.check(not (out.first & us), "R01.7", f"PythonIdentifier[{'raw' if mode else 'snake'}]::leading-underscore-input",
                  "a document name starting with '_' can yield a python name starting with '_': attrs strips the underscore for __init__, so "
                  "`_id` next to `id` becomes a duplicate argument (SyntaxError at import)", where=f"{f.module.rel}:{f.node.lineno}",
                  lhs="first characters of the result for inputs starting with '_' (E6)", rhs="never '_'")
    rep.not_decided += ["syntactic validity of the composition of fragments for every document; validity of pyproject.toml beyond its string contexts"]
    return LEVEL


def _cv(ix: Any, c: Any, name: str) -> tuple[Any, Any]:
    r = ix.find_classvar(c, name)
    if r is None:
        return (c.module, ast.Constant(value=None))
    return (r[0].module, r[1])


def _pairs(xs: list[Any]) -> list[tuple[Any, Any]]:
    return list(zip(xs, xs[1:]))
