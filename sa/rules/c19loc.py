"""C19, private helpers: the output location is the one the user chose.

Two value-flow questions that are asked of expressions, not of text:

* `FieldFlow`: does the value a function receives in a parameter arrive, itself and nothing computed from it, in a named field of every
  object of a class (Config) constructed on the way - through whatever chain of package functions, positionally, by keyword, through
  locals or through a keyword dictionary.
* `Placement`: which expressions an attribute of `self` (project_dir) can hold at the end of a constructor when a given field of the
  configuration (output_path) is known to be set - tests are decided by that knowledge however they are written, assignments made in
  helpers and values returned by helpers are followed - and whether such an expression denotes the very location the field names.
"""
from __future__ import annotations

import ast
from typing import Any, Callable

from ..astutil import Locals, call_name, calls_in, norm, short
from .effects import bind_call, callee_of, local_sources


def _params(fn: ast.AST) -> set[str]:
    a = getattr(fn, "args", None)
    return {p.arg for p in (*a.posonlyargs, *a.args, *a.kwonlyargs, *filter(None, (a.vararg, a.kwarg)))} if a is not None else set()


# ---- parameter -> constructor field -------------------------------------------------------------------------------------------------

class FieldFlow:
    def __init__(self, ix: Any, target: Any) -> None:
        self.ix = ix
        self.target = target                      # ClassInfo whose construction ends the chain
        self.fields = list(ix.all_fields(target))
        self.notes: list[str] = []                # why a chain was given up

    def is_ctor(self, f: Any, c: ast.Call) -> bool:
        cn = call_name(c)
        if f.cls is self.target and f.kind == "classmethod" and f.params and cn == f.params[0].arg:
            return True
        if not cn:
            return False
        r = self.ix.resolve(f.module, cn)
        return bool(r) and r[0] == "class" and r[1] is self.target

    def _dict_values(self, f: Any, d: ast.expr, key: str, seen: frozenset = frozenset()) -> "list[ast.expr] | None":
        """what a keyword dictionary can hold under `key`: a display, dict(k=v), or a local built from these and filled by
        `name['k'] = v`; None when it is filled in a way that is not spelled out"""
        if isinstance(d, ast.Dict):
            out: list[ast.expr] = []
            for k, v in zip(d.keys, d.values):
                if k is None:
                    sub = self._dict_values(f, v, key, seen)
                    if sub is None:
                        return None
                    out = sub or out
                elif isinstance(k, ast.Constant) and isinstance(k.value, str):
                    if k.value == key:
                        out = [v]
                else:
                    return None
            return out
        if isinstance(d, ast.Call) and call_name(d) == "dict" and not d.args:
            out = []
            for k in d.keywords:
                if k.arg is None:
                    sub = self._dict_values(f, k.value, key, seen)
                    if sub is None:
                        return None
                    out = sub or out
                elif k.arg == key:
                    out = [k.value]
            return out
        if isinstance(d, ast.Name) and d.id not in seen and d.id not in _params(f.node):
            ds = Locals(f.node).defs.get(d.id, [])
            if not ds or not all(k == "assign" and v is not None for k, _s, v in ds):
                return None
            out = []
            for _k, _s, v in ds:
                sub = self._dict_values(f, v, key, seen | {d.id})  # type: ignore[arg-type]
                if sub is None:
                    return None
                out += sub
            for n in ast.walk(f.node):
                if isinstance(n, ast.Subscript) and isinstance(n.value, ast.Name) and n.value.id == d.id and isinstance(n.ctx, (ast.Store, ast.Del)):
                    if not (isinstance(n.slice, ast.Constant) and isinstance(n.slice.value, str)) or isinstance(n.ctx, ast.Del):
                        return None
                if isinstance(n, ast.Assign):
                    for t in n.targets:
                        if isinstance(t, ast.Subscript) and isinstance(t.value, ast.Name) and t.value.id == d.id and \
                                isinstance(t.slice, ast.Constant) and t.slice.value == key:
                            out.append(n.value)
                if isinstance(n, ast.AugAssign) and isinstance(n.target, ast.Name) and n.target.id == d.id:
                    return None
                if isinstance(n, ast.Call) and isinstance(n.func, ast.Attribute) and isinstance(n.func.value, ast.Name) and \
                        n.func.value.id == d.id and n.func.attr in ("update", "setdefault", "pop", "popitem", "clear", "__setitem__"):
                    return None
            return out
        return None

    def field_values(self, f: Any, c: ast.Call, fld: str) -> "list[ast.expr] | None":
        """the expressions the construction c hands over for field fld ([]: none); None: the arguments are not spelled out"""
        if any(isinstance(a, ast.Starred) for a in c.args):
            return None
        out: list[ast.expr] = []
        if fld in self.fields and self.fields.index(fld) < len(c.args):
            out = [c.args[self.fields.index(fld)]]
        for k in c.keywords:
            if k.arg == fld:
                out = [k.value]
            elif k.arg is None:
                sub = self._dict_values(f, k.value, fld)
                if sub is None:
                    return None
                out = sub or out
        return out

    @staticmethod
    def is_param(f: Any, v: ast.expr, pname: str) -> bool:
        """v stands, through however many plain locals, for the parameter itself and for nothing else"""
        srcs = local_sources(f.node, v)
        return bool(srcs) and all(isinstance(s, ast.Name) and s.id == pname for s in srcs)

    def arrives(self, f: Any, pname: str, fld: str, depth: int = 4, seen: tuple = ()) -> bool:
        if any(isinstance(n, ast.Name) and n.id == pname and isinstance(n.ctx, (ast.Store, ast.Del)) for n in ast.walk(f.node)):
            self.notes.append(f"{short(f)}: `{pname}` is rebound")
            return False
        ctors = [c for c in calls_in(f.node) if self.is_ctor(f, c)]
        if ctors:
            ok = True
            for c in ctors:
                vs = self.field_values(f, c, fld)
                if vs is None:
                    self.notes.append(f"{short(f)}: arguments of `{norm(c)[:40]}` are not spelled out")
                    ok = False
                elif not vs or not all(self.is_param(f, v, pname) for v in vs):
                    self.notes.append(f"{short(f)}: {self.target.name}.{fld} = {[norm(v)[:60] for v in vs] or 'not given'}")
                    ok = False
            return ok
        for c in calls_in(f.node):
            g = callee_of(self.ix, f, c)
            if g is None or g.qual in seen or g == f:
                continue
            for p_, a in (bind_call(self.ix, f, c, g) or {}).items():
                if self.is_param(f, a, pname) and depth > 0 and self.arrives(g, p_, fld, depth - 1, (*seen, f.qual)):
                    return True
        return False


# ---- configuration field -> attribute of the project -------------------------------------------------------------------------------------

MISSING = "<never assigned>"


class Placement:
    def __init__(self, ix: Any, cfg_field: str, decided: bool = True) -> None:
        self.ix = ix
        self.cfg_field = cfg_field
        self.decided = decided   # False: nothing is known about the field - every arm of every selection counts

    # -- does an expression denote the location the field names?
    def denotes(self, f: Any, given: frozenset, x: "ast.AST | None", seen: frozenset = frozenset()) -> bool:
        if not self.decided:
            return False
        if isinstance(x, ast.Attribute):
            return x.attr == self.cfg_field and isinstance(x.ctx, ast.Load)
        if isinstance(x, ast.NamedExpr):
            return self.denotes(f, given, x.value, seen)
        if isinstance(x, ast.Name):
            if x.id in given:
                return True
            if x.id in seen or x.id in _params(f.node):
                return False
            ds = Locals(f.node).defs.get(x.id, [])
            return bool(ds) and all(k == "assign" and self.denotes(f, given, v, seen | {x.id}) for k, _s, v in ds)
        if isinstance(x, ast.Call):
            cn = call_name(x)
            last = cn.rsplit(".", 1)[-1]
            if last == "Path" and len(x.args) == 1 and not x.keywords:                       # Path(p) is p
                return self.denotes(f, given, x.args[0], seen)
            if isinstance(x.func, ast.Attribute) and last in ("absolute", "resolve") and not x.args:   # the same place, spelled in full
                return self.denotes(f, given, x.func.value, seen)
            return False
        if isinstance(x, ast.BinOp) and isinstance(x.op, ast.Div):                          # cwd / p is where p already points
            return _is_cwd(x.left) and self.denotes(f, given, x.right, seen)
        return False

    def decide(self, f: Any, given: frozenset) -> Callable[[ast.expr], "bool | None"]:
        """truth of a test when the field is set (a Path: never None, never falsy)"""

        def ev(t: ast.expr) -> "bool | None":
            if isinstance(t, ast.Compare) and len(t.ops) == 1:
                l, r = t.left, t.comparators[0]
                for a, b in ((l, r), (r, l)):
                    if isinstance(b, ast.Constant) and b.value is None and self.denotes(f, given, a):
                        if isinstance(t.ops[0], (ast.Is, ast.Eq)):
                            return False
                        if isinstance(t.ops[0], (ast.IsNot, ast.NotEq)):
                            return True
                return None
            if isinstance(t, ast.UnaryOp) and isinstance(t.op, ast.Not):
                v = ev(t.operand)
                return None if v is None else not v
            if isinstance(t, ast.BoolOp):
                xs = [ev(v) for v in t.values]
                if isinstance(t.op, ast.And):
                    return False if any(v is False for v in xs) else (True if all(v is True for v in xs) else None)
                return True if any(v is True for v in xs) else (False if all(v is False for v in xs) else None)
            if self.denotes(f, given, t):
                return True
            return None

        return ev

    def _helper(self, f: Any, c: ast.Call) -> "tuple[Any, dict] | None":
        g = callee_of(self.ix, f, c)
        if g is None or g == f:
            return None
        b = bind_call(self.ix, f, c, g)
        if b is None:
            return None
        return g, b

    def values(self, f: Any, given: frozenset, x: "ast.AST | None", depth: int = 5, seen: frozenset = frozenset()) -> list[tuple[Any, frozenset, Any]]:
        """the expressions x can evaluate to when it only selects (conditional expression, `or`, locals, a value returned by a helper)"""
        if x is None:
            return [(f, given, MISSING)]
        if self.denotes(f, given, x) or depth <= 0:
            return [(f, given, x)]
        ev = self.decide(f, given)
        if isinstance(x, ast.IfExp):
            v = ev(x.test)
            arms = [x.body] if v is True else [x.orelse] if v is False else [x.body, x.orelse]
            return [r for a in arms for r in self.values(f, given, a, depth - 1, seen)]
        if isinstance(x, ast.BoolOp) and isinstance(x.op, ast.Or):
            out: list[tuple[Any, frozenset, Any]] = []
            for v in x.values:
                out += self.values(f, given, v, depth - 1, seen)
                if self.denotes(f, given, v):
                    break
            return out
        if isinstance(x, ast.NamedExpr):
            return self.values(f, given, x.value, depth - 1, seen)
        if isinstance(x, ast.Name) and x.id not in seen and x.id not in _params(f.node):
            ds = Locals(f.node).defs.get(x.id, [])
            if ds and all(k == "assign" and v is not None for k, _s, v in ds):
                return [r for _k, _s, v in ds for r in self.values(f, given, v, depth - 1, seen | {x.id})]
        if isinstance(x, ast.Call):
            h = self._helper(f, x)
            if h is not None:
                g, bound = h
                given2 = frozenset(p for p, a in bound.items() if self.denotes(f, given, a))
                rets = _returns(g.node.body, self.decide(g, given2))
                if rets:
                    return [r for rt in rets for r in self.values(g, given2, rt.value, depth - 1)]
        return [(f, given, x)]

    def stores_to(self, f: Any, attr: str, depth: int = 3, seen: tuple = ()) -> bool:
        """f (or a method it calls on the same object) assigns self.<attr>"""
        me = f.params[0].arg if f.params else "self"
        for n in ast.walk(f.node):
            if isinstance(n, ast.Attribute) and n.attr == attr and isinstance(n.ctx, ast.Store) and isinstance(n.value, ast.Name) and n.value.id == me:
                return True
        if depth > 0:
            for c in calls_in(f.node):
                if isinstance(c.func, ast.Attribute) and isinstance(c.func.value, ast.Name) and c.func.value.id == me:
                    g = callee_of(self.ix, f, c)
                    if g is not None and g != f and g.qual not in seen and self.stores_to(g, attr, depth - 1, (*seen, f.qual)):
                        return True
        return False

    def final(self, f: Any, attr: str, given: frozenset = frozenset(), cur: "list | None" = None, depth: int = 3) -> list[tuple[Any, frozenset, Any]]:
        """what self.<attr> can hold when f is through (tests are read knowing that the field is set, when it is)"""
        me = f.params[0].arg if f.params else "self"
        ev = self.decide(f, given)

        def is_target(t: ast.AST) -> bool:
            return isinstance(t, ast.Attribute) and t.attr == attr and isinstance(t.value, ast.Name) and t.value.id == me

        def assigned(st: ast.stmt) -> "ast.expr | None | str":
            """the value st assigns to self.<attr>; '' when it does not"""
            if isinstance(st, ast.Assign):
                for t in st.targets:
                    if is_target(t):
                        return st.value
                    if isinstance(t, (ast.Tuple, ast.List)):
                        for i, e in enumerate(t.elts):
                            if is_target(e):
                                if isinstance(st.value, (ast.Tuple, ast.List)) and len(st.value.elts) == len(t.elts) and \
                                        not any(isinstance(y, ast.Starred) for y in (*st.value.elts, *t.elts)):
                                    return st.value.elts[i]
                                return ast.Subscript(value=st.value, slice=ast.Constant(value=i), ctx=ast.Load())
            if isinstance(st, ast.AnnAssign) and st.value is not None and is_target(st.target):
                return st.value
            if isinstance(st, ast.AugAssign) and is_target(st.target):
                return ast.BinOp(left=st.target, op=st.op, right=st.value)
            return ""

        def block(body: list[ast.stmt], cur: list) -> "list | None":
            """None: the block never falls through"""
            for st in body:
                if isinstance(st, (ast.Return, ast.Raise)):
                    return None
                if isinstance(st, ast.If):
                    v = ev(st.test)
                    arms = [st.body] if v is True else [st.orelse] if v is False else [st.body, st.orelse]
                    outs = [block(a, list(cur)) for a in arms]
                    live = [o for o in outs if o is not None]
                    if not live:
                        return None
                    cur = _merge(live)
                    continue
                a = assigned(st)
                if a != "":
                    cur = self.values(f, given, a)  # type: ignore[arg-type]
                    continue
                if isinstance(st, (ast.For, ast.AsyncFor, ast.While)):
                    inner = block(st.body, list(cur))
                    cur = _merge([cur] + ([inner] if inner is not None else []))
                    continue
                if isinstance(st, (ast.With, ast.AsyncWith)):
                    inner = block(st.body, list(cur))
                    if inner is None:
                        return None
                    cur = inner
                    continue
                if isinstance(st, ast.Try):
                    inner = block(st.body + st.orelse, list(cur))
                    alts = [inner] if inner is not None else []
                    for h in st.handlers:
                        o = block(h.body, _merge([cur] + alts))
                        if o is not None:
                            alts.append(o)
                    if not alts:
                        return None
                    cur = _merge(alts)
                    if st.finalbody:
                        fin = block(st.finalbody, cur)
                        if fin is None:
                            return None
                        cur = fin
                    continue
                if depth > 0 and not isinstance(st, (ast.FunctionDef, ast.AsyncFunctionDef, ast.ClassDef)):
                    for c in calls_in(st):
                        if isinstance(c.func, ast.Attribute) and isinstance(c.func.value, ast.Name) and c.func.value.id == me:
                            h = self._helper(f, c)
                            if h is not None and self.stores_to(h[0], attr):
                                g, bound = h
                                given2 = frozenset(p for p, a_ in bound.items() if self.denotes(f, given, a_))
                                cur = self.final(g, attr, given2, cur, depth - 1)
            return cur

        out = block(f.node.body, cur if cur is not None else [(f, given, MISSING)])
        return out if out is not None else []


def _merge(alts: list[list]) -> list:
    out: list = []
    seen = set()
    for a in alts:
        for r in a:
            k = (r[0].qual, r[1], id(r[2]) if isinstance(r[2], ast.AST) else r[2])
            if k not in seen:
                seen.add(k)
                out.append(r)
    return out


def _returns(body: list[ast.stmt], ev: Callable[[ast.expr], "bool | None"]) -> list[ast.Return]:
    from ..astutil import terminals

    terms, _falls = terminals(body, ev)
    return [t for t in terms if isinstance(t, ast.Return) and t.value is not None]


def _is_cwd(x: ast.AST) -> bool:
    """Path.cwd() / Path() / Path('.') / Path(os.getcwd()): the directory relative paths are taken from anyway"""
    if not isinstance(x, ast.Call) or x.keywords:
        return False
    last = call_name(x).rsplit(".", 1)[-1]
    if last == "cwd" and not x.args:
        return True
    if last == "Path":
        if not x.args:
            return True
        if len(x.args) == 1:
            a = x.args[0]
            return (isinstance(a, ast.Constant) and a.value in (".", "")) or (isinstance(a, ast.Call) and call_name(a).rsplit(".", 1)[-1] == "getcwd")
    return False


def below(f: Any, x: Any, parent_attr: str, depth: int = 6, seen: frozenset = frozenset()) -> bool:
    """x is self.<parent_attr> or a path made from it by joining components that do not step back (`/`, joinpath); a local that is
    extended step by step (`p = self.d; p = p / name`) is below when every one of its values is, itself taken as below"""
    if not isinstance(x, ast.AST):
        return False
    me = f.params[0].arg if f.params else "self"
    if isinstance(x, ast.Attribute):
        return x.attr == parent_attr and isinstance(x.value, ast.Name) and x.value.id == me
    if isinstance(x, ast.BinOp) and isinstance(x.op, ast.Div):
        return below(f, x.left, parent_attr, depth, seen) and _component(x.right)
    if isinstance(x, ast.Call) and isinstance(x.func, ast.Attribute) and x.func.attr == "joinpath" and not x.keywords:
        return below(f, x.func.value, parent_attr, depth, seen) and all(_component(a) for a in x.args)
    if isinstance(x, ast.Name) and x.id not in _params(f.node):
        if x.id in seen:
            return True
        ds = Locals(f.node).defs.get(x.id, [])
        return bool(ds) and depth > 0 and all(
            (k == "assign" and below(f, v, parent_attr, depth - 1, seen | {x.id})) or
            (k == "aug" and isinstance(st, ast.AugAssign) and isinstance(st.op, ast.Div) and v is not None and _component(v)) for k, st, v in ds)
    if isinstance(x, (ast.IfExp, ast.NamedExpr)):
        arms = [x.body, x.orelse] if isinstance(x, ast.IfExp) else [x.value]
        return all(below(f, a, parent_attr, depth, seen) for a in arms)
    return False


def _component(x: ast.AST) -> bool:
    """a joined component that cannot step back by its own text (what it may contain is R19.1's question)"""
    for n in ast.walk(x):
        if isinstance(n, ast.Constant) and isinstance(n.value, str) and (".." in n.value.split("/") or n.value.startswith("/")):
            return False
        if isinstance(n, ast.Attribute) and n.attr in ("parent", "parents", "anchor", "root"):
            return False
    return True
