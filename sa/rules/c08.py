"""C08 - a bad piece of the document never damages unrelated output (containment mechanisms)."""
from __future__ import annotations

import ast
import builtins
from typing import Any

from ..astutil import (ERROR_CLASSES, ERROR_ONLY_HELPERS, Locals, call_name, cfg_of, constructs_error, enclosing_loop_body,
                       error_names, names_in, norm, region, resolved_text, returns_error, role_anon, short, stmt_calls, stmt_of, where)
from ..cfg import CFG, EXIT, walk_own
from ..core import Report
from ..pyindex import FuncInfo, dotted
from . import inplace

LEVEL = ("containment mechanisms only (byte equality of two trees is a relation between runs and is not decided): dependency "
         "recording on every successful path and roots forwarded to every recursive build; removal closed over recorded "
         "dependants; the threaded Schemas/Parameters state is only rebound from the result of a step that received it (no stale "
         "snapshot); an item's failure continues the loop, never ends it; the registry does not alias the caller's roots set; the "
         "registries are written in place only by the frozen table of legitimate writers (everything else registers on an evolved "
         "copy); document-named output directories are rebuilt from empty; a property object that a step was handed (a parameter of a "
         "property type, an element of the registry) is written in place only by its initialiser or by process_model completing the "
         "registered model after its last refusal; a local accumulator that holds recorded diagnostics is returned entire; what decides "
         "about another round of a worklist loop is bound per item only monotonically; an error store is only ever poured on, never "
         "tested, measured or read by a template.")

CONTAIN_LOOPS = {
    "parser.openapi.EndpointCollection.from_data", "parser.openapi.Endpoint._add_responses", "parser.bodies.body_from_data",
    "parser.properties._create_schemas", "parser.properties._process_models", "parser.properties.build_parameters",
    "parser.properties._propogate_removal", "parser.properties._process_model_errors",
}
THREADED = ("schemas", "parameters")


def run(rep: Report, ctx: Any) -> str:
    ix = ctx.py
    cfgs: dict[str, CFG] = {}
    rep.rule("R08.1", "dependency recording is unconditional: every successful return of a function that resolves a schema reference "
                      "passes through add_dependencies; `roots` is forwarded to every recursive property_from_data call")
    rep.rule("R08.2", "removal is closed: _propogate_removal (with its private helpers) deletes the reference, pops class names and removes "
                      "each recorded dependant in turn (recursion per dependant, or dependants put on the worklist it consumes); "
                      "_process_model_errors applies it to every root of every failed model")
    rep.rule("R08.3", "the threaded state (schemas / parameters) is rebound only from results of steps that received it: a failure "
                      "hands back the caller's state, never a stale snapshot")
    rep.rule("R08.4", "loop containment: in the per-item loops (of the containment functions and of the private helpers that work on the "
                      "threaded state for them) no `return` / `break` ends the traversal because of one item: none at all in a `for`; in a "
                      "`while`, none whose reaching is decided by a branch on the item the iteration took from its worklist (how a loop "
                      "over rounds ends - flag, `while True` + break, return - is not an item's doing)")
    rep.rule("R08.5", "Schemas.add_dependencies stores a fresh set and only copies the caller's roots into it")
    rep.rule("R08.6", "only exclusively owned classes are recorded for removal: an add_dependencies call either forwards the `roots` it was "
                      "given, or records a class name for which the recording function rejects an already registered class of that name "
                      "(removal pops the name from classes_by_name: a class shared by name would be taken from its other users)")
    rep.rule("R08.7", "document validation is one all-or-nothing step, so no validator of a piece-level document model raises: a piece the "
                      "parser contains must not be turned into a failure of the whole document before the parser sees it")
    rep.rule("R08.10", "nothing stale remains: what this run omits (a failed piece and its dependants) does not survive from an earlier run in "
                       "the same output directory - every directory that receives modules named after the document is removed earlier in "
                       "the run, on every path that reaches the write (a leftover endpoint module imports model modules this run removed)")
    rep.rule("R08.8", "the product of a fallible, state-threading build step made for an item is never dropped: from the step, every way "
                      "to the end of the iteration hands the product (or its error) on - a piece that does not contribute is skipped "
                      "before it is built, so it can neither fail its container nor leave classes behind (which results of the step are "
                      "fallible products is read off its declared return type; the product is followed through the locals, collections "
                      "and loop variables that come to hold it)")

    rep.rule("R08.11", PROPERTY_RULE_TEXT)
    rep.rule("R08.14", FIXPOINT_RULE_TEXT)
    rep.rule("R08.15", POUR_RULE_TEXT)
    rep.rule("R08.16", PICK_RULE_TEXT)
    rep.rule("R08.12", "the diagnostic of an omitted piece reaches the caller: where a parser function records diagnostics in a local "
                       "accumulator - an error value put into a container it created empty, or into a field declared as a list of errors "
                       "of an object it keeps in such a container - every return that hands the accumulator back hands it back entire: the "
                       "accumulator itself under any local name, a whole copy, or as a whole argument - never a comprehension with a "
                       "condition, a slice, filter(), or after entries were removed (an entry dropped from it takes the diagnostics "
                       "stored on it along, and the piece is omitted without a word)")

    # ---- R08.1 -----------------------------------------------------------------------------------------------------
    pfr = ix.func("properties._property_from_ref")
    cfg = cfg_of(pfr, cfgs)
    errs = error_names(pfr.node)
    dep = [s for s in cfg.stmts() if stmt_calls(s, "add_dependencies")]
    ok_all = bool(dep)
    for s in cfg.stmts():
        if isinstance(s, ast.Return) and not returns_error(s, errs):
            ok = cfg.is_dominated_by(s, lambda n: n in dep)
            ok_all = ok_all and ok
            rep.check(ok, "R08.1", "_property_from_ref::success-records-dependency",
                      "a property built from a reference is returned without recording the dependency (its model survives the removal "
                      "of the referenced schema)", where(pfr, s), lhs=norm(s)[:60], rhs="dominated by schemas.add_dependencies")
    for d in dep:
        for c in ast.walk(d):
            if isinstance(c, ast.Call) and call_name(c).endswith("add_dependencies"):
                kws = {k.arg: norm(k.value) for k in c.keywords}
                refs = set(Locals(pfr.node).bound_from(lambda v: v == "parse_reference_path(data.ref)", "assign"))
                rep.check(kws.get("roots") == "roots" and kws.get("ref_path") in refs, "R08.1", "_property_from_ref::records-own-roots",
                          "the dependency is recorded for something else than (ref_path, roots)", where(pfr, c), lhs=kws,
                          rhs="ref_path=<parse_reference_path(data.ref)>, roots=roots")
    pp = ix.func("model_property._process_properties")
    _allof_reference_recorded(rep, ix, pp, cfgs)
    n_calls = 0
    for f in ix.all_functions:
        params = {p.arg for p in f.params}
        for c in ast.walk(f.node):
            if isinstance(c, ast.Call) and call_name(c).rsplit(".", 1)[-1] == "property_from_data":
                kws = {k.arg: norm(k.value) for k in c.keywords}
                if "roots" in params or "roots" in {n.id for n in ast.walk(f.node) if isinstance(n, ast.Name)}:
                    n_calls += 1
                    # `roots` itself, or a local built from it (e.g. {*roots, class_info.name})
                    lc_ = Locals(f.node)
                    rv_ = kws.get("roots") or ""
                    grown = bool(lc_.values_of(rv_)) and all("roots" in {x.id for x in ast.walk(v_) if isinstance(x, ast.Name)} for v_ in lc_.values_of(rv_))
                    rep.check(rv_ == "roots" or grown, "R08.1", f"{short(f)}::forwards-roots",
                              "a nested schema is built without the roots of the enclosing schema: its references are not tied to the "
                              "enclosing model", where(f, c), lhs=kws.get("roots"), rhs="roots=roots")
                elif f.cls is not None and f.name == "build" and f.cls.name in ("UnionProperty", "ListProperty", "ModelProperty"):
                    n_calls += 1
                    rep.fail("R08.1", f"{short(f)}::forwards-roots",
                             f"{f.cls.name}.build builds its member schemas through property_from_data without `roots`: a model whose union "
                             "member refers to a schema that is later removed keeps importing the removed module", where(f, c),
                             lhs="no roots parameter", rhs="roots forwarded from property_from_data")
    rep.floor("recursive_build_calls", n_calls, 2)
    pfd = ix.func("properties.property_from_data")
    for c in ast.walk(pfd.node):
        if isinstance(c, ast.Call) and call_name(c).endswith(".build"):
            callee_cls = call_name(c).split(".")[0]
            cinfo = next((k for k in ix.classes.values() if k.name == callee_cls), None)
            b = cinfo.methods.get("build") if cinfo else None
            if b is not None and "roots" in {p.arg for p in b.params}:
                kws = {k.arg: norm(k.value) for k in c.keywords}
                rep.check(kws.get("roots") == "roots", "R08.1", f"property_from_data::{callee_cls}.build-roots", "roots not passed to the builder",
                          where(pfd, c), lhs=kws.get("roots"), rhs="roots")

    # ---- R08.2 ------------------------------------------------------------------------------------------------------------
    _removal_closed(rep, ix)

    # ---- R08.3 --------------------------------------------------------------------------------------------------------------
    n_thr = 0
    for f in ix.all_functions:
        if not f.module.name.startswith("openapi_python_client.parser"):
            continue
        pnames = {p_.arg for p_ in f.params}
        state_vars = {v_ for v_ in THREADED if v_ in pnames} | set(Locals(f.node).bound_from(
            lambda t_: t_.startswith(("Schemas(", "Parameters(")), "assign"))
        for var in sorted(state_vars):
            assigns: list[tuple[ast.Assign, ast.expr]] = []   # (statement, the value `var` is bound to: `a, b = x, y` binds a to x)
            for n in ast.walk(f.node):
                if isinstance(n, ast.Assign):
                    for tg in n.targets:
                        names = [tg] if isinstance(tg, ast.Name) else (list(tg.elts) if isinstance(tg, ast.Tuple) else [])
                        paired = isinstance(tg, ast.Tuple) and isinstance(n.value, ast.Tuple) and len(n.value.elts) == len(tg.elts) and \
                            not any(isinstance(x, ast.Starred) for x in [*tg.elts, *n.value.elts])
                        for i, x in enumerate(names):
                            if isinstance(x, ast.Name) and x.id == var:
                                assigns.append((n, n.value.elts[i] if paired else n.value))
            if not assigns:
                continue
            # names that hold results of steps which received the state
            derived = _derived(f.node, {var})
            for a, v in assigns:
                n_thr += 1
                ok = _takes(v, derived) or (isinstance(v, ast.Call) and call_name(v).rsplit(".", 1)[-1] in ("Schemas", "Parameters")) or \
                    (isinstance(v, ast.Name) and v.id in derived and _result_name(f.node, v.id, var)) or \
                    (isinstance(v, ast.Attribute) and isinstance(v.value, ast.Name) and v.value.id in derived)
                rep.check(ok, "R08.3", f"{short(f)}::{var} = {norm(v)[:40]}",
                          f"`{var}` is rebound from something that is not the result of a step which received it (a stale snapshot discards "
                          "the classes registered by earlier, valid items)", where(f, a), lhs=norm(a)[:80], rhs="result of f(..., " + var + "=...) / evolve")
    rep.floor("threaded_state_assignments", n_thr, 21)
    # error returns hand back the input state (which element of the returned tuple is the Schemas is read off the declared return type)
    n_ret = 0
    for f in ix.all_functions:
        ann = _annotation(f.node.returns)
        if not (isinstance(ann, ast.Subscript) and (dotted(ann.value) or "").rsplit(".", 1)[-1] in ("tuple", "Tuple")):
            continue
        parts = list(ann.slice.elts) if isinstance(ann.slice, ast.Tuple) else [ann.slice]
        at = [i for i, p_ in enumerate(parts) if "Schemas" in _type_names(p_)]
        if not at:
            continue
        errs = error_names(f.node)
        # the state as this function holds it: the threaded variable, and the locals bound to (an element of) the result of a step that
        # received it - the same notion of `result of a step` by which the rebinding of the variable is judged above, so `schemas = new;
        # return err, schemas` and `return err, new` are one decision
        live = _derived(f.node, {"schemas"} | {p_.arg for p_ in f.params if p_.annotation is not None and "Schemas" in _type_names(p_.annotation)})
        for r in ast.walk(f.node):
            if isinstance(r, ast.Return) and isinstance(r.value, ast.Tuple) and len(r.value.elts) == len(parts) and returns_error(r, errs):
                n_ret += 1
                states = [r.value.elts[i] for i in at]
                label = next((norm(e) for i, e in enumerate(r.value.elts) if i not in at), "")
                rep.check(all(isinstance(s2, ast.Name) and s2.id in live for s2 in states), "R08.3", f"{short(f)}::error-return-state[{label[:30]}]",
                          "an error is returned together with something other than the threaded `schemas` state (the variable itself, or "
                          "a local that holds the result of a step which received it)", where(f, r),
                          lhs=[norm(s2) for s2 in states], rhs="schemas / <result of f(..., schemas=...)>")
    rep.floor("error_returns_with_state", n_ret, 16)

    # ---- R08.4 ----------------------------------------------------------------------------------------------------------------
    _loops_contain(rep, ix, cfgs)

    check_no_alias(rep, ctx, "R08.5")
    _exclusive_dependants(rep, ix, cfgs)
    _piece_validators_do_not_raise(rep, ix)
    _products_not_dropped(rep, ix, cfgs)
    # ---- R08.9: who may write the registries in place (stated once, in inplace.py, for C08 / C12 / C20) ---------------------------
    inplace.check(rep, ctx, "R08.9")
    # ---- R08.10: what this run omits does not survive from an earlier run ------------------------------------------------------------
    _nothing_stale_remains(rep, ctx)
    # ---- R08.11: property objects are shared values -----------------------------------------------------------------------------------
    _property_objects_not_written(rep, ctx)
    # ---- R08.12: recorded diagnostics are returned entire -----------------------------------------------------------------------------
    _diagnostics_returned_entire(rep, ix)
    # ---- R08.14: the retry over rounds is not one item's to end ------------------------------------------------------------------------
    _fixpoint_not_decided_by_one_item(rep, ctx)
    # ---- R08.15: diagnostics do not steer generation -----------------------------------------------------------------------------------
    _diagnostics_only_poured(rep, ctx)
    # ---- R08.16: an emptied collection does not stop the render ---------------------------------------------------------------------
    _picked_elements_exist(rep, ctx)
    # ---- R08.13 (sa/rules/rejected_items.py): a rejected item leaves nothing behind in the threaded registries
    from . import rejected_items

    rep.floor("item_loops_that_thread_a_registry", rejected_items.check(rep, ctx, "R08.13"), 2)
    rejected_items.control(rep, ctx, "R08.13")
    rep.not_decided += ["byte equality of the output trees with and without the bad piece"]
    return LEVEL


class _Under:
    """A Report seen through another rule id: lets this property state, under its own id, a rule that another property's module
    already states generally (one statement of the rule, one implementation)."""

    def __init__(self, rep: Report, rid: str) -> None:
        self._rep = rep
        self._rid = rid

    def check(self, cond: bool, rule: str, construct: str, message: str, where: str = "", lhs: Any = None, rhs: Any = None, **facts: Any) -> bool:
        return self._rep.check(cond, self._rid, construct, message, where, lhs, rhs, **facts)

    def ok(self, rule: str, construct: str, lhs: Any = None, rhs: Any = None, nontrivial: bool = True) -> None:
        self._rep.ok(self._rid, construct, lhs, rhs, nontrivial)

    def fail(self, rule: str, construct: str, message: str, where: str = "", lhs: Any = None, rhs: Any = None, **facts: Any) -> None:
        self._rep.fail(self._rid, construct, message, where, lhs, rhs, **facts)

    def rule(self, rid: str, text: str) -> None:
        self._rep.rule(self._rid, text)

    def __getattr__(self, name: str) -> Any:
        return getattr(self._rep, name)


class _UnderOnly(_Under):
    """... and only those of its obligations whose construct key is wanted here (the others are that property's own business)"""

    def __init__(self, rep: Report, rid: str, wanted: Any) -> None:
        super().__init__(rep, rid)
        self._wanted = wanted

    def check(self, cond: bool, rule: str, construct: str, message: str, where: str = "", lhs: Any = None, rhs: Any = None, **facts: Any) -> bool:
        return super().check(cond, rule, construct, message, where, lhs, rhs, **facts) if self._wanted(construct) else bool(cond)

    def ok(self, rule: str, construct: str, lhs: Any = None, rhs: Any = None, nontrivial: bool = True) -> None:
        if self._wanted(construct):
            super().ok(rule, construct, lhs, rhs, nontrivial)

    def fail(self, rule: str, construct: str, message: str, where: str = "", lhs: Any = None, rhs: Any = None, **facts: Any) -> None:
        if self._wanted(construct):
            super().fail(rule, construct, message, where, lhs, rhs, **facts)


def _nothing_stale_remains(rep: Report, ctx: Any) -> None:
    """The pieces a run omits must not be in the output tree afterwards either - also when the tree held an earlier generation (the
    documented update workflow: regenerate in place after the document changed).  A module of an endpoint that is now omitted, left
    over from the earlier run, imports model modules that this run removed.  The structural necessary condition is the one C01 states
    as R01.9 - every directory that receives entries named after the document is removed earlier in the run on every path that reaches
    the write (paths are the abstract interpreter's values, effects are followed through helpers) - so it is evaluated by that rule's
    own implementation and reported here under this property's id."""
    from . import c01

    rule = getattr(c01, "_rebuilt_from_empty", None)
    rep.require(callable(rule), "the no-stale-module rule of C01 (c01._rebuilt_from_empty), which R08.10 evaluates")
    rule(_Under(rep, "R08.10"), ctx)


PICK_RULE_TEXT = (
    "an emptied collection does not stop the render: what omitting a piece leaves behind is a smaller collection, possibly an empty one "
    "(a tag whose operations were all refused keeps its collection, without endpoints). Where a template reads an attribute or an item "
    "of, or calls, an element picked out of a collection - `| first`, `| last`, `| random`, `| min`, `| max`, `[<integer>]`, written "
    "inline or held by a `set` / `with` variable - the collection is known to hold that element: at the dereference or where the "
    "variable was bound, the template is inside a loop over the collection, or under conditions (truth table over their atoms; `and` / "
    "`or` / inline-if count, and so does an arm that ended the iteration with continue / break) that leave no length below the one "
    "needed - the collection or its length tested, its length compared with a constant; `.values()` / `| list` / `| sort` ... of a "
    "collection are as empty as the collection - or the picked element itself was tested (truthy / `is defined`); a collection that is "
    "(part of) a macro's argument may instead be known to hold it at every call of the macro. Otherwise jinja2 "
    "answers the pick with Undefined and the dereference raises UndefinedError: the build stops between two files, and the unrelated "
    "modules after it are never written")


def _picked_elements_exist(rep: Report, ctx: Any) -> None:
    from . import c08_picks

    n = 0
    found = c08_picks.sites_of({name: ti.tree for name, ti in sorted(ctx.jinja.templates.items())})
    for name in sorted({st.template for st in found}):
        by_key: dict[str, list[Any]] = {}
        for st in found:
            if st.template == name:
                by_key.setdefault(st.key, []).append(st)
        for key, sts in sorted(by_key.items()):
            n += len(sts)
            bad = [st for st in sts if not st.ok]
            at = (bad or sts)[0]
            rep.check(not bad, "R08.16", key,
                      f"an attribute / item of `{c08_picks.expr_text(at.pick)[:80]}` is read (or it is called) where "
                      f"`{c08_picks.expr_text(at.coll)[:60]}` is not known to hold {'an element' if at.need == 1 else f'{at.need} elements'}: "
                      "when the pieces that would fill it were omitted the pick is Undefined, the dereference raises UndefinedError and the "
                      "build stops before the remaining modules are written",
                      where=f"openapi_python_client/templates/{name}:{getattr(at.node, 'lineno', 0)}",
                      lhs=f"{len(bad)} of {len(sts)} dereferences unguarded", rhs="inside a loop over the collection / under a guard that implies it is non-empty")
    rep.indexed["picked_element_dereferences"] = n
    fired = c08_picks.control()
    rep.control("R08.16 unguarded dereference of a picked element", fired)
    rep.require(fired, "the positive control of R08.16 (a synthetic template with guarded and unguarded dereferences of picked elements)")


FIXPOINT_RULE_TEXT = (
    "the fixpoint over models is not one piece's to end: a worklist loop that re-queues the items it could not process yet (a model "
    "whose allOf parent comes later in the document) runs another round as long as ANY item of the round got somewhere. What decides "
    "about another round (what the `while` test reads, what the tests before a break / return of the round loop read - followed into "
    "the private helpers of the round) is bound per item only monotonically: one constant, or a value accumulated from the variable "
    "itself - never a value computed from the item alone, which lets the last item of a round decide and so lets a piece that can "
    "never be processed take the retry away from the pieces that wait for it (they would be reported and removed with everything that "
    "depends on them); and some per-item binding can move it away from what the round resets it to")


def _fixpoint_not_decided_by_one_item(rep: Report, ctx: Any) -> None:
    """The retry loop of _process_models is a containment mechanism of this property (the order of definition does not matter): were
    the decision about another round one item's, an invalid schema at the right place of the document would end the retry, and every
    model still waiting for its parent would be reported and removed with all that depends on it.  The structural necessary
    condition is the one C12 states for worklist rounds (found by role, indifferent to flag / counter / `while True` + break, polarity
    and to helpers), so it is evaluated by that rule's own implementation and reported here under this property's id."""
    from . import c12

    rule = getattr(c12, "_round_loops", None)
    rep.require(callable(rule), "the worklist-round rule of C12 (c12._round_loops), which R08.14 evaluates")
    # (what that rule says about the errors recorded with a re-queue - round-structure, round-errors - stays C12's own statement)
    rule(_UnderOnly(rep, "R08.14", lambda key: "::round-progress" in key), ctx.py)


def check_no_alias(rep: Report, ctx: Any, rid: str) -> None:
    """Schemas.add_dependencies stores a fresh set and only copies the caller's roots into it (shared by C08 / C20)"""
    ix = ctx.py
    ad = ix.func("Schemas.add_dependencies")
    uses = [n for n in ast.walk(ad.node) if isinstance(n, ast.Name) and n.id == "roots" and isinstance(n.ctx, ast.Load)]
    bad = []
    for u in uses:
        par = _parent_call(ad.node, u)
        if par is None or not (isinstance(par.func, ast.Attribute) and par.func.attr in ("update", "union") and u in par.args):
            bad.append(norm(par)[:70] if par is not None else "bare use")
    rep.check(bool(uses) and not bad, rid, "Schemas.add_dependencies::no-alias",
              f"the caller's `roots` set is stored in the registry itself ({bad}): later additions for other dependants land in the first "
              "dependant's roots, and its failure removes unrelated schemas", where(ad, ad.node), lhs=bad, rhs="only `.update(roots)` into a fresh set()")
    fresh = any(isinstance(c, ast.Call) and call_name(c).endswith("setdefault") and len(c.args) == 2 and norm(c.args[1]) == "set()" for c in ast.walk(ad.node))
    rep.check(fresh, rid, "Schemas.add_dependencies::fresh-set", "the registry entry is not created as a fresh set()", where(ad, ad.node))


def _takes(v: ast.expr, names: set[str]) -> bool:
    """v is a call (or a tuple/await of it) that receives one of `names` as an argument - or as the object whose method is called -, or
    evolve(<name>, ...)"""
    if isinstance(v, ast.Call):
        args = [a for a in v.args] + [k.value for k in v.keywords]
        if isinstance(v.func, ast.Attribute) and isinstance(v.func.value, ast.Name) and v.func.value.id in names:
            return True   # <state>.method(...): the method receives the state as self
        for a in args:
            if isinstance(a, ast.Name) and a.id in names:
                return True
            if isinstance(a, ast.Attribute) and isinstance(a.value, ast.Name) and a.value.id in names:
                return True
        return False
    return False


def _derived(fn: ast.AST, base: set[str]) -> set[str]:
    """`base` and the locals bound to (an element of) the result of a call that received one of them (transitively)"""
    derived = set(base)
    changed = True
    while changed:
        changed = False
        for n in ast.walk(fn):
            if isinstance(n, (ast.Assign, ast.AnnAssign)) and n.value is not None:
                tgts = n.targets if isinstance(n, ast.Assign) else [n.target]
                if _takes(n.value, derived):
                    for tg in tgts:
                        for x in ([tg] if isinstance(tg, ast.Name) else (list(tg.elts) if isinstance(tg, ast.Tuple) else [])):
                            if isinstance(x, ast.Name) and x.id not in derived:
                                derived.add(x.id)
                                changed = True
    return derived


def _result_name(fn: ast.AST, name: str, var: str) -> bool:
    """`name` is bound (only) from results of calls taking the state, e.g. schemas_or_err / new_schemas"""
    if name == var:
        return True
    defs = [n for n in ast.walk(fn) if isinstance(n, ast.Assign) and any(
        (isinstance(t, ast.Name) and t.id == name) or (isinstance(t, ast.Tuple) and any(isinstance(x, ast.Name) and x.id == name for x in t.elts))
        for t in n.targets)]
    return bool(defs) and all(isinstance(d.value, ast.Call) for d in defs)


def _parent_call(fn: ast.AST, node: ast.AST) -> ast.Call | None:
    best = None
    for c in ast.walk(fn):
        if isinstance(c, ast.Call) and any(x is node for x in ast.walk(c)) and c is not node:
            best = c
    return best


# ---- R08.2: removal is closed over the recorded dependants ----------------------------------------------------------------------

GROW = {"extend", "update", "append", "add", "extendleft", "appendleft", "insert", "put", "put_nowait"}


def _drops_entry(g: FuncInfo, attr: str) -> bool:
    """g deletes an entry of <...>.<attr> (del x.attr[k] / x.attr.pop(k), also through a local bound to x.attr)"""
    for n in ast.walk(g.node):
        recv = None
        if isinstance(n, ast.Delete):
            recv = next((t.value for t in n.targets if isinstance(t, ast.Subscript) and attr in resolved_text(t.value, g.node)), None)
        elif isinstance(n, ast.Call) and isinstance(n.func, ast.Attribute) and n.func.attr in ("pop", "__delitem__"):
            recv = n.func.value if attr in resolved_text(n.func.value, g.node) else None
        if recv is not None:
            return True
    return False


def _revisits_dependants(g: FuncInfo, names: set[str]) -> bool:
    """what is recorded under <...>.dependencies is itself removed: a loop over it whose body calls the removal again for its element
    (recursion), or it is put on the worklist the removal loop takes its items from (iteration)"""
    def deps(e: ast.AST) -> bool:
        return ".dependencies" in resolved_text(e, g.node)

    worklists: set[str] = set()
    for lp in ast.walk(g.node):
        if isinstance(lp, ast.While):
            worklists |= _take(lp)[1]
        elif isinstance(lp, (ast.For, ast.AsyncFor)):
            worklists |= names_in(lp.iter)
    for n in ast.walk(g.node):
        if isinstance(n, (ast.For, ast.AsyncFor)) and deps(n.iter):
            tg = names_in(n.target)
            if any(isinstance(c, ast.Call) and call_name(c).rsplit(".", 1)[-1] in names and
                   any(names_in(a) & tg for a in [*c.args, *[k.value for k in c.keywords]]) for b in n.body for c in ast.walk(b)):
                return True
        if isinstance(n, (ast.ListComp, ast.SetComp, ast.GeneratorExp)) and any(deps(gen.iter) for gen in n.generators):
            tg = set().union(*[names_in(gen.target) for gen in n.generators])
            if any(isinstance(c, ast.Call) and call_name(c).rsplit(".", 1)[-1] in names and
                   any(names_in(a) & tg for a in [*c.args, *[k.value for k in c.keywords]]) for c in ast.walk(n.elt)):
                return True
        if isinstance(n, ast.Call) and isinstance(n.func, ast.Attribute) and n.func.attr in GROW and _root_name(n.func.value) in worklists \
                and any(deps(a) for a in n.args):
            return True
        if isinstance(n, ast.AugAssign) and isinstance(n.target, ast.Name) and n.target.id in worklists and deps(n.value):
            return True
        if isinstance(n, ast.Assign) and deps(n.value) and names_in(n.value) & worklists and \
                any(names_in(t) & worklists for t in n.targets):
            return True  # pending = pending + deps / [*pending, *deps]
    return False


def _removal_closed(rep: Report, ix: Any) -> None:
    pr = ix.func("properties._propogate_removal")
    reg = _state_region(ix, pr)
    names = {g.name for g in reg}
    deletes_ref = any(_drops_entry(g, "classes_by_reference") for g in reg)
    pops_class = any(_drops_entry(g, "classes_by_name") for g in reg)
    visits_deps = any(_revisits_dependants(g, names) for g in reg)
    rep.check(deletes_ref and visits_deps and pops_class, "R08.2", "_propogate_removal::closed",
              "removal no longer deletes the reference, pops class names and visits the recorded dependants", where(pr, pr.node),
              lhs=[deletes_ref, visits_deps, pops_class], rhs="delete reference, visit dependants, pop class names")
    # every root of every failed model: the removal is called (here or in a private helper) with an element of <model>.roots, the model
    # being an element of model_errors
    pme = ix.func("properties._process_model_errors")
    ok = False
    for g in region(ix, pme):
        if g.qual == pr.qual:
            continue
        for c in ast.walk(g.node):
            if not (isinstance(c, ast.Call) and call_name(c).rsplit(".", 1)[-1] == pr.name):
                continue
            kws = {k.arg: k.value for k in c.keywords}
            root = kws.get("root", c.args[0] if c.args else None)
            if root is None or not _each_of(root, g.node, ".roots"):
                continue
            if g.qual == pme.qual:
                ok = ok or _each_of(root, g.node, "model_errors")
            else:  # the helper handles one model: it is called for each of model_errors
                ok = ok or any(isinstance(c2, ast.Call) and call_name(c2).rsplit(".", 1)[-1] == g.name and
                               any(_each_of(a, pme.node, "model_errors") for a in [*c2.args, *[k.value for k in c2.keywords]])
                               for c2 in ast.walk(pme.node))
    rep.check(ok, "R08.2", "_process_model_errors::every-root", "removal is not applied to every root of every failed model", where(pme, pme.node))


def _each_of(e: ast.AST, fn: ast.AST, what: str, depth: int = 4) -> bool:
    """e is (computed from) a loop / comprehension variable that runs over - or an element taken off - something whose text, followed
    through the locals it is made of, mentions `what`"""
    lc = Locals(fn)
    seen: set[str] = set()
    frontier = names_in(e)
    for _ in range(depth):
        nxt: set[str] = set()
        for n in sorted(frontier - seen):
            seen.add(n)
            for kind, _, v in lc.defs.get(n, []):
                if v is None:
                    continue
                if (kind.startswith("for") or _taken_from(v) is not None) and what in resolved_text(v, fn):
                    return True
                nxt |= names_in(v)
        frontier = nxt
    return False


# ---- R08.4: an item never ends the traversal ------------------------------------------------------------------------------------

TAKES = {"pop", "popleft", "popitem", "get_nowait"}
STATE_CLASSES = {"Schemas", "Parameters"}


def _own_nodes(lp: ast.AST) -> list[ast.AST]:
    """nodes of the loop that run as part of it (not the bodies of functions / lambdas defined inside it)"""
    skip: set[int] = set()
    for d in ast.walk(lp):
        if isinstance(d, (ast.FunctionDef, ast.AsyncFunctionDef, ast.Lambda)) and d is not lp:
            skip |= {id(x) for x in ast.walk(d) if x is not d}
    return [n for n in ast.walk(lp) if id(n) not in skip]


def _state_names(g: FuncInfo) -> set[str]:
    """names under which g holds the threaded state: parameters called schemas / parameters or annotated with the state classes,
    locals created as Schemas(...) / Parameters(...); in a method of a state class, the receiver"""
    out = {p.arg for p in g.params if p.arg in THREADED or (p.annotation is not None and _type_names(p.annotation) & STATE_CLASSES)}
    if g.cls is not None and g.cls.name in STATE_CLASSES and g.kind == "method" and g.params:
        out.add(g.params[0].arg)
    return out | set(Locals(g.node).bound_from(lambda t_: t_.startswith(("Schemas(", "Parameters(")), "assign"))


def _state_region(ix: Any, f: FuncInfo, depth: int = 3) -> list[FuncInfo]:
    """f with the private helpers it delegates to (astutil.region) and - what a mechanism that works on the threaded state may equally
    be moved into - the methods of the state classes (Schemas / Parameters) that these call on a state they hold (a parameter of that
    type, a local created as one, the receiver inside such a method), each again with its private helpers; transitively."""
    out: list[FuncInfo] = []
    seen: set[str] = set()
    frontier = [f]
    for _ in range(depth + 1):
        nxt: list[FuncInfo] = []
        for h in frontier:
            for g in region(ix, h):
                if g.qual in seen:
                    continue
                seen.add(g.qual)
                out.append(g)
                state = _state_names(g)
                kinds = {p.arg: _type_names(p.annotation) & STATE_CLASSES for p in g.params if p.annotation is not None}
                for c in ast.walk(g.node):
                    if not (isinstance(c, ast.Call) and isinstance(c.func, ast.Attribute) and isinstance(c.func.value, ast.Name)
                            and c.func.value.id in state):
                        continue
                    own = {g.cls.name} if g.cls is not None and g.cls.name in STATE_CLASSES and g.params and c.func.value.id == g.params[0].arg else set()
                    for cn in sorted(own or kinds.get(c.func.value.id) or STATE_CLASSES):
                        k = next((k_ for k_ in ix.classes.values() if k_.name == cn and k_.module.name.startswith("openapi_python_client.parser")), None)
                        m = ix.find_method(k, c.func.attr) if k is not None else None
                        if m is not None and m.qual not in seen:
                            nxt.append(m)
        frontier = nxt
    return out


def _taken_from(v: ast.AST | None) -> str | None:
    """the collection that `v` takes one element out of: <c>.pop(...) / .popleft() / .popitem(), next(<c>), <c>[0] / <c>[-1]"""
    while isinstance(v, ast.Await):
        v = v.value
    if isinstance(v, ast.Call) and isinstance(v.func, ast.Attribute) and v.func.attr in TAKES:
        return _root_name(v.func.value)
    if isinstance(v, ast.Call) and call_name(v) == "next" and v.args:
        return _root_name(v.args[0])
    if isinstance(v, ast.Subscript) and isinstance(v.value, ast.Name):
        i = v.slice.operand if isinstance(v.slice, ast.UnaryOp) else v.slice
        if isinstance(i, ast.Constant) and isinstance(i.value, int):
            return v.value.id
    return None


def _items_of(lp: ast.While) -> set[str]:
    return _take(lp)[0]


def _take(lp: ast.While) -> tuple[set[str], set[str]]:
    """(items, worklists).  The `current item` of a while loop: what an iteration takes out of a collection (worklist form:
    x = pending.pop(...), next(it), pending[0]) and the locals computed from it.  A loop without such a take (`while still_making_progress`, `while True` around a
    round over all items) has no current item: its iterations are rounds, and how it ends is the fixpoint's own business."""
    own = _own_nodes(lp)
    items: set[str] = set()
    sources: set[str] = set()
    binds: list[tuple[set[str], ast.AST]] = []
    for n in own:
        if isinstance(n, ast.Assign):
            for t in n.targets:
                if isinstance(t, (ast.Tuple, ast.List)) and isinstance(n.value, (ast.Tuple, ast.List)) and len(t.elts) == len(n.value.elts):
                    binds += [(names_in(x), v_) for x, v_ in zip(t.elts, n.value.elts)]  # a, b = x, y
                elif isinstance(t, (ast.Name, ast.Tuple, ast.List)):
                    binds.append((names_in(t), n.value))
        elif isinstance(n, (ast.AnnAssign, ast.NamedExpr, ast.AugAssign)) and n.value is not None and isinstance(n.target, ast.Name):
            binds.append(({n.target.id}, n.value))
        elif isinstance(n, (ast.For, ast.comprehension)):
            binds.append((names_in(n.target), n.iter))
    for tg, v in binds:
        src = _taken_from(v)
        if src is not None:
            items |= tg
            sources.add(src)
    changed = bool(items)
    while changed:
        changed = False
        for tg, v in binds:
            new = tg - items - sources
            if new and names_in(v) & items:
                items |= new
                changed = True
    return items - sources, sources


def _decided_by_item(cfg: CFG, lp: ast.While, ex: ast.stmt, items: set[str]) -> ast.stmt | None:
    """the branch on the current item that decides whether this iteration reaches the exit `ex` (reached from some of its arms, not from
    all of them); indifferent to nested-if / early-continue form and to branch order"""
    def reaches(s0: object) -> bool:
        return s0 is not lp and (s0 is ex or ex in cfg.reachable_from(s0, avoid=lambda n: n is lp))

    for t in _own_nodes(lp):
        if not isinstance(t, (ast.If, ast.Match)) or t not in cfg.succ:
            continue
        if not (names_in(t.test if isinstance(t, ast.If) else t.subject) & items):
            continue
        arms = [s0 for s0 in cfg.succ[t] if not isinstance(s0, ast.ExceptHandler)]
        if len(arms) > 1 and len({reaches(s0) for s0 in arms}) > 1:
            return t
    return None


def _loops_contain(rep: Report, ix: Any, cfgs: dict[str, CFG]) -> None:
    """Loops of the containment functions and of the private helpers they delegate to (a helper's loop counts when it works on the
    threaded state: that is where a per-item loop goes when a round is extracted).  `for`: an iteration is an item, so no return / own
    break.  `while`: an exit is item-caused when a branch on the current item decides whether it is reached."""
    n_l = 0
    done: set[str] = set()
    for f in ix.all_functions:
        if short(f) not in CONTAIN_LOOPS:
            continue
        for g in _state_region(ix, f):
            if g.qual in done:
                continue
            done.add(g.qual)
            named = short(g) in CONTAIN_LOOPS
            state = set() if named else _state_names(g)
            for lp in [n for n in ast.walk(g.node) if isinstance(n, (ast.For, ast.AsyncFor, ast.While))]:
                if not named and not (names_in(lp) & state):
                    continue
                n_l += 1
                head = role_anon(lp.iter if not isinstance(lp, ast.While) else lp.test, g.node)[:40]
                exits = [st for st in _own_nodes(lp) if st is not lp and (
                    isinstance(st, ast.Return) or (isinstance(st, ast.Break) and enclosing_loop_body(g.node, st) is lp))]
                bad = 0
                if isinstance(lp, ast.While) and exits:
                    items = _items_of(lp)
                    cfg = cfg_of(g, cfgs)
                    exits = [st for st in exits if items and _decided_by_item(cfg, lp, st, items) is not None]
                for st in exits:
                    bad += 1
                    rep.fail("R08.4", f"{short(g)}::{type(st).__name__.lower()}-inside-loop[{head}]",
                             "one item ends the traversal of all remaining items (`return`/`break` inside the per-item loop)", where(g, st),
                             lhs=norm(st)[:60], rhs="continue / re-queue")
                if not bad:
                    rep.ok("R08.4", f"{short(g)}::loop[{head}]", "no item-caused return/break", "per-item containment")
    rep.floor("containment_loops", n_l, 8)


# ---- R08.1: allOf parents ------------------------------------------------------------------------------------------------------

def _param_index(g: FuncInfo, c: ast.Call, names: set[str]) -> list[str]:
    """parameters of g that receive one of the caller's `names` in call c"""
    a = g.node.args
    pos = [x.arg for x in [*a.posonlyargs, *a.args]]
    if g.cls is not None and g.kind in ("method", "classmethod") and pos:
        pos = pos[1:]
    out = []
    for i, v in enumerate(c.args):
        if isinstance(v, ast.Name) and v.id in names and i < len(pos):
            out.append(pos[i])
    for k in c.keywords:
        if k.arg and isinstance(k.value, ast.Name) and k.value.id in names:
            out.append(k.arg)
    return out


def _parses_ref_of(fn: ast.AST, names: set[str]) -> list[ast.Call]:
    """calls parse_reference_path(<x>.ref) in fn where x is one of `names` (directly or through locals bound from it)"""
    out = []
    for c in ast.walk(fn):
        if isinstance(c, ast.Call) and call_name(c).rsplit(".", 1)[-1] == "parse_reference_path" and c.args:
            txt = resolved_text(c.args[0], fn)
            if any(f"{n}.ref" in txt for n in names):
                out.append(c)
    return out


def _allof_reference_recorded(rep: Report, ix: Any, pp: FuncInfo, cfgs: dict[str, CFG]) -> None:
    """In the loop over <data>.allOf - in _process_properties or in a private helper it delegates to (the function that holds the loop is
    the one whose paths are judged): from the statement that reads a member's reference (parse_reference_path(<member>.ref), inline or in
    a private helper that receives the member), every way to the end of the iteration passes schemas.add_dependencies(ref_path=<what that
    statement produced>, roots=roots).  Error returns / raises leave the function and are not ends of an iteration."""
    reg = region(ix, pp)
    holders = [(g, [n for n in ast.walk(g.node) if isinstance(n, ast.For) and ".allOf" in resolved_text(n.iter, g.node)]) for g in reg]
    holders = [(g, ls) for g, ls in holders if ls]
    rep.require(holders, "loop over data.allOf in _process_properties (or in a private helper it delegates to)")
    ok_all = True
    n_reads = 0
    for g0, loops in holders:
        ok, n = _allof_loops_record(ix, g0, loops, cfgs)
        ok_all = ok_all and ok
        n_reads += n
    g0, loops = holders[0]
    rep.check(ok_all and n_reads > 0, "R08.1", "_process_properties::allOf-reference-recorded",
              "an allOf parent is not recorded as a dependency of the child on every way through the iteration that resolved it",
              where(g0, loops[0]), lhs=f"reference reads={n_reads}", rhs="every iteration end passes add_dependencies(ref_path=<parsed member.ref>, roots=roots)")


def _allof_loops_record(ix: Any, pp: FuncInfo, loops: list[ast.For], cfgs: dict[str, CFG]) -> tuple[bool, int]:
    """(every reference read in the loops of pp is followed by the recording on every way to the end of the iteration, number of reads)"""
    cfg = cfg_of(pp, cfgs)
    helpers = {g.name: g for g in region(ix, pp) if g is not pp}
    lc = Locals(pp.node)
    has_roots = "roots" in {p.arg for p in pp.params}
    ok_all = True
    n_reads = 0
    for lp in loops:
        members = names_in(lp.target)
        reads: list[ast.stmt] = []
        for st in cfg.stmts():
            if not any(x is st for x in ast.walk(lp)) or st is lp:
                continue
            own = [n for n in walk_own(st)]
            direct = any(c in own for c in _parses_ref_of(pp.node, members))
            via = False
            for c in own:
                if isinstance(c, ast.Call) and call_name(c).rsplit(".", 1)[-1] in helpers:
                    g = helpers[call_name(c).rsplit(".", 1)[-1]]
                    recv = set(_param_index(g, c, members))
                    via = via or bool(recv and _parses_ref_of(g.node, recv))
            if direct or via:
                reads.append(st)
        n_reads += len(reads)
        for rd in reads:
            produced = {t.id for t in ast.walk(rd) if isinstance(t, ast.Name) and isinstance(t.ctx, ast.Store)}
            # locals derived from what the reading statement produced (tuple unpacking of a helper's result, ...)
            for _ in range(3):
                for name, ds in lc.defs.items():
                    if name not in produced and any(v is not None and names_in(v) & produced for _, _, v in ds):
                        produced = produced | {name}

            def records(n: object) -> bool:
                if not isinstance(n, ast.stmt):
                    return False
                for c in stmt_calls(n, "add_dependencies"):
                    kws = {k.arg: k.value for k in c.keywords}
                    rp = kws.get("ref_path", c.args[0] if c.args else None)
                    rt = kws.get("roots", c.args[1] if len(c.args) > 1 else None)
                    if has_roots and isinstance(rt, ast.Name) and rt.id == "roots" and isinstance(rp, ast.Name) and rp.id in produced:
                        return True
                return False

            seen = cfg.reachable_from(rd, avoid=records)
            ends = [n for n in seen if n is lp or (isinstance(n, ast.Break) and enclosing_loop_body(pp.node, n) is lp)]
            ok_all = ok_all and not ends
    return ok_all, n_reads


# ---- R08.6: what may be recorded for removal ---------------------------------------------------------------------------------------

def _else_successors(cfg: CFG, n: ast.If) -> set[object]:
    return {s for s in cfg.succ.get(n, ()) if s is not n.body[0] and not isinstance(s, ast.ExceptHandler)}


def _rejects_registered_name(f: FuncInfo, cfg: CFG, elt: ast.expr) -> ast.If | None:
    """the test of f on `<elt> in <...>.classes_by_name` after which, where the name is already registered, every continuation is an
    error return (None: f does not reject a registered name)"""
    errs = error_names(f.node)
    want = norm(elt)
    for n in cfg.stmts():
        if not isinstance(n, ast.If):
            continue
        t = n.test
        neg = False
        while isinstance(t, ast.UnaryOp) and isinstance(t.op, ast.Not):
            t, neg = t.operand, not neg
        if not (isinstance(t, ast.Compare) and len(t.ops) == 1 and isinstance(t.ops[0], (ast.In, ast.NotIn)) and norm(t.left) == want
                and isinstance(t.comparators[0], ast.Attribute) and t.comparators[0].attr == "classes_by_name"):
            continue
        if isinstance(t.ops[0], ast.NotIn):
            neg = not neg
        starts = _else_successors(cfg, n) if neg else {n.body[0]}
        is_err = lambda x: isinstance(x, ast.Return) and returns_error(x, errs)  # noqa: E731
        if starts and all(is_err(s0) or EXIT not in cfg.reachable_from(s0, avoid=is_err) for s0 in starts):
            return n
    return None


def _exclusive_dependants(rep: Report, ix: Any, cfgs: dict[str, CFG]) -> None:
    n_sites = 0
    for f in ix.all_functions:
        if not f.module.name.startswith("openapi_python_client.parser") or f.name == "add_dependencies":
            continue
        params = {p.arg for p in f.params}
        lc = Locals(f.node)
        for c in ast.walk(f.node):
            if not (isinstance(c, ast.Call) and call_name(c).rsplit(".", 1)[-1] == "add_dependencies"):
                continue
            n_sites += 1
            kws = {k.arg: k.value for k in c.keywords}
            rt = kws.get("roots", c.args[1] if len(c.args) > 1 else None)
            key = f"{short(f)}::add_dependencies[{role_anon(rt, f.node) if rt is not None else ''}]"
            def forwarded(e: ast.AST | None) -> bool:  # the `roots` parameter itself (possibly defaulted: roots = roots or set())
                return isinstance(e, ast.Name) and e.id == "roots" and "roots" in params and \
                    all("roots" in names_in(v) for v in lc.values_of("roots"))

            if forwarded(rt):
                rep.ok("R08.6", key, "forwards the roots it received", "forwarded roots / exclusively owned class name")
                continue
            cfg = cfg_of(f, cfgs)
            sets = [rt] if isinstance(rt, ast.Set) else (lc.values_of(rt.id) if isinstance(rt, ast.Name) else [])
            elts = [e for s_ in sets if isinstance(s_, ast.Set) for e in s_.elts if not (isinstance(e, ast.Starred) and forwarded(e.value))]
            tests = [_rejects_registered_name(f, cfg, e) for e in elts]
            owned = bool(elts) and all(isinstance(s_, ast.Set) for s_ in sets) and all(t is not None for t in tests)
            at = stmt_of(f.node, c)
            if owned and at is not None and not all(cfg.is_dominated_by(at, lambda n, t=t: n is t) for t in tests):
                rep.observe(f"{short(f)}: the class name is recorded for removal before the function has checked that the name is not "
                            "already registered; when the check then fails, a later removal of the root pops the other class of that name")
            rep.check(owned, "R08.6", key,
                      "something is recorded for removal together with a schema although the recording function does not own it exclusively "
                      "(no rejection of an already registered class of that name): the removal cascade pops a class that other schemas "
                      "share, and what remains refers to a module that is not generated", where(f, c),
                      lhs=norm(rt) if rt is not None else None, rhs="roots (forwarded) or {<name rejected when already in classes_by_name>}")
    rep.floor("dependency_recording_sites", n_sites, 1)


# ---- R08.7: validation of the document models -----------------------------------------------------------------------------------------

VALIDATION_HOOKS = {"field_validator", "model_validator", "validator", "root_validator"}
VALIDATION_METHODS = {"__init__", "model_post_init", "__post_init__"}


def _piece_validators_do_not_raise(rep: Report, ix: Any) -> None:
    fd = ix.func("GeneratorData.from_dict")
    root_cls = None
    all_or_nothing = False
    for g in region(ix, fd):
        for t in ast.walk(g.node):
            if not isinstance(t, ast.Try):
                continue
            for c in [c for b in t.body for c in ast.walk(b)]:
                if isinstance(c, ast.Call) and call_name(c).rsplit(".", 1)[-1] in ("model_validate", "parse_obj") and "." in call_name(c):
                    root_cls = call_name(c).split(".")[-2]
                    all_or_nothing = any(isinstance(r, ast.Return) and constructs_error(r.value) or
                                         isinstance(r, ast.Raise) for h in t.handlers for r in ast.walk(h))
    rep.require(root_cls, "the validation of the whole document (<Model>.model_validate inside try) in GeneratorData.from_dict")
    if not all_or_nothing:
        rep.ok("R08.7", "GeneratorData.from_dict::validation", "a validation error is not turned into a failure of the run", "n/a")
        return
    models = [k for k in ix.classes.values() if k.module.name.startswith("openapi_python_client.schema")]
    repo_names = {k.name for k in models}
    n_hooks = 0
    for k in sorted(models, key=lambda k_: k_.qual):
        for m in k.methods.values():
            hooks = [d for d in m.node.decorator_list if (call_name(d) if isinstance(d, ast.Call) else norm(d)).rsplit(".", 1)[-1] in VALIDATION_HOOKS]
            if not hooks and m.name not in VALIDATION_METHODS:
                continue
            n_hooks += 1
            raising = [(g, n) for g in region(ix, m) for n in ast.walk(g.node) if isinstance(n, (ast.Raise, ast.Assert))]
            # the root model may reject the document as a whole on account of fields that hold no pieces (plain values)
            fields = [a.value for d in hooks if isinstance(d, ast.Call) for a in d.args if isinstance(a, ast.Constant) and isinstance(a.value, str)]
            plain = k.name == root_cls and bool(fields) and all(
                fld in k.fields and k.fields[fld] is not None and not (names_in(k.fields[fld]) & repo_names) for fld in fields)
            rep.check(not raising or plain, "R08.7", f"{k.name}.{m.name}::validator-raises",
                      "a validator of a piece-level document model raises: the document is validated in one step, so one such piece makes "
                      "the whole generation fail instead of being omitted with a diagnostic", where(m, raising[0][1] if raising else m.node),
                      lhs=[norm(n)[:60] for _, n in raising], rhs="no raise (the parser reports the piece and goes on)")
    rep.floor("document_model_validation_hooks", n_hooks, 1)


# ---- R08.8: built => handed on -----------------------------------------------------------------------------------------------------

NON_RETAINING = set(dir(builtins)) | {"cast"}
# calls whose result is (a collection of) the very object(s) they were given
CONVERSIONS = {"cast", "list", "tuple", "set", "frozenset", "sorted", "reversed", "iter", "copy", "deepcopy"}


def _is_error_ctor(c: ast.Call) -> bool:
    return call_name(c).rsplit(".", 1)[-1] in (ERROR_CLASSES | ERROR_ONLY_HELPERS)


def _root_name(e: ast.AST) -> str | None:
    while isinstance(e, (ast.Attribute, ast.Subscript, ast.Call)):
        e = e.func if isinstance(e, ast.Call) else e.value
    return e.id if isinstance(e, ast.Name) else None


def _annotation(e: ast.AST | None) -> ast.AST | None:
    """an annotation with string forms ("Endpoint") parsed"""
    if isinstance(e, ast.Constant) and isinstance(e.value, str):
        try:
            return ast.parse(e.value, mode="eval").body
        except SyntaxError:
            return None
    return e


def _union_members(e: ast.AST | None) -> list[ast.AST]:
    """the alternatives of a type annotation: A | B, Union[A, B], Optional[A]; anything else is its own single alternative"""
    e = _annotation(e)
    if e is None:
        return []
    if isinstance(e, ast.BinOp) and isinstance(e.op, ast.BitOr):
        return _union_members(e.left) + _union_members(e.right)
    if isinstance(e, ast.Subscript) and (dotted(e.value) or "").rsplit(".", 1)[-1] in ("Union", "Optional"):
        return [m for x in (e.slice.elts if isinstance(e.slice, ast.Tuple) else [e.slice]) for m in _union_members(x)]
    return [e]


def _type_names(e: ast.AST | None) -> set[str]:
    """class names of the alternatives of an annotation (list[X] is `list`, not X)"""
    out = set()
    for m in _union_members(e):
        m = m.value if isinstance(m, ast.Subscript) else m
        out.add((dotted(m) or "").rsplit(".", 1)[-1])
    return out


def _callee(ix: Any, f: FuncInfo, c: ast.Call) -> FuncInfo | None:
    cn = call_name(c)
    head, _, last = cn.rpartition(".")
    if head in ("self", "cls") and f.cls is not None:
        return ix.find_method(f.cls, last)
    r = ix.resolve(f.module, cn)
    if r is not None and r[0] == "func":
        return r[1]
    hits = [h for h in ix.all_functions if h.name == last and (not head or (h.cls is not None and h.cls.name == head.rsplit(".", 1)[-1]))]
    return hits[0] if len(hits) == 1 else None


def _fallible_products(ix: Any, f: FuncInfo, st: ast.Assign, errs: set[str]) -> list[str]:
    """Which targets of `a, b, c = step(..., schemas=...)` are products that may be an error.  The roles come from what the step is
    declared to return - tuple[<product or error>, Schemas, ...]: an element typed as the threaded state is the state, an element whose
    type admits one of the error classes is a fallible product, anything else (a count, a list of records) is neither - and not from
    the position of the element.  A step without a usable declaration: the targets this function itself narrows with
    isinstance(<target>, <error class>), the threaded state being what it passed in."""
    elts = st.targets[0].elts
    call = st.value
    g = _callee(ix, f, call)
    ann = _annotation(g.node.returns) if g is not None else None
    if isinstance(ann, ast.Subscript) and (dotted(ann.value) or "").rsplit(".", 1)[-1] in ("tuple", "Tuple"):
        parts = list(ann.slice.elts) if isinstance(ann.slice, ast.Tuple) else [ann.slice]
        if len(parts) == len(elts) and not any(isinstance(p_, ast.Constant) and p_.value is Ellipsis for p_ in parts):
            out = []
            for t, p_ in zip(elts, parts):
                kinds = _type_names(p_)
                if isinstance(t, ast.Name) and not (kinds & STATE_CLASSES) and kinds & ERROR_CLASSES:
                    out.append(t.id)
            return out
    passed = {k.value.id for k in call.keywords if k.arg in THREADED and isinstance(k.value, ast.Name)} | set(THREADED)
    return [t.id for t in elts if isinstance(t, ast.Name) and t.id not in passed and t.id in errs]


def _is_predicate(e: ast.AST) -> bool:
    """an expression whose value is a fact about its operands, not (a part of) them"""
    if isinstance(e, (ast.Compare, ast.Constant)) or (isinstance(e, ast.UnaryOp) and isinstance(e.op, ast.Not)):
        return True
    if isinstance(e, ast.BoolOp):
        return all(_is_predicate(v) for v in e.values)
    if isinstance(e, ast.Call):
        last = call_name(e).rsplit(".", 1)[-1]
        return last in NON_RETAINING and last not in CONVERSIONS
    return False


def _hands_on(st: object, al: frozenset[str] | set[str], parts: frozenset[str] | set[str] = frozenset(), carries: Any = None) -> bool:
    """the statement passes the product (held by the locals `al`; `parts` hold something computed from it) to something that outlives
    the iteration: as (part of) an argument of a call that is neither a builtin predicate/conversion, nor an error constructor, nor a
    method of the product itself; stored into a container or attribute; yielded; or a nested loop that does so for each of a
    collection (for each of the products, when the loop runs over a collection that holds them)"""
    if not isinstance(st, ast.stmt):
        return False
    m = set(al) | set(parts)
    if isinstance(st, (ast.For, ast.AsyncFor)):
        inner = set(al) | (names_in(st.target) if carries is not None and carries(st.iter, al) else set())
        if any(_hands_on(x, inner, parts, carries) for b in st.body for x in ast.walk(b) if isinstance(x, ast.stmt)):
            return True
    for n in walk_own(st):
        if isinstance(n, ast.Call) and call_name(n).rsplit(".", 1)[-1] not in NON_RETAINING and not _is_error_ctor(n) and \
                _root_name(n.func) not in al:
            if any(names_in(a) & m for a in [*n.args, *[k.value for k in n.keywords]]):
                return True
        if isinstance(n, (ast.Yield, ast.YieldFrom)) and names_in(n.value) & m:
            return True
    if isinstance(st, (ast.Assign, ast.AugAssign, ast.AnnAssign)) and st.value is not None and names_in(st.value) & m:
        tgts = st.targets if isinstance(st, ast.Assign) else [st.target]
        if any(isinstance(t, (ast.Subscript, ast.Attribute)) and _root_name(t) not in m for t in tgts):
            return True
    return False


class _Product:
    """One assumption about the product of a step (`it is an error` / `it is a value`): decides tests on it, and follows it through the
    locals that come to hold it."""

    def __init__(self, lc: Locals, assume: bool) -> None:
        self.lc = lc
        self.assume = assume

    def test(self, e: ast.expr, al: set[str] | frozenset[str], depth: int = 0) -> bool | None:
        """three-valued value of a test under the assumption; a local that holds the outcome of such a test (ok = isinstance(x, E)) is
        the test"""
        if isinstance(e, ast.BoolOp):
            vals = [self.test(v, al, depth) for v in e.values]
            if isinstance(e.op, ast.And):
                return False if any(v is False for v in vals) else (True if all(v is True for v in vals) else None)
            return True if any(v is True for v in vals) else (False if all(v is False for v in vals) else None)
        if isinstance(e, ast.UnaryOp) and isinstance(e.op, ast.Not):
            v = self.test(e.operand, al, depth)
            return None if v is None else not v
        if isinstance(e, ast.NamedExpr):
            return self.test(e.value, al, depth)
        if isinstance(e, ast.Name) and e.id not in al and depth < 3:
            ds = self.lc.defs.get(e.id, [])
            if len(ds) == 1 and ds[0][0] == "assign" and isinstance(ds[0][2], ast.expr):
                return self.test(ds[0][2], al, depth + 1)
            return None
        if isinstance(e, ast.Call) and call_name(e) == "isinstance" and len(e.args) == 2 and isinstance(e.args[0], ast.Name) and e.args[0].id in al:
            kinds = e.args[1].elts if isinstance(e.args[1], ast.Tuple) else [e.args[1]]
            is_err = [norm(k_).rsplit(".", 1)[-1] in ERROR_CLASSES for k_ in kinds]
            if all(is_err):
                return self.assume
            if self.assume and not any(is_err):
                return False  # an error value is not an instance of a property / model class
        return None

    def carries(self, e: ast.AST | None, al: set[str] | frozenset[str]) -> bool:
        """the value of e is the product, or a collection / conversion / conditional choice that holds it (also: an error built from it)"""
        if e is None:
            return False
        if isinstance(e, ast.Name):
            return e.id in al
        if isinstance(e, (ast.List, ast.Tuple, ast.Set)):
            return any(self.carries(x, al) for x in e.elts)
        if isinstance(e, ast.Dict):
            return any(self.carries(x, al) for x in e.values)
        if isinstance(e, (ast.Starred, ast.Await, ast.NamedExpr)):
            return self.carries(e.value, al)
        if isinstance(e, ast.IfExp):
            v = self.test(e.test, al)
            return any(self.carries(x, al) for x in ([e.body] if v is True else [e.orelse] if v is False else [e.body, e.orelse]))
        if isinstance(e, ast.BoolOp):
            return any(self.carries(x, al) for x in e.values)
        if isinstance(e, ast.BinOp) and isinstance(e.op, (ast.Add, ast.BitOr)):
            return self.carries(e.left, al) or self.carries(e.right, al)
        if isinstance(e, (ast.ListComp, ast.SetComp, ast.GeneratorExp)):
            inner = set(al)
            for gen in e.generators:
                if self.carries(gen.iter, inner):
                    inner |= names_in(gen.target)
            return self.carries(e.elt, inner)
        if isinstance(e, ast.Call):
            args = [*e.args, *[k.value for k in e.keywords]]
            if call_name(e).rsplit(".", 1)[-1] in CONVERSIONS:
                return any(self.carries(a, al) for a in args)
            if _is_error_ctor(e):
                return any(names_in(a) & al for a in args)
            if isinstance(e.func, ast.Attribute) and _root_name(e.func) in al:
                return True  # x = x.with_something(...): what a method of the product returns stands for the product
        return False

    def after(self, st: object, al: frozenset[str], parts: frozenset[str]) -> tuple[frozenset[str], frozenset[str]]:
        """(the locals that hold the product, the locals that hold something computed from it) once `st` has run"""
        hold, part = set(al), set(parts)

        def bind(name: str, v: ast.AST | None, keep: bool = False) -> None:
            if self.carries(v, al):
                hold.add(name)
                part.discard(name)
            elif v is not None and names_in(v) & (al | parts) and not _is_predicate(v):
                part.add(name)
                if not keep:
                    hold.discard(name)
            elif not keep:
                hold.discard(name)
                part.discard(name)

        if isinstance(st, (ast.For, ast.AsyncFor)):
            for x in names_in(st.target):
                if self.carries(st.iter, al):
                    hold.add(x)
                else:
                    hold.discard(x)
                part.discard(x)
            return frozenset(hold), frozenset(part)
        if not isinstance(st, ast.stmt):
            return al, parts
        for n in walk_own(st):
            if isinstance(n, ast.NamedExpr) and isinstance(n.target, ast.Name):
                bind(n.target.id, n.value)
        if isinstance(st, ast.AugAssign) and isinstance(st.target, ast.Name):
            bind(st.target.id, st.value, keep=True)
        if isinstance(st, (ast.Assign, ast.AnnAssign)) and st.value is not None:
            for t in (st.targets if isinstance(st, ast.Assign) else [st.target]):
                if isinstance(t, ast.Name):
                    bind(t.id, st.value)
                elif isinstance(t, (ast.Tuple, ast.List)):
                    vs = st.value.elts if isinstance(st.value, (ast.Tuple, ast.List)) and len(st.value.elts) == len(t.elts) else None
                    for i, x in enumerate(t.elts):
                        if isinstance(x, ast.Name):
                            bind(x.id, vs[i] if vs is not None else st.value)
        gone: set[str] = set()
        if isinstance(st, (ast.With, ast.AsyncWith)):
            gone = set().union(*[names_in(item.optional_vars) for item in st.items])
        if isinstance(st, ast.Delete):
            gone = {t.id for t in st.targets if isinstance(t, ast.Name)}
        return frozenset(hold - gone), frozenset(part - gone)


def _products_not_dropped(rep: Report, ix: Any, cfgs: dict[str, CFG]) -> None:
    n_p = 0
    for f in ix.all_functions:
        if not f.module.name.startswith("openapi_python_client.parser"):
            continue
        steps = [st for st in ast.walk(f.node) if isinstance(st, ast.Assign) and isinstance(st.value, ast.Call)
                 and {k.arg for k in st.value.keywords} & set(THREADED) and len(st.targets) == 1 and isinstance(st.targets[0], ast.Tuple)
                 and len(st.targets[0].elts) >= 2]
        if not steps:
            continue
        cfg = cfg_of(f, cfgs)
        lc = Locals(f.node)
        errs = error_names(f.node)
        for st in steps:
            lp = enclosing_loop_body(f.node, st)
            if lp is None or st not in cfg.succ:
                continue
            for prod in _fallible_products(ix, f, st, errs):
                n_p += 1
                dropped: list[str] = []
                for assume in (True, False):
                    pr = _Product(lc, assume)
                    none: frozenset[str] = frozenset()
                    seen: set[tuple[int, frozenset[str], frozenset[str]]] = {(id(st), frozenset({prod}), none)}
                    stack: list[tuple[object, frozenset[str], frozenset[str]]] = [(st, frozenset({prod}), none)]
                    while stack:
                        n, al, parts = stack.pop()
                        nxt = set(cfg.succ.get(n, ()))
                        if isinstance(n, ast.If) and n is not st:
                            v = pr.test(n.test, al)
                            if v is True:
                                nxt = {n.body[0]}
                            elif v is False:
                                nxt = _else_successors(cfg, n)
                        what = "error" if assume else "value"
                        for s_ in nxt:
                            if s_ is lp or (isinstance(s_, ast.Break) and enclosing_loop_body(f.node, s_) is lp):
                                dropped.append(f"{what} dropped after `{norm(n)[:50]}`" if isinstance(n, ast.AST) else "dropped")
                                continue
                            if s_ is EXIT or _hands_on(s_, al, parts, pr.carries):
                                continue
                            al2, parts2 = pr.after(s_, al, parts)
                            if not al2:  # nothing holds it any more, and it was not handed on
                                dropped.append(f"{what} overwritten by `{norm(s_)[:50]}`" if isinstance(s_, ast.AST) else "overwritten")
                                continue
                            if (id(s_), al2, parts2) not in seen:
                                seen.add((id(s_), al2, parts2))
                                stack.append((s_, al2, parts2))
                rep.check(not dropped, "R08.8", f"{short(f)}::{call_name(st.value).rsplit('.', 1)[-1]}-product-handed-on[{role_anon(getattr(lp, 'iter', getattr(lp, 'test', None)), f.node)[:40]}]",
                          "an item is built (a step that can fail its container and registers classes in the threaded state) and then dropped "
                          "without its product or error being handed on: a piece that does not contribute can damage what does not depend on it",
                          where(f, st), lhs=sorted(set(dropped))[:4], rhs="every end of the iteration after the build hands the product on")
    rep.floor("build_steps_in_item_loops", n_p, 3)


# ---- R08.11: property objects are shared values ------------------------------------------------------------------------------------

PROPERTY_RULE_TEXT = (
    "property objects are shared values: once built, a property object is held by the registry (classes_by_name / classes_by_reference), "
    "by every model that lists it and by every model that inherits it through allOf - evolve() copies the holder, not what it holds - so "
    "a step that wants a changed property makes a copy. Every in-place write (attribute assignment, augmented assignment, del, setattr / "
    "object.__setattr__, a mutating method of a container the object holds, a call of a method of the property classes that writes "
    "through self; reached through a local alias, an element or loop variable of a container, chain(), cast()) whose receiver is (inside) "
    "a property object the function was handed - a parameter declared with a property type, an element of the registry - is made by one "
    "of the writers of the frozen table: the initialiser of the object (it is not shared yet), or the completion of the registered "
    "model by process_model, after which no refusal of that function can follow. A write through `self` in any other method is judged "
    "at each call of the method. Anything else reaches the pieces that share the object: a piece that is dropped afterwards has "
    "already changed them, and what remains refers to what was removed")

INITIALISERS = {"__init__", "__new__", "__attrs_post_init__", "__post_init__", "model_post_init"}

# the frozen table: today's legitimate in-place writers of a property object they were handed (initialisers apart), confirmed by reading /repo
# entry function (the writer is it, or a private helper / a method it delegates to)   fields   why this writer may
PROPERTY_COMPLETERS: tuple[tuple[str, tuple[str, ...], str], ...] = (
    ("model_property.process_model",
     ("required_properties", "optional_properties", "additional_properties", "relative_imports", "lazy_imports"),
     "second phase of the two-phase model build: ModelProperty.build registers the model with these fields unset (declared `| None`) so that "
     "models can refer to each other, and process_model fills them in on the registered object once every fallible step for the model has "
     "succeeded - the object is the piece being built, not one it shares with another piece, and no refusal can follow the write"),
)


def _denotes_property(v: ast.AST | None, names: set[str], depth: int = 0) -> bool:
    """the module-level value defines a type that admits a property class: a union alias, a TypeVar bound / constrained to one"""
    v = _annotation(v)
    if v is None or depth > 4:
        return False
    if isinstance(v, ast.Call) and call_name(v).rsplit(".", 1)[-1] == "TypeVar":
        return any(_denotes_property(a, names, depth + 1) for a in [*v.args[1:], *[k.value for k in v.keywords if k.arg == "bound"]])
    return bool(_type_names(v) & names)


def _property_types(ix: Any) -> tuple[list[Any], set[str]]:
    """(the property classes, every name that denotes a property type: the classes, aliases of unions of them, TypeVars bound to them)"""
    proto = ix.cls("PropertyProtocol")
    classes = [proto, *ix.subclasses(proto)]
    names = {k.name for k in classes}
    changed = True
    while changed:
        changed = False
        for m in ix.modules.values():
            for name, v in m.variables.items():
                if name not in names and _denotes_property(v, names):
                    names.add(name)
                    changed = True
    return classes, names


def _mentions_type(ann: ast.AST | None, names: set[str]) -> bool:
    """the annotation mentions one of the type names, at any depth (list[Property], dict[str, Property] | None, "ModelProperty")"""
    ann = _annotation(ann)
    if ann is None:
        return False
    for n in ast.walk(ann):
        if isinstance(n, ast.Constant) and isinstance(n.value, str):
            inner = _annotation(n)
            if inner is not None and not isinstance(inner, ast.Constant) and _mentions_type(inner, names):
                return True
        if isinstance(n, (ast.Name, ast.Attribute)) and (dotted(n) or "").rsplit(".", 1)[-1] in names:
            return True
    return False


def _property_objects_not_written(rep: Report, ctx: Any) -> None:
    ix = ctx.py
    base_fn = getattr(inplace, "_Fn", None)
    rep.require(callable(getattr(inplace, "analysis", None)) and isinstance(base_fn, type),
                "the may-alias machinery of the in-place rule (inplace.analysis / inplace._Fn), which R08.11 evaluates views with")
    an = inplace.analysis(ctx)
    classes, tnames = _property_types(ix)
    cnames = {k.name for k in classes}
    pfields: set[str] = set()
    for k in classes:
        pfields |= set(ix.all_fields(k))
    rep.require(pfields, "declared fields of the property classes")
    elsewhere = {name for k in ix.classes.values() if k.name not in cnames for name in k.fields}
    pmethods = {m for k in classes for m in k.methods}
    other_methods = {m for k in ix.classes.values() if k.name not in cnames for m in k.methods}

    class _PFn(base_fn):  # type: ignore[misc, valid-type]
        """views as the in-place rule computes them, with the elements of chain(a, b, ...) being the elements of a, b, ..."""

        def elements(self, it: ast.AST, st: ast.stmt, path: tuple[int, ...], depth: int = 0) -> set[Any]:
            if isinstance(it, ast.Call) and depth <= 6 and call_name(it).rsplit(".", 1)[-1] == "chain" and it.args:
                out: set[Any] = set()
                for a in it.args:
                    out |= self.elements(a.value, st, path, depth + 1) if isinstance(a, ast.Starred) else self.elements(a, st, path, depth)
                return out
            return super().elements(it, st, path, depth)

    fns: dict[str, Any] = {}

    def pfn(f: FuncInfo) -> Any:
        if f.qual not in fns:
            fns[f.qual] = _PFn(an, f)
        return fns[f.qual]

    def self_of(f: FuncInfo) -> str | None:
        return f.params[0].arg if f.cls is not None and f.cls.name in cnames and f.kind in ("method", "property") and f.params else None

    def field_of(v: Any, extra: tuple[str, ...] = ()) -> str | None:
        """the property field that a write at this view (+ the attributes a called method writes) changes, None when the view does not
        lead into a property object: <parameter>[...].<field>..., <registry>.<container>[...].<field>..."""
        steps = tuple(v.steps) + extra
        if v.kind in ("S", "U"):   # U: an object of unknown origin on which a field that only the registries have is read
            if not steps or not steps[0].startswith(".") or steps[0][1:] not in (an.fields if v.kind == "S" else an.exclusive) or \
                    len(steps) < 2 or steps[1] != "[]":
                return None
            steps = steps[1:]
        elif v.kind != "P":
            return None
        attrs = [s[1:] for s in steps if s.startswith(".")]
        if not attrs or (attrs[0] not in pfields and attrs[0] != "?"):
            return None
        return attrs[-1] if attrs[-1] in pfields or attrs[-1] == "?" else attrs[0]

    def typed_root(f: FuncInfo, v: Any, field: str, method: str | None = None) -> bool:
        """the view starts at a property object the function was handed: the registry, a parameter declared with (a container of) a
        property type - or an undeclared parameter on which a field / method that only the property classes have is used"""
        if v.kind in ("S", "U"):
            return True
        p = next((p_ for p_ in f.params if p_.arg == v.name), None)
        if p is None or (f.cls is not None and f.kind in ("method", "classmethod", "property") and f.params and p is f.params[0]):
            return False   # (self / cls: the class is known - a property class writing through self was dealt with as setter / initialiser)
        if p.annotation is not None and _mentions_type(p.annotation, tnames):
            return True
        if p.annotation is None or _type_names(p.annotation) & {"Any", "object"}:
            return (field in pfields - elsewhere) or (method is not None and method in pmethods - other_methods)
        return False

    def attribute_stores(fn: Any) -> list[tuple[ast.stmt, ast.AST, ast.AST, str]]:
        """(statement, node, object, attribute) of every attribute binding / deletion and every setattr-family call of the function"""
        out: list[tuple[ast.stmt, ast.AST, ast.AST, str]] = []
        lcs = Locals(fn.f.node)

        def target(st: ast.stmt, t: ast.AST) -> None:
            if isinstance(t, (ast.Tuple, ast.List)):
                for x in t.elts:
                    target(st, x)
            elif isinstance(t, ast.Starred):
                target(st, t.value)
            elif isinstance(t, ast.Attribute):
                out.append((st, t, t.value, t.attr))

        for st in fn.cfg.stmts():
            if isinstance(st, (ast.Assign, ast.Delete)):
                for t in st.targets:
                    target(st, t)
            elif isinstance(st, (ast.AnnAssign, ast.AugAssign, ast.For, ast.AsyncFor)) and getattr(st, "value", True) is not None:
                target(st, st.target)
            for c in walk_own(st):
                if isinstance(c, ast.NamedExpr):
                    target(st, c.target)
                if isinstance(c, ast.Call) and call_name(c).rsplit(".", 1)[-1] in ("setattr", "delattr", "__setattr__", "__delattr__") and len(c.args) >= 2:
                    a = c.args[1]
                    if isinstance(a, ast.Constant) and isinstance(a.value, str):
                        names = [a.value]
                    else:   # a computed name: the field names among the string literals its locals are made of, else unknown
                        lits = {x.value for nm in names_in(a) for v in lcs.values_of(nm) for x in ast.walk(v)
                                if isinstance(x, ast.Constant) and isinstance(x.value, str)}
                        names = sorted(lits & pfields) or ["?"]
                    out += [(st, c, c.args[0], nm) for nm in names]
        return out

    def direct_writes(f: FuncInfo) -> list[tuple[ast.stmt, ast.AST, Any, str, str]]:
        """(statement, node, view of the receiver, property field, operation) of the in-place writes the function makes itself inside a
        property object: attribute bindings (the view is that of the object, however long the way to it), and writes into a container
        that the object holds (as the in-place rule lists them)"""
        fn = pfn(f)
        out: list[tuple[ast.stmt, ast.AST, Any, str, str]] = []
        for st, node, obj, attr in attribute_stores(fn):
            for v in sorted(fn.views(obj, st), key=repr):
                fld = field_of(v, ("." + attr,)) if v.kind != "O" else None
                if fld is not None:
                    out.append((st, node, v, fld, "rebind"))
        for w in fn.writes():
            if w.via or w.op == "rebind" or an.registry_field(w) is not None:
                continue
            fld = field_of(w.view)
            if fld is not None:
                out.append((w.stmt, w.node, w.view, fld, w.op))
        return out

    # -- who writes through self: initialisers (the object is not shared yet) and setters (judged where they are called) -------------
    sites: list[tuple[FuncInfo, ast.stmt, ast.AST, Any, str, str]] = []     # (function, statement, node, view, field, how)
    setters: dict[str, set[str]] = {}
    n_init = 0
    n_recv = 0
    for f in an.functions:
        me = self_of(f)
        if me is not None or any(p.annotation is not None and _mentions_type(p.annotation, tnames) for p in f.params):
            n_recv += 1
        for st, node, view, fld, op in direct_writes(f):
            if me is not None and view.kind == "P" and view.name == me:
                if f.name in INITIALISERS:
                    n_init += 1
                    rep.ok("R08.11", f"{short(f)}::initialiser[{fld}]", norm(st)[:60], "the object under construction is not shared yet")
                else:
                    setters.setdefault(f.name, set()).add(fld)
                continue
            if typed_root(f, view, fld):
                sites.append((f, st, node, view, fld, op))

    def setter_calls(f: FuncInfo) -> list[tuple[ast.stmt, ast.Call]]:
        fn = pfn(f)
        return [(st, c) for st in fn.cfg.stmts() for c in walk_own(st)
                if isinstance(c, ast.Call) and isinstance(c.func, ast.Attribute) and c.func.attr in setters]

    for _ in range(4):   # a setter that calls a setter on self is a setter of those fields, too
        grown = False
        for f in an.functions:
            me = self_of(f)
            if me is None or f.name in INITIALISERS:
                continue
            for st, c in setter_calls(f):
                if any(v.kind == "P" and v.name == me and not v.steps for v in pfn(f).views(c.func.value, st)):
                    new = setters[c.func.attr] - setters.get(f.name, set())
                    if new:
                        setters.setdefault(f.name, set()).update(new)
                        grown = True
        if not grown:
            break
    for f in an.functions:
        me = self_of(f)
        for st, c in setter_calls(f):
            for v in sorted(pfn(f).views(c.func.value, st), key=repr):
                if me is not None and v.kind == "P" and v.name == me and not v.steps:
                    if f.name in INITIALISERS:
                        n_init += 1
                        rep.ok("R08.11", f"{short(f)}::initialiser[{c.func.attr}()]", norm(c)[:60], "the object under construction is not shared yet")
                    continue   # otherwise f is a setter itself: judged where it is called
                for fld in sorted(setters[c.func.attr]):
                    got = field_of(v, ("." + fld,))
                    if got is not None and typed_root(f, v, got, c.func.attr):
                        sites.append((f, st, c, v, got, f"{c.func.attr}()"))

    # -- the verdict per write -----------------------------------------------------------------------------------------------------------
    regions: dict[str, set[str]] = {}
    for entry, _, _ in PROPERTY_COMPLETERS:
        if ix.has_func(entry):
            regions[entry] = {g.qual for g in region(ix, ix.func(entry), depth=4)}

    def completes(f: FuncInfo, st: ast.stmt, v: Any, fld: str) -> bool:
        if v.kind != "P" or v.steps and not all(s.startswith(".") for s in v.steps):
            return False
        errs = error_names(f.node)
        cfg = pfn(f).cfg
        for entry, fields, _ in PROPERTY_COMPLETERS:
            if fld in fields and f.qual in regions.get(entry, ()):
                after = cfg.reachable_from(st)
                if not any(isinstance(n, ast.Return) and returns_error(n, errs) for n in after if n is not st):
                    return True
        return False

    seen: set[tuple[str, int, str]] = set()
    n_legit = 0
    for f, st, node, v, fld, how in sites:
        if (f.qual, id(node), fld) in seen:
            continue
        seen.add((f.qual, id(node), fld))
        mod = f.module.name.replace("openapi_python_client.", "")
        ok = completes(f, st, v, fld)
        n_legit += ok
        what = "an element of the registry" if v.kind in ("S", "U") else f"its parameter `{v.name}`"
        rep.check(ok, "R08.11", f"property.{fld}::written-in-place[{mod}]",
                  f"{short(f)} writes `{fld}` of a property object it was handed ({what}; {how}) in place: the object is shared with the "
                  "registry, with the model that declares it and with every model that inherits it, so the change reaches pieces that have "
                  "nothing to do with the one being built - and it stays when this piece is dropped afterwards (what remains then refers "
                  "to a class or name of the piece that was removed)", where(f, node), lhs=norm(st)[:90],
                  rhs="evolve(<property>, " + fld + "=...) / a writer of the frozen table: " + ", ".join(e for e, _, _ in PROPERTY_COMPLETERS))
    rep.floor("property_typed_receivers", n_recv, 30)
    rep.indexed["property_inplace_writes"] = len(seen)
    rep.indexed["property_initialiser_writes"] = n_init
    # positive control: a synthetic merge step that narrows the inherited property through a local alias must come out as a write
    src = ("def _control_merge(prop1: PropertyProtocol, prop2: PropertyProtocol) -> 'PropertyProtocol | PropertyError':\n"
           "    base = prop1\n"
           "    base.name, base.required = prop2.name, True\n"
           "    return base\n")
    cnode = ast.parse(src).body[0]
    cmod = classes[0].module
    cf = FuncInfo("_control_merge", f"{cmod.name}.<control>._control_merge", cmod, None, cnode)  # type: ignore[arg-type]
    fns[cf.qual] = _PFn(an, cf)
    cws = [(st, v, fld) for st, _, v, fld, _ in direct_writes(cf) if fld in ("name", "required") and typed_root(cf, v, fld)]
    rep.control("an in-place write on a handed property object is seen", len(cws) >= 2 and not any(completes(cf, st, v, fld) for st, v, fld in cws))


# ---- R08.12: recorded diagnostics are returned entire -------------------------------------------------------------------------------

EMPTY_MAKERS = {"dict", "list", "set", "defaultdict", "OrderedDict", "deque"}
WHOLE_COPIES = {"dict", "list", "tuple", "set", "frozenset", "sorted", "reversed", "OrderedDict", "copy", "deepcopy", "cast", "iter"}
ENTRY_REMOVERS = {"pop", "popitem", "clear", "remove", "discard", "popleft", "difference_update", "intersection_update"}
PUTS = {"append", "extend", "add", "insert", "appendleft", "extendleft", "update", "setdefault"}
CONTAINER_HEADS = {"list", "set", "dict", "deque", "sequence", "mutablesequence", "mapping", "mutablemapping", "iterable", "collection", "tuple", "frozenset"}
NA = "n/a"
WHOLE = "whole"


def _error_stores(ix: Any) -> set[str]:
    """fields of the package's classes that are declared as a container of error values (parse_errors: list[ParseError], ...)"""
    out: set[str] = set()
    for k in ix.classes.values():
        for name, ann in k.fields.items():
            for alt in _union_members(ann):
                if isinstance(alt, ast.Subscript) and (dotted(alt.value) or "").rsplit(".", 1)[-1].lower() in CONTAINER_HEADS and \
                        _mentions_type(alt.slice, ERROR_CLASSES):
                    out.add(name)
    return out


def _is_empty_container(v: ast.AST | None) -> bool:
    if isinstance(v, (ast.Dict, ast.List, ast.Set)):
        return not (v.keys if isinstance(v, ast.Dict) else v.elts)
    if isinstance(v, ast.Call):
        last = call_name(v).rsplit(".", 1)[-1]
        return last in EMPTY_MAKERS and (not v.args or last == "defaultdict") and not (v.keywords and last != "defaultdict")
    return False


def _entire(e: ast.AST | None, acc: str, lc: Locals, params: set[str], busy: frozenset[str] = frozenset(), depth: int = 16) -> str:
    """How the value of e relates to the accumulator `acc`: WHOLE - it is the accumulator, a whole copy of it, or an object that was
    handed it as a whole argument; NA - it does not come from the accumulator; otherwise the reason why entries can be missing."""
    if e is None or depth <= 0:
        return NA

    def go(x: ast.AST | None, b: frozenset[str] = busy) -> str:
        return _entire(x, acc, lc, params, b, depth - 1)

    def combine(rs: list[str]) -> str:
        bad = [r for r in rs if r not in (NA, WHOLE)]
        return bad[0] if bad else (WHOLE if WHOLE in rs else NA)

    if isinstance(e, ast.Name):
        if e.id == acc:
            return WHOLE
        if e.id in busy or e.id in params:
            return NA
        return combine([go(v, busy | {e.id}) for kind, _, v in lc.defs.get(e.id, []) if kind == "assign" and v is not None])
    if isinstance(e, (ast.Starred, ast.Await, ast.NamedExpr)):
        return go(e.value)
    if isinstance(e, ast.IfExp):
        return combine([go(e.body), go(e.orelse)])
    if isinstance(e, ast.BoolOp):
        return combine([go(v) for v in e.values])
    if isinstance(e, ast.BinOp):
        return combine([go(e.left), go(e.right)])
    if isinstance(e, (ast.List, ast.Tuple, ast.Set)):
        return combine([go(x) for x in e.elts])
    if isinstance(e, ast.Dict):
        return combine([go(v) for k, v in zip(e.keys, e.values) if k is None])
    if isinstance(e, ast.Subscript):
        inner = go(e.value)
        return inner if inner == NA or not isinstance(e.slice, ast.Slice) else f"a slice of it (line {e.lineno})" if inner == WHOLE else inner
    if isinstance(e, (ast.DictComp, ast.ListComp, ast.SetComp, ast.GeneratorExp)):
        srcs = [go(g.iter) for g in e.generators]
        src = combine(srcs)
        if src != WHOLE:
            return src
        if any(g.ifs for g in e.generators):
            return f"a comprehension with a condition (line {e.lineno}): `{norm(e)[:60]}`"
        kept = names_in(e.value) | names_in(e.key) if isinstance(e, ast.DictComp) else names_in(e.elt)
        tg = set().union(*[names_in(g.target) for g in e.generators])
        plain = all(isinstance(x, (ast.Name, ast.Tuple)) for x in ([e.key, e.value] if isinstance(e, ast.DictComp) else [e.elt]))
        return WHOLE if plain and kept & tg else f"rebuilt entry by entry (line {e.lineno}): `{norm(e)[:60]}`"
    if isinstance(e, ast.Call):
        last = call_name(e).rsplit(".", 1)[-1]
        args = [*e.args, *[k.value for k in e.keywords]]
        if isinstance(e.func, ast.Attribute) and e.func.attr in ("copy", "items", "values") and not args:
            return go(e.func.value)
        if last in WHOLE_COPIES and e.args:
            return go(e.args[-1] if last == "cast" else e.args[0])
        if last in ("filter", "filterfalse", "takewhile", "dropwhile", "islice", "compress") and e.args:
            inner = combine([go(a) for a in e.args])
            return f"`{last}(...)` of it (line {e.lineno})" if inner == WHOLE else inner
        return combine([go(a) for a in args])   # handed to a constructor / a step as a whole argument: entire
    return NA


def _diagnostics_returned_entire(rep: Report, ix: Any) -> None:
    stores = _error_stores(ix)
    rep.require(stores, "fields declared as containers of error values (e.g. parse_errors: list[ParseError])")
    n_inst = 0
    for f in ix.all_functions:
        if not f.module.name.startswith("openapi_python_client.parser"):
            continue
        lc = Locals(f.node)
        params = {p.arg for p in f.params}
        accs = sorted(n for n, ds in lc.defs.items() if n not in params and any(k == "assign" and _is_empty_container(v) for k, _, v in ds))
        if not accs:
            continue
        own = _own_nodes(f.node)
        errs = error_names(f.node)
        rets = [r for r in own if isinstance(r, ast.Return) and r.value is not None and not returns_error(r, errs)]

        def is_error(a: ast.AST) -> bool:   # an error built on the spot, or a local that only ever holds one
            if isinstance(a, ast.Name):
                vs = lc.values_of(a.id)
                return bool(vs) and a.id not in params and all(isinstance(v, ast.Call) and _is_error_ctor(v) for v in vs)
            return isinstance(a, ast.Call) and _is_error_ctor(a)
        for acc in accs:
            # everything computed from the accumulator: objects taken out of it, lists of them, loop variables over them
            mem = {acc}
            changed = True
            while changed:
                changed = False
                for n, ds in lc.defs.items():
                    if n not in mem and n not in params and any(v is not None and names_in(v) & mem and not _is_predicate(v) for _, _, v in ds):
                        mem.add(n)
                        changed = True
            recorded: set[str] = set()
            for c in own:
                if isinstance(c, ast.Call) and isinstance(c.func, ast.Attribute) and c.func.attr in PUTS and _root_name(c.func.value) in mem:
                    recv = c.func.value
                    if isinstance(recv, ast.Attribute) and recv.attr in stores:
                        recorded.add(recv.attr)
                    elif isinstance(recv, ast.Name) and recv.id == acc and any(is_error(a) for a in [*c.args, *[k.value for k in c.keywords]]):
                        recorded.add("<error values>")
                elif isinstance(c, (ast.Assign, ast.AugAssign)):
                    for t in (c.targets if isinstance(c, ast.Assign) else [c.target]):
                        base = t.value if isinstance(t, ast.Subscript) else t
                        if isinstance(base, ast.Attribute) and base.attr in stores and _root_name(base) in mem and base is not t or \
                                (isinstance(c, ast.AugAssign) and isinstance(base, ast.Attribute) and base.attr in stores and _root_name(base) in mem):
                            recorded.add(base.attr)
                        elif isinstance(t, ast.Subscript) and isinstance(base, ast.Name) and base.id == acc and is_error(c.value):
                            recorded.add("<error values>")
            if not recorded:
                continue
            reasons: list[str] = []
            handed = 0
            for r in rets:
                elts = list(r.value.elts) if isinstance(r.value, ast.Tuple) else [r.value]
                got = [_entire(x, acc, lc, params) for x in elts]
                if all(g == NA for g in got):
                    continue
                handed += 1
                if WHOLE not in got:
                    reasons += [g for g in got if g != NA]
            if not handed:
                continue   # the accumulator is not (part of) what this function returns: how it is handed on is R08.8's question
            n_inst += 1
            # the accumulator's own name bound again: to all of what it held (a whole copy), or entries are gone
            for kind, _, v in lc.defs.get(acc, []):
                if kind == "assign" and v is not None and not _is_empty_container(v):
                    how = _entire(v, acc, lc, params, frozenset({acc}))
                    if how not in (WHOLE, NA):   # (bound to something that does not come from it: not an accumulator there, not judged)
                        reasons.append(how)
            whole_names = {acc} | {n for n in lc.defs if n not in params and _entire(ast.Name(id=n, ctx=ast.Load()), acc, lc, params) == WHOLE}
            for c in own:
                if isinstance(c, ast.Delete):
                    reasons += [f"entries are deleted from it (line {c.lineno})" for t in c.targets
                                if isinstance(t, ast.Subscript) and isinstance(t.value, ast.Name) and t.value.id in whole_names]
                elif isinstance(c, ast.Call) and isinstance(c.func, ast.Attribute) and c.func.attr in ENTRY_REMOVERS and \
                        isinstance(c.func.value, ast.Name) and c.func.value.id in whole_names:
                    reasons.append(f"entries are removed from it (line {c.lineno}): `{norm(c)[:50]}`")
            rep.check(not reasons, "R08.12", f"{short(f)}::diagnostics-returned-entire[{', '.join(sorted(recorded))}]",
                      "diagnostics of omitted pieces are recorded in a local accumulator, but what the function returns is not that "
                      f"accumulator entire ({'; '.join(sorted(set(reasons)))[:200]}): an entry that is dropped takes the diagnostics stored on it "
                      "along - the piece is omitted and nothing says so", where(f, rets[-1] if rets else f.node),
                      lhs=sorted(set(reasons))[:4], rhs="the accumulator itself under any name, a whole copy, or a whole argument")
    rep.floor("diagnostic_accumulators_returned", n_inst, 1)


# ---- R08.15: diagnostics do not steer generation --------------------------------------------------------------------------------------

POUR_RULE_TEXT = (
    "diagnostics do not steer generation: whether a bad piece was met is recorded in the error stores (the fields declared as "
    "containers of error values: errors, parse_errors), and apart from the pieces that were removed that is all by which the run "
    "with the bad piece differs from the run without it - so an error store is only ever poured. Every read of one (followed through "
    "the locals it is bound to, the elements a loop or comprehension takes from it, and the parameters of the package's own functions "
    "it is handed to) is: the receiver of an in-place put; a whole part (itself, splatted, concatenated, whole-copied) of what is put "
    "into an error store or accumulator, bound to a keyword or field named like an error store, or returned; or the iterable of a loop "
    "that annotates its elements and pours them on. It never is (part of) the test of a branch, measured, compared, indexed, formatted "
    "or handed to anything else, and no template reads one: what is written for the pieces that remain cannot depend on it")

MEASURES = {"len", "bool", "any", "all", "sum", "min", "max", "next", "isinstance", "str", "repr", "hash", "id"}


def _leaf_stmts(body: list[ast.stmt]) -> Any:
    """the simple statements of a block, through the compound statements that hold them (not into nested definitions)"""
    for st in body:
        if isinstance(st, (ast.FunctionDef, ast.AsyncFunctionDef, ast.ClassDef)):
            continue
        subs = [getattr(st, fld) for fld in ("body", "orelse", "finalbody") if isinstance(getattr(st, fld, None), list)]
        subs += [h.body for h in getattr(st, "handlers", None) or []] + [c.body for c in getattr(st, "cases", None) or []]
        if subs and not isinstance(st, (ast.Expr, ast.Assign)):
            for b in subs:
                yield from _leaf_stmts(b)
        else:
            yield st


class _Pour:
    """Follows the value of an error store through one function (and into the package's functions it is handed to) and says how it is
    used when that is anything but pouring it on."""

    def __init__(self, ix: Any, stores: set[str]) -> None:
        self.ix = ix
        self.stores = stores
        self.parents: dict[str, dict[int, ast.AST]] = {}
        self.busy: set[tuple[str, str]] = set()

    def parent(self, f: FuncInfo) -> dict[int, ast.AST]:
        if f.qual not in self.parents:
            self.parents[f.qual] = {id(c): n for n in ast.walk(f.node) for c in ast.iter_child_nodes(n)}
        return self.parents[f.qual]

    def is_store(self, e: ast.AST | None) -> bool:
        return isinstance(e, ast.Attribute) and e.attr in self.stores

    def local(self, f: FuncInfo, name: str, depth: int) -> str | None:
        """every read of the local / parameter `name` of f pours"""
        if (f.qual, name) in self.busy or depth > 6:
            return None
        self.busy.add((f.qual, name))
        try:
            for n in _own_nodes(f.node):
                if isinstance(n, ast.Name) and n.id == name and isinstance(n.ctx, ast.Load):
                    why = self.fate(f, n, depth + 1)
                    if why is not None:
                        return why
            return None
        finally:
            self.busy.discard((f.qual, name))

    def elements(self, f: FuncInfo, target: ast.AST, body: list[ast.stmt], depth: int) -> str | None:
        """a loop over the store: each statement of its body annotates the element, pours it on, or only computes locals"""
        elem = names_in(target)
        par = self.parent(f)
        for st in _leaf_stmts(body):
            if isinstance(st, (ast.Continue, ast.Pass, ast.Break)):
                continue
            tgts = st.targets if isinstance(st, ast.Assign) else [st.target] if isinstance(st, (ast.AnnAssign, ast.AugAssign)) else []
            if tgts and all(isinstance(t, ast.Name) or (isinstance(t, (ast.Attribute, ast.Subscript)) and _root_name(t) in elem) for t in tgts):
                continue   # a local is computed / the element is annotated
            if not (names_in(st) & elem):
                return f"`{norm(st)[:50]}` (line {st.lineno}) is executed once per recorded diagnostic"
        for n in [n for st in body for n in ast.walk(st)]:
            if isinstance(n, ast.Name) and n.id in elem and isinstance(n.ctx, ast.Load) and not isinstance(par.get(id(n)), ast.Attribute):
                why = self.fate(f, n, depth + 1)
                if why is not None:
                    return why
        return None

    def fate(self, f: FuncInfo, node: ast.AST, depth: int = 0) -> str | None:
        """None: the value of `node` (an error store, or what holds its entries) is poured on; otherwise what is done with it"""
        par = self.parent(f)
        p = par.get(id(node))
        if p is None or depth > 12:
            return None
        up = lambda: self.fate(f, p, depth + 1)  # noqa: E731
        at = f"(line {getattr(node, 'lineno', '?')})"
        if isinstance(p, ast.Attribute):
            gp = par.get(id(p))
            if isinstance(gp, ast.Call) and gp.func is p:
                if p.attr in PUTS:
                    return None
                if p.attr == "copy":
                    return self.fate(f, gp, depth + 1)
                return f"`.{p.attr}()` of it {at}"
            return f"`.{p.attr}` of it is read {at}"
        if isinstance(p, ast.keyword):
            if p.arg in self.stores:
                return None
            return self.argument(f, par.get(id(p)), node, p.arg, depth, at)
        if isinstance(p, ast.Call):
            return self.argument(f, p, node, None, depth, at)
        if isinstance(p, (ast.Starred, ast.List, ast.Tuple, ast.Set, ast.Await, ast.BoolOp)) or (isinstance(p, ast.BinOp) and isinstance(p.op, ast.Add)):
            return up()
        if isinstance(p, ast.IfExp):
            return f"it decides `{norm(p)[:60]}` {at}" if p.test is node else up()
        if isinstance(p, (ast.Return, ast.Yield, ast.YieldFrom, ast.Expr)):
            return None
        if isinstance(p, ast.NamedExpr):
            return self.local(f, p.target.id, depth) or up()
        if isinstance(p, (ast.Assign, ast.AnnAssign, ast.AugAssign)) and p.value is node:
            for t in (p.targets if isinstance(p, ast.Assign) else [p.target]):
                if isinstance(t, ast.Name):
                    why = self.local(f, t.id, depth)
                    if why is not None:
                        return why
                elif not self.is_store(t):
                    return f"stored into `{norm(t)[:40]}` {at}"
            return None
        if isinstance(p, (ast.For, ast.AsyncFor)) and p.iter is node:
            return self.elements(f, p.target, p.body, depth)
        if isinstance(p, ast.comprehension) and p.iter is node:
            comp = par.get(id(p))
            elem = names_in(p.target)
            kept = names_in(comp.value) | names_in(comp.key) if isinstance(comp, ast.DictComp) else names_in(getattr(comp, "elt", None))
            if not (kept & elem):
                return f"`{norm(comp)[:60]}` is computed once per recorded diagnostic {at}"
            return self.fate(f, comp, depth + 1) if comp is not None else None
        if isinstance(p, (ast.If, ast.While, ast.Assert)) and p.test is node:
            return f"it decides `{norm(p.test)[:60]}` {at}"
        if isinstance(p, (ast.Compare, ast.UnaryOp)):
            return f"it decides `{norm(p)[:60]}` {at}"
        if isinstance(p, ast.Subscript):
            return f"an entry of it is taken: `{norm(p)[:50]}` {at}"
        if isinstance(p, (ast.FormattedValue, ast.JoinedStr)):
            return f"it is formatted into text {at}"
        return f"it is used in `{norm(p)[:60]}` {at}"

    def argument(self, f: FuncInfo, c: ast.AST | None, node: ast.AST, kw: str | None, depth: int, at: str) -> str | None:
        if not isinstance(c, ast.Call):
            return None
        last = call_name(c).rsplit(".", 1)[-1]
        if isinstance(c.func, ast.Attribute) and c.func.attr in PUTS:
            recv = c.func.value
            if self.is_store(recv) or isinstance(recv, ast.Name):
                return None
            return f"it is put into `{norm(recv)[:40]}` {at}"
        if last in (WHOLE_COPIES | {"chain"}) - {"cast"} or (last == "cast" and c.args and c.args[-1] is node):
            return self.fate(f, c, depth + 1)
        if last in MEASURES:
            return f"it decides `{norm(c)[:60]}` {at}"
        g = _callee(self.ix, f, c)
        if g is not None and g.module.name.startswith("openapi_python_client"):
            a = g.node.args
            pos = [x.arg for x in [*a.posonlyargs, *a.args]]
            if g.cls is not None and g.kind in ("method", "classmethod") and pos and not (isinstance(c.func, ast.Name)):
                pos = pos[1:]
            name = kw if kw is not None else next((pos[i] for i, x in enumerate(c.args) if x is node and i < len(pos)), None)
            if name is not None and name in {x.arg for x in [*a.posonlyargs, *a.args, *a.kwonlyargs]}:
                why = self.local(g, name, depth + 1)
                return None if why is None else f"{short(g)}: {why}"
        return f"it is handed to `{last}(...)` {at}"


def _diagnostics_only_poured(rep: Report, ctx: Any) -> None:
    ix = ctx.py
    stores = _error_stores(ix)
    rep.require(stores, "fields declared as containers of error values (e.g. parse_errors: list[ParseError])")
    pour = _Pour(ix, stores)
    n_reads = 0
    for f in ix.all_functions:
        reads: dict[str, list[ast.Attribute]] = {}
        lcs = Locals(f.node)
        params = {p_.arg: None for p_ in f.params}
        called = {id(c.func) for c in _own_nodes(f.node) if isinstance(c, ast.Call)}
        for n in _own_nodes(f.node):
            if isinstance(n, ast.Attribute) and n.attr in stores and isinstance(n.ctx, ast.Load) and id(n) not in called:   # (x.errors(): a method)
                r = ix.resolve(f.module, dotted(n)) if dotted(n) and isinstance(_root_name(n), str) and _root_name(n) not in lcs.defs | params else None
                if r is not None and r[0] in ("module", "ext", "class", "func"):
                    continue   # <package>.errors: a module of that name, not a field
                reads.setdefault(n.attr, []).append(n)
        for store, nodes in sorted(reads.items()):
            n_reads += len(nodes)
            whys = [(n, w) for n in nodes for w in [pour.fate(f, n)] if w is not None]
            rep.check(not whys, "R08.15", f"{short(f)}::diagnostics-only-poured[{store}]",
                      f"the error store `{store}` is not just poured on ({'; '.join(w for _, w in whys)[:240]}): whether a bad piece was met "
                      "anywhere in the document then decides about what is generated for pieces that have nothing to do with it",
                      where(f, whys[0][0] if whys else f.node), lhs=[w for _, w in whys][:4],
                      rhs="put into / returned / bound to an error store, whole or element by element")
    rep.floor("error_store_reads", n_reads, 8)
    # templates: no read of an error store at all
    try:
        from jinja2 import nodes as jn
    except Exception:  # pragma: no cover
        jn = None
    if jn is not None:
        for name, t in sorted(ctx.jinja.templates.items()):
            got = sorted({g.attr for g in t.tree.find_all(jn.Getattr) if g.attr in stores and g.attr != "errors"} |
                         {g.attr for g in t.tree.find_all(jn.Getattr) if g.attr == "errors" and not isinstance(g.node, jn.Name)})
            if got:
                rep.fail("R08.15", f"template {name}::reads-diagnostics[{', '.join(got)}]",
                         "a template reads an error store: the text of a generated module depends on whether a bad piece was met", name,
                         lhs=got, rhs="no read of errors / parse_errors in a template")
