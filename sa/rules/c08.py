"""C08 - a bad piece of the document never damages unrelated output (containment mechanisms)."""
from __future__ import annotations

import ast
import builtins
from typing import Any

from ..astutil import (ERROR_CLASSES, ERROR_ONLY_HELPERS, Locals, call_name, cfg_of, constructs_error, enclosing_loop_body,
                       error_names, names_in, norm, region, resolved_text, returns_error, role_anon, short, stmt_calls, stmt_of, where)
from ..cfg import CFG, EXIT, walk_own
from ..core import Report
from ..pyindex import FuncInfo, dotted
from . import inplace

LEVEL = ("containment mechanisms only (byte equality of two trees is a relation between runs and is not decided): dependency "
         "recording on every successful path and roots forwarded to every recursive build; removal closed over recorded "
         "dependants; the threaded Schemas/Parameters state is only rebound from the result of a step that received it (no stale "
         "snapshot); an item's failure continues the loop, never ends it; the registry does not alias the caller's roots set; the "
         "registries are written in place only by the frozen table of legitimate writers (everything else registers on an evolved "
         "copy); document-named output directories are rebuilt from empty.")

CONTAIN_LOOPS = {
    "parser.openapi.EndpointCollection.from_data", "parser.openapi.Endpoint._add_responses", "parser.bodies.body_from_data",
    "parser.properties._create_schemas", "parser.properties._process_models", "parser.properties.build_parameters",
    "parser.properties._propogate_removal", "parser.properties._process_model_errors",
}
THREADED = ("schemas", "parameters")


def run(rep: Report, ctx: Any) -> str:
    ix = ctx.py
    cfgs: dict[str, CFG] = {}
    rep.rule("R08.1", "dependency recording is unconditional: every successful return of a function that resolves a schema reference "
                      "passes through add_dependencies; `roots` is forwarded to every recursive property_from_data call")
    rep.rule("R08.2", "removal is closed: _propogate_removal (with its private helpers) deletes the reference, pops class names and removes "
                      "each recorded dependant in turn (recursion per dependant, or dependants put on the worklist it consumes); "
                      "_process_model_errors applies it to every root of every failed model")
    rep.rule("R08.3", "the threaded state (schemas / parameters) is rebound only from results of steps that received it: a failure "
                      "hands back the caller's state, never a stale snapshot")
    rep.rule("R08.4", "loop containment: in the per-item loops (of the containment functions and of the private helpers that work on the "
                      "threaded state for them) no `return` / `break` ends the traversal because of one item: none at all in a `for`; in a "
                      "`while`, none whose reaching is decided by a branch on the item the iteration took from its worklist (how a loop "
                      "over rounds ends - flag, `while True` + break, return - is not an item's doing)")
    rep.rule("R08.5", "Schemas.add_dependencies stores a fresh set and only copies the caller's roots into it")
    rep.rule("R08.6", "only exclusively owned classes are recorded for removal: an add_dependencies call either forwards the `roots` it was "
                      "given, or records a class name for which the recording function rejects an already registered class of that name "
                      "(removal pops the name from classes_by_name: a class shared by name would be taken from its other users)")
    rep.rule("R08.7", "document validation is one all-or-nothing step, so no validator of a piece-level document model raises: a piece the "
                      "parser contains must not be turned into a failure of the whole document before the parser sees it")
    rep.rule("R08.10", "nothing stale remains: what this run omits (a failed piece and its dependants) does not survive from an earlier run in "
                       "the same output directory - every directory that receives modules named after the document is removed earlier in "
                       "the run, on every path that reaches the write (a leftover endpoint module imports model modules this run removed)")
    rep.rule("R08.8", "the product of a fallible, state-threading build step made for an item is never dropped: from the step, every way "
                      "to the end of the iteration hands the product (or its error) on - a piece that does not contribute is skipped "
                      "before it is built, so it can neither fail its container nor leave classes behind (which results of the step are "
                      "fallible products is read off its declared return type; the product is followed through the locals, collections "
                      "and loop variables that come to hold it)")

    # ---- R08.1 -----------------------------------------------------------------------------------------------------
    pfr = ix.func("properties._property_from_ref")
    cfg = cfg_of(pfr, cfgs)
    errs = error_names(pfr.node)
    dep = [s for s in cfg.stmts() if stmt_calls(s, "add_dependencies")]
    ok_all = bool(dep)
    for s in cfg.stmts():
        if isinstance(s, ast.Return) and not returns_error(s, errs):
            ok = cfg.is_dominated_by(s, lambda n: n in dep)
            ok_all = ok_all and ok
            rep.check(ok, "R08.1", "_property_from_ref::success-records-dependency",
                      "a property built from a reference is returned without recording the dependency (its model survives the removal "
                      "of the referenced schema)", where(pfr, s), lhs=norm(s)[:60], rhs="dominated by schemas.add_dependencies")
    for d in dep:
        for c in ast.walk(d):
            if isinstance(c, ast.Call) and call_name(c).endswith("add_dependencies"):
                kws = {k.arg: norm(k.value) for k in c.keywords}
                refs = set(Locals(pfr.node).bound_from(lambda v: v == "parse_reference_path(data.ref)", "assign"))
                rep.check(kws.get("roots") == "roots" and kws.get("ref_path") in refs, "R08.1", "_property_from_ref::records-own-roots",
                          "the dependency is recorded for something else than (ref_path, roots)", where(pfr, c), lhs=kws,
                          rhs="ref_path=<parse_reference_path(data.ref)>, roots=roots")
    pp = ix.func("model_property._process_properties")
    _allof_reference_recorded(rep, ix, pp, cfgs)
    n_calls = 0
    for f in ix.all_functions:
        params = {p.arg for p in f.params}
        for c in ast.walk(f.node):
            if isinstance(c, ast.Call) and call_name(c).rsplit(".", 1)[-1] == "property_from_data":
                kws = {k.arg: norm(k.value) for k in c.keywords}
                if "roots" in params or "roots" in {n.id for n in ast.walk(f.node) if isinstance(n, ast.Name)}:
                    n_calls += 1
                    # `roots` itself, or a local built from it (e.g. {*roots, class_info.name})
                    lc_ = Locals(f.node)
                    rv_ = kws.get("roots") or ""
                    grown = bool(lc_.values_of(rv_)) and all("roots" in {x.id for x in ast.walk(v_) if isinstance(x, ast.Name)} for v_ in lc_.values_of(rv_))
                    rep.check(rv_ == "roots" or grown, "R08.1", f"{short(f)}::forwards-roots",
                              "a nested schema is built without the roots of the enclosing schema: its references are not tied to the "
                              "enclosing model", where(f, c), lhs=kws.get("roots"), rhs="roots=roots")
                elif f.cls is not None and f.name == "build" and f.cls.name in ("UnionProperty", "ListProperty", "ModelProperty"):
                    n_calls += 1
                    rep.fail("R08.1", f"{short(f)}::forwards-roots",
                             f"{f.cls.name}.build builds its member schemas through property_from_data without `roots`: a model whose union "
                             "member refers to a schema that is later removed keeps importing the removed module", where(f, c),
                             lhs="no roots parameter", rhs="roots forwarded from property_from_data")
    rep.floor("recursive_build_calls", n_calls, 2)
    pfd = ix.func("properties.property_from_data")
    for c in ast.walk(pfd.node):
        if isinstance(c, ast.Call) and call_name(c).endswith(".build"):
            callee_cls = call_name(c).split(".")[0]
            cinfo = next((k for k in ix.classes.values() if k.name == callee_cls), None)
            b = cinfo.methods.get("build") if cinfo else None
            if b is not None and "roots" in {p.arg for p in b.params}:
                kws = {k.arg: norm(k.value) for k in c.keywords}
                rep.check(kws.get("roots") == "roots", "R08.1", f"property_from_data::{callee_cls}.build-roots", "roots not passed to the builder",
                          where(pfd, c), lhs=kws.get("roots"), rhs="roots")

    # ---- R08.2 ------------------------------------------------------------------------------------------------------------
    _removal_closed(rep, ix)

    # ---- R08.3 --------------------------------------------------------------------------------------------------------------
    n_thr = 0
    for f in ix.all_functions:
        if not f.module.name.startswith("openapi_python_client.parser"):
            continue
        pnames = {p_.arg for p_ in f.params}
        state_vars = {v_ for v_ in THREADED if v_ in pnames} | set(Locals(f.node).bound_from(
            lambda t_: t_.startswith(("Schemas(", "Parameters(")), "assign"))
        for var in sorted(state_vars):
            assigns = []
            for n in ast.walk(f.node):
                if isinstance(n, ast.Assign):
                    for tg in n.targets:
                        names = [tg] if isinstance(tg, ast.Name) else (list(tg.elts) if isinstance(tg, ast.Tuple) else [])
                        if any(isinstance(x, ast.Name) and x.id == var for x in names):
                            assigns.append(n)
            if not assigns:
                continue
            # names that hold results of steps which received the state
            derived = {var}
            changed = True
            while changed:
                changed = False
                for n in ast.walk(f.node):
                    if isinstance(n, (ast.Assign, ast.AnnAssign)) and n.value is not None:
                        tgts = n.targets if isinstance(n, ast.Assign) else [n.target]
                        if _takes(n.value, derived):
                            for tg in tgts:
                                for x in ([tg] if isinstance(tg, ast.Name) else (list(tg.elts) if isinstance(tg, ast.Tuple) else [])):
                                    if isinstance(x, ast.Name) and x.id not in derived:
                                        derived.add(x.id)
                                        changed = True
            for a in assigns:
                n_thr += 1
                v = a.value
                ok = _takes(v, derived) or (isinstance(v, ast.Call) and call_name(v).rsplit(".", 1)[-1] in ("Schemas", "Parameters")) or \
                    (isinstance(v, ast.Name) and v.id in derived and _result_name(f.node, v.id, var)) or \
                    (isinstance(v, ast.Attribute) and isinstance(v.value, ast.Name) and v.value.id in derived)
                rep.check(ok, "R08.3", f"{short(f)}::{var} = {norm(v)[:40]}",
                          f"`{var}` is rebound from something that is not the result of a step which received it (a stale snapshot discards "
                          "the classes registered by earlier, valid items)", where(f, a), lhs=norm(a)[:80], rhs="result of f(..., " + var + "=...) / evolve")
    rep.floor("threaded_state_assignments", n_thr, 21)
    # error returns hand back the input state (which element of the returned tuple is the Schemas is read off the declared return type)
    n_ret = 0
    for f in ix.all_functions:
        ann = _annotation(f.node.returns)
        if not (isinstance(ann, ast.Subscript) and (dotted(ann.value) or "").rsplit(".", 1)[-1] in ("tuple", "Tuple")):
            continue
        parts = list(ann.slice.elts) if isinstance(ann.slice, ast.Tuple) else [ann.slice]
        at = [i for i, p_ in enumerate(parts) if "Schemas" in _type_names(p_)]
        if not at:
            continue
        errs = error_names(f.node)
        for r in ast.walk(f.node):
            if isinstance(r, ast.Return) and isinstance(r.value, ast.Tuple) and len(r.value.elts) == len(parts) and returns_error(r, errs):
                n_ret += 1
                states = [r.value.elts[i] for i in at]
                label = next((norm(e) for i, e in enumerate(r.value.elts) if i not in at), "")
                rep.check(all(isinstance(s2, ast.Name) and s2.id == "schemas" for s2 in states), "R08.3", f"{short(f)}::error-return-state[{label[:30]}]",
                          "an error is returned together with something other than the threaded `schemas` variable", where(f, r),
                          lhs=[norm(s2) for s2 in states], rhs="schemas")
    rep.floor("error_returns_with_state", n_ret, 16)

    # ---- R08.4 ----------------------------------------------------------------------------------------------------------------
    _loops_contain(rep, ix, cfgs)

    check_no_alias(rep, ctx, "R08.5")
    _exclusive_dependants(rep, ix, cfgs)
    _piece_validators_do_not_raise(rep, ix)
    _products_not_dropped(rep, ix, cfgs)
    # ---- R08.9: who may write the registries in place (stated once, in inplace.py, for C08 / C12 / C20) ---------------------------
    inplace.check(rep, ctx, "R08.9")
    # ---- R08.10: what this run omits does not survive from an earlier run ------------------------------------------------------------
    _nothing_stale_remains(rep, ctx)
    rep.not_decided += ["byte equality of the output trees with and without the bad piece"]
    return LEVEL


class _Under:
    """A Report seen through another rule id: lets this property state, under its own id, a rule that another property's module
    already states generally (one statement of the rule, one implementation)."""

    def __init__(self, rep: Report, rid: str) -> None:
        self._rep = rep
        self._rid = rid

    def check(self, cond: bool, rule: str, construct: str, message: str, where: str = "", lhs: Any = None, rhs: Any = None, **facts: Any) -> bool:
        return self._rep.check(cond, self._rid, construct, message, where, lhs, rhs, **facts)

    def ok(self, rule: str, construct: str, lhs: Any = None, rhs: Any = None, nontrivial: bool = True) -> None:
        self._rep.ok(self._rid, construct, lhs, rhs, nontrivial)

    def fail(self, rule: str, construct: str, message: str, where: str = "", lhs: Any = None, rhs: Any = None, **facts: Any) -> None:
        self._rep.fail(self._rid, construct, message, where, lhs, rhs, **facts)

    def rule(self, rid: str, text: str) -> None:
        self._rep.rule(self._rid, text)

    def __getattr__(self, name: str) -> Any:
        return getattr(self._rep, name)


def _nothing_stale_remains(rep: Report, ctx: Any) -> None:
    """The pieces a run omits must not be in the output tree afterwards either - also when the tree held an earlier generation (the
    documented update workflow: regenerate in place after the document changed).  A module of an endpoint that is now omitted, left
    over from the earlier run, imports model modules that this run removed.  The structural necessary condition is the one C01 states
    as R01.9 - every directory that receives entries named after the document is removed earlier in the run on every path that reaches
    the write (paths are the abstract interpreter's values, effects are followed through helpers) - so it is evaluated by that rule's
    own implementation and reported here under this property's id."""
    from . import c01

    rule = getattr(c01, "_rebuilt_from_empty", None)
    rep.require(callable(rule), "the no-stale-module rule of C01 (c01._rebuilt_from_empty), which R08.10 evaluates")
    rule(_Under(rep, "R08.10"), ctx)


def check_no_alias(rep: Report, ctx: Any, rid: str) -> None:
    """Schemas.add_dependencies stores a fresh set and only copies the caller's roots into it (shared by C08 / C20)"""
    ix = ctx.py
    ad = ix.func("Schemas.add_dependencies")
    uses = [n for n in ast.walk(ad.node) if isinstance(n, ast.Name) and n.id == "roots" and isinstance(n.ctx, ast.Load)]
    bad = []
    for u in uses:
        par = _parent_call(ad.node, u)
        if par is None or not (isinstance(par.func, ast.Attribute) and par.func.attr in ("update", "union") and u in par.args):
            bad.append(norm(par)[:70] if par is not None else "bare use")
    rep.check(bool(uses) and not bad, rid, "Schemas.add_dependencies::no-alias",
              f"the caller's `roots` set is stored in the registry itself ({bad}): later additions for other dependants land in the first "
              "dependant's roots, and its failure removes unrelated schemas", where(ad, ad.node), lhs=bad, rhs="only `.update(roots)` into a fresh set()")
    fresh = any(isinstance(c, ast.Call) and call_name(c).endswith("setdefault") and len(c.args) == 2 and norm(c.args[1]) == "set()" for c in ast.walk(ad.node))
    rep.check(fresh, rid, "Schemas.add_dependencies::fresh-set", "the registry entry is not created as a fresh set()", where(ad, ad.node))


def _takes(v: ast.expr, names: set[str]) -> bool:
    """v is a call (or a tuple/await of it) that receives one of `names` as an argument - or as the object whose method is called -, or
    evolve(<name>, ...)"""
    if isinstance(v, ast.Call):
        args = [a for a in v.args] + [k.value for k in v.keywords]
        if isinstance(v.func, ast.Attribute) and isinstance(v.func.value, ast.Name) and v.func.value.id in names:
            return True   # <state>.method(...): the method receives the state as self
        for a in args:
            if isinstance(a, ast.Name) and a.id in names:
                return True
            if isinstance(a, ast.Attribute) and isinstance(a.value, ast.Name) and a.value.id in names:
                return True
        return False
    return False


def _result_name(fn: ast.AST, name: str, var: str) -> bool:
    """`name` is bound (only) from results of calls taking the state, e.g. schemas_or_err / new_schemas"""
    if name == var:
        return True
    defs = [n for n in ast.walk(fn) if isinstance(n, ast.Assign) and any(
        (isinstance(t, ast.Name) and t.id == name) or (isinstance(t, ast.Tuple) and any(isinstance(x, ast.Name) and x.id == name for x in t.elts))
        for t in n.targets)]
    return bool(defs) and all(isinstance(d.value, ast.Call) for d in defs)


def _parent_call(fn: ast.AST, node: ast.AST) -> ast.Call | None:
    best = None
    for c in ast.walk(fn):
        if isinstance(c, ast.Call) and any(x is node for x in ast.walk(c)) and c is not node:
            best = c
    return best


# ---- R08.2: removal is closed over the recorded dependants ----------------------------------------------------------------------

GROW = {"extend", "update", "append", "add", "extendleft", "appendleft", "insert", "put", "put_nowait"}


def _drops_entry(g: FuncInfo, attr: str) -> bool:
    """g deletes an entry of <...>.<attr> (del x.attr[k] / x.attr.pop(k), also through a local bound to x.attr)"""
    for n in ast.walk(g.node):
        recv = None
        if isinstance(n, ast.Delete):
            recv = next((t.value for t in n.targets if isinstance(t, ast.Subscript) and attr in resolved_text(t.value, g.node)), None)
        elif isinstance(n, ast.Call) and isinstance(n.func, ast.Attribute) and n.func.attr in ("pop", "__delitem__"):
            recv = n.func.value if attr in resolved_text(n.func.value, g.node) else None
        if recv is not None:
            return True
    return False


def _revisits_dependants(g: FuncInfo, names: set[str]) -> bool:
    """what is recorded under <...>.dependencies is itself removed: a loop over it whose body calls the removal again for its element
    (recursion), or it is put on the worklist the removal loop takes its items from (iteration)"""
    def deps(e: ast.AST) -> bool:
        return ".dependencies" in resolved_text(e, g.node)

    worklists: set[str] = set()
    for lp in ast.walk(g.node):
        if isinstance(lp, ast.While):
            worklists |= _take(lp)[1]
        elif isinstance(lp, (ast.For, ast.AsyncFor)):
            worklists |= names_in(lp.iter)
    for n in ast.walk(g.node):
        if isinstance(n, (ast.For, ast.AsyncFor)) and deps(n.iter):
            tg = names_in(n.target)
            if any(isinstance(c, ast.Call) and call_name(c).rsplit(".", 1)[-1] in names and
                   any(names_in(a) & tg for a in [*c.args, *[k.value for k in c.keywords]]) for b in n.body for c in ast.walk(b)):
                return True
        if isinstance(n, (ast.ListComp, ast.SetComp, ast.GeneratorExp)) and any(deps(gen.iter) for gen in n.generators):
            tg = set().union(*[names_in(gen.target) for gen in n.generators])
            if any(isinstance(c, ast.Call) and call_name(c).rsplit(".", 1)[-1] in names and
                   any(names_in(a) & tg for a in [*c.args, *[k.value for k in c.keywords]]) for c in ast.walk(n.elt)):
                return True
        if isinstance(n, ast.Call) and isinstance(n.func, ast.Attribute) and n.func.attr in GROW and _root_name(n.func.value) in worklists \
                and any(deps(a) for a in n.args):
            return True
        if isinstance(n, ast.AugAssign) and isinstance(n.target, ast.Name) and n.target.id in worklists and deps(n.value):
            return True
        if isinstance(n, ast.Assign) and deps(n.value) and names_in(n.value) & worklists and \
                any(names_in(t) & worklists for t in n.targets):
            return True  # pending = pending + deps / [*pending, *deps]
    return False


def _removal_closed(rep: Report, ix: Any) -> None:
    pr = ix.func("properties._propogate_removal")
    reg = region(ix, pr)
    names = {g.name for g in reg}
    deletes_ref = any(_drops_entry(g, "classes_by_reference") for g in reg)
    pops_class = any(_drops_entry(g, "classes_by_name") for g in reg)
    visits_deps = any(_revisits_dependants(g, names) for g in reg)
    rep.check(deletes_ref and visits_deps and pops_class, "R08.2", "_propogate_removal::closed",
              "removal no longer deletes the reference, pops class names and visits the recorded dependants", where(pr, pr.node),
              lhs=[deletes_ref, visits_deps, pops_class], rhs="delete reference, visit dependants, pop class names")
    # every root of every failed model: the removal is called (here or in a private helper) with an element of <model>.roots, the model
    # being an element of model_errors
    pme = ix.func("properties._process_model_errors")
    ok = False
    for g in region(ix, pme):
        if g.qual == pr.qual:
            continue
        for c in ast.walk(g.node):
            if not (isinstance(c, ast.Call) and call_name(c).rsplit(".", 1)[-1] == pr.name):
                continue
            kws = {k.arg: k.value for k in c.keywords}
            root = kws.get("root", c.args[0] if c.args else None)
            if root is None or not _each_of(root, g.node, ".roots"):
                continue
            if g.qual == pme.qual:
                ok = ok or _each_of(root, g.node, "model_errors")
            else:  # the helper handles one model: it is called for each of model_errors
                ok = ok or any(isinstance(c2, ast.Call) and call_name(c2).rsplit(".", 1)[-1] == g.name and
                               any(_each_of(a, pme.node, "model_errors") for a in [*c2.args, *[k.value for k in c2.keywords]])
                               for c2 in ast.walk(pme.node))
    rep.check(ok, "R08.2", "_process_model_errors::every-root", "removal is not applied to every root of every failed model", where(pme, pme.node))


def _each_of(e: ast.AST, fn: ast.AST, what: str, depth: int = 4) -> bool:
    """e is (computed from) a loop / comprehension variable that runs over - or an element taken off - something whose text, followed
    through the locals it is made of, mentions `what`"""
    lc = Locals(fn)
    seen: set[str] = set()
    frontier = names_in(e)
    for _ in range(depth):
        nxt: set[str] = set()
        for n in sorted(frontier - seen):
            seen.add(n)
            for kind, _, v in lc.defs.get(n, []):
                if v is None:
                    continue
                if (kind.startswith("for") or _taken_from(v) is not None) and what in resolved_text(v, fn):
                    return True
                nxt |= names_in(v)
        frontier = nxt
    return False


# ---- R08.4: an item never ends the traversal ------------------------------------------------------------------------------------

TAKES = {"pop", "popleft", "popitem", "get_nowait"}
STATE_CLASSES = {"Schemas", "Parameters"}


def _own_nodes(lp: ast.AST) -> list[ast.AST]:
    """nodes of the loop that run as part of it (not the bodies of functions / lambdas defined inside it)"""
    skip: set[int] = set()
    for d in ast.walk(lp):
        if isinstance(d, (ast.FunctionDef, ast.AsyncFunctionDef, ast.Lambda)) and d is not lp:
            skip |= {id(x) for x in ast.walk(d) if x is not d}
    return [n for n in ast.walk(lp) if id(n) not in skip]


def _state_names(g: FuncInfo) -> set[str]:
    """names under which g holds the threaded state: parameters called schemas / parameters or annotated with the state classes,
    locals created as Schemas(...) / Parameters(...)"""
    out = {p.arg for p in g.params if p.arg in THREADED or (p.annotation is not None and _type_names(p.annotation) & STATE_CLASSES)}
    return out | set(Locals(g.node).bound_from(lambda t_: t_.startswith(("Schemas(", "Parameters(")), "assign"))


def _taken_from(v: ast.AST | None) -> str | None:
    """the collection that `v` takes one element out of: <c>.pop(...) / .popleft() / .popitem(), next(<c>), <c>[0] / <c>[-1]"""
    while isinstance(v, ast.Await):
        v = v.value
    if isinstance(v, ast.Call) and isinstance(v.func, ast.Attribute) and v.func.attr in TAKES:
        return _root_name(v.func.value)
    if isinstance(v, ast.Call) and call_name(v) == "next" and v.args:
        return _root_name(v.args[0])
    if isinstance(v, ast.Subscript) and isinstance(v.value, ast.Name):
        i = v.slice.operand if isinstance(v.slice, ast.UnaryOp) else v.slice
        if isinstance(i, ast.Constant) and isinstance(i.value, int):
            return v.value.id
    return None


def _items_of(lp: ast.While) -> set[str]:
    return _take(lp)[0]


def _take(lp: ast.While) -> tuple[set[str], set[str]]:
    """(items, worklists).  The `current item` of a while loop: what an iteration takes out of a collection (worklist form:
    x = pending.pop(...), next(it), pending[0]) and the locals computed from it.  A loop without such a take (`while still_making_progress`, `while True` around a
    round over all items) has no current item: its iterations are rounds, and how it ends is the fixpoint's own business."""
    own = _own_nodes(lp)
    items: set[str] = set()
    sources: set[str] = set()
    binds: list[tuple[set[str], ast.AST]] = []
    for n in own:
        if isinstance(n, ast.Assign):
            for t in n.targets:
                if isinstance(t, (ast.Tuple, ast.List)) and isinstance(n.value, (ast.Tuple, ast.List)) and len(t.elts) == len(n.value.elts):
                    binds += [(names_in(x), v_) for x, v_ in zip(t.elts, n.value.elts)]  # a, b = x, y
                elif isinstance(t, (ast.Name, ast.Tuple, ast.List)):
                    binds.append((names_in(t), n.value))
        elif isinstance(n, (ast.AnnAssign, ast.NamedExpr, ast.AugAssign)) and n.value is not None and isinstance(n.target, ast.Name):
            binds.append(({n.target.id}, n.value))
        elif isinstance(n, (ast.For, ast.comprehension)):
            binds.append((names_in(n.target), n.iter))
    for tg, v in binds:
        src = _taken_from(v)
        if src is not None:
            items |= tg
            sources.add(src)
    changed = bool(items)
    while changed:
        changed = False
        for tg, v in binds:
            new = tg - items - sources
            if new and names_in(v) & items:
                items |= new
                changed = True
    return items - sources, sources


def _decided_by_item(cfg: CFG, lp: ast.While, ex: ast.stmt, items: set[str]) -> ast.stmt | None:
    """the branch on the current item that decides whether this iteration reaches the exit `ex` (reached from some of its arms, not from
    all of them); indifferent to nested-if / early-continue form and to branch order"""
    def reaches(s0: object) -> bool:
        return s0 is not lp and (s0 is ex or ex in cfg.reachable_from(s0, avoid=lambda n: n is lp))

    for t in _own_nodes(lp):
        if not isinstance(t, (ast.If, ast.Match)) or t not in cfg.succ:
            continue
        if not (names_in(t.test if isinstance(t, ast.If) else t.subject) & items):
            continue
        arms = [s0 for s0 in cfg.succ[t] if not isinstance(s0, ast.ExceptHandler)]
        if len(arms) > 1 and len({reaches(s0) for s0 in arms}) > 1:
            return t
    return None


def _loops_contain(rep: Report, ix: Any, cfgs: dict[str, CFG]) -> None:
    """Loops of the containment functions and of the private helpers they delegate to (a helper's loop counts when it works on the
    threaded state: that is where a per-item loop goes when a round is extracted).  `for`: an iteration is an item, so no return / own
    break.  `while`: an exit is item-caused when a branch on the current item decides whether it is reached."""
    n_l = 0
    done: set[str] = set()
    for f in ix.all_functions:
        if short(f) not in CONTAIN_LOOPS:
            continue
        for g in region(ix, f):
            if g.qual in done:
                continue
            done.add(g.qual)
            named = short(g) in CONTAIN_LOOPS
            state = set() if named else _state_names(g)
            for lp in [n for n in ast.walk(g.node) if isinstance(n, (ast.For, ast.AsyncFor, ast.While))]:
                if not named and not (names_in(lp) & state):
                    continue
                n_l += 1
                head = role_anon(lp.iter if not isinstance(lp, ast.While) else lp.test, g.node)[:40]
                exits = [st for st in _own_nodes(lp) if st is not lp and (
                    isinstance(st, ast.Return) or (isinstance(st, ast.Break) and enclosing_loop_body(g.node, st) is lp))]
                bad = 0
                if isinstance(lp, ast.While) and exits:
                    items = _items_of(lp)
                    cfg = cfg_of(g, cfgs)
                    exits = [st for st in exits if items and _decided_by_item(cfg, lp, st, items) is not None]
                for st in exits:
                    bad += 1
                    rep.fail("R08.4", f"{short(g)}::{type(st).__name__.lower()}-inside-loop[{head}]",
                             "one item ends the traversal of all remaining items (`return`/`break` inside the per-item loop)", where(g, st),
                             lhs=norm(st)[:60], rhs="continue / re-queue")
                if not bad:
                    rep.ok("R08.4", f"{short(g)}::loop[{head}]", "no item-caused return/break", "per-item containment")
    rep.floor("containment_loops", n_l, 8)


# ---- R08.1: allOf parents ------------------------------------------------------------------------------------------------------

def _param_index(g: FuncInfo, c: ast.Call, names: set[str]) -> list[str]:
    """parameters of g that receive one of the caller's `names` in call c"""
    a = g.node.args
    pos = [x.arg for x in [*a.posonlyargs, *a.args]]
    if g.cls is not None and g.kind in ("method", "classmethod") and pos:
        pos = pos[1:]
    out = []
    for i, v in enumerate(c.args):
        if isinstance(v, ast.Name) and v.id in names and i < len(pos):
            out.append(pos[i])
    for k in c.keywords:
        if k.arg and isinstance(k.value, ast.Name) and k.value.id in names:
            out.append(k.arg)
    return out


def _parses_ref_of(fn: ast.AST, names: set[str]) -> list[ast.Call]:
    """calls parse_reference_path(<x>.ref) in fn where x is one of `names` (directly or through locals bound from it)"""
    out = []
    for c in ast.walk(fn):
        if isinstance(c, ast.Call) and call_name(c).rsplit(".", 1)[-1] == "parse_reference_path" and c.args:
            txt = resolved_text(c.args[0], fn)
            if any(f"{n}.ref" in txt for n in names):
                out.append(c)
    return out


def _allof_reference_recorded(rep: Report, ix: Any, pp: FuncInfo, cfgs: dict[str, CFG]) -> None:
    """In the loop over data.allOf: from the statement that reads a member's reference (parse_reference_path(<member>.ref), inline or in a
    private helper that receives the member), every way to the end of the iteration passes schemas.add_dependencies(ref_path=<what that
    statement produced>, roots=roots).  Error returns leave the function and are not ends of an iteration."""
    cfg = cfg_of(pp, cfgs)
    loops = [n for n in ast.walk(pp.node) if isinstance(n, ast.For) and "data.allOf" in resolved_text(n.iter, pp.node)]
    rep.require(loops, "loop over data.allOf in _process_properties")
    helpers = {g.name: g for g in region(ix, pp) if g is not pp}
    lc = Locals(pp.node)
    has_roots = "roots" in {p.arg for p in pp.params}
    ok_all = True
    n_reads = 0
    for lp in loops:
        members = names_in(lp.target)
        reads: list[ast.stmt] = []
        for st in cfg.stmts():
            if not any(x is st for x in ast.walk(lp)) or st is lp:
                continue
            own = [n for n in walk_own(st)]
            direct = any(c in own for c in _parses_ref_of(pp.node, members))
            via = False
            for c in own:
                if isinstance(c, ast.Call) and call_name(c).rsplit(".", 1)[-1] in helpers:
                    g = helpers[call_name(c).rsplit(".", 1)[-1]]
                    recv = set(_param_index(g, c, members))
                    via = via or bool(recv and _parses_ref_of(g.node, recv))
            if direct or via:
                reads.append(st)
        n_reads += len(reads)
        for rd in reads:
            produced = {t.id for t in ast.walk(rd) if isinstance(t, ast.Name) and isinstance(t.ctx, ast.Store)}
            # locals derived from what the reading statement produced (tuple unpacking of a helper's result, ...)
            for _ in range(3):
                for name, ds in lc.defs.items():
                    if name not in produced and any(v is not None and names_in(v) & produced for _, _, v in ds):
                        produced = produced | {name}

            def records(n: object) -> bool:
                if not isinstance(n, ast.stmt):
                    return False
                for c in stmt_calls(n, "add_dependencies"):
                    kws = {k.arg: k.value for k in c.keywords}
                    rp = kws.get("ref_path", c.args[0] if c.args else None)
                    rt = kws.get("roots", c.args[1] if len(c.args) > 1 else None)
                    if has_roots and isinstance(rt, ast.Name) and rt.id == "roots" and isinstance(rp, ast.Name) and rp.id in produced:
                        return True
                return False

            seen = cfg.reachable_from(rd, avoid=records)
            ends = [n for n in seen if n is lp or (isinstance(n, ast.Break) and enclosing_loop_body(pp.node, n) is lp)]
            ok_all = ok_all and not ends
    rep.check(ok_all and n_reads > 0, "R08.1", "_process_properties::allOf-reference-recorded",
              "an allOf parent is not recorded as a dependency of the child on every way through the iteration that resolved it",
              where(pp, loops[0]), lhs=f"reference reads={n_reads}", rhs="every iteration end passes add_dependencies(ref_path=<parsed member.ref>, roots=roots)")


# ---- R08.6: what may be recorded for removal ---------------------------------------------------------------------------------------

def _else_successors(cfg: CFG, n: ast.If) -> set[object]:
    return {s for s in cfg.succ.get(n, ()) if s is not n.body[0] and not isinstance(s, ast.ExceptHandler)}


def _rejects_registered_name(f: FuncInfo, cfg: CFG, elt: ast.expr) -> ast.If | None:
    """the test of f on `<elt> in <...>.classes_by_name` after which, where the name is already registered, every continuation is an
    error return (None: f does not reject a registered name)"""
    errs = error_names(f.node)
    want = norm(elt)
    for n in cfg.stmts():
        if not isinstance(n, ast.If):
            continue
        t = n.test
        neg = False
        while isinstance(t, ast.UnaryOp) and isinstance(t.op, ast.Not):
            t, neg = t.operand, not neg
        if not (isinstance(t, ast.Compare) and len(t.ops) == 1 and isinstance(t.ops[0], (ast.In, ast.NotIn)) and norm(t.left) == want
                and isinstance(t.comparators[0], ast.Attribute) and t.comparators[0].attr == "classes_by_name"):
            continue
        if isinstance(t.ops[0], ast.NotIn):
            neg = not neg
        starts = _else_successors(cfg, n) if neg else {n.body[0]}
        is_err = lambda x: isinstance(x, ast.Return) and returns_error(x, errs)  # noqa: E731
        if starts and all(is_err(s0) or EXIT not in cfg.reachable_from(s0, avoid=is_err) for s0 in starts):
            return n
    return None


def _exclusive_dependants(rep: Report, ix: Any, cfgs: dict[str, CFG]) -> None:
    n_sites = 0
    for f in ix.all_functions:
        if not f.module.name.startswith("openapi_python_client.parser") or f.name == "add_dependencies":
            continue
        params = {p.arg for p in f.params}
        lc = Locals(f.node)
        for c in ast.walk(f.node):
            if not (isinstance(c, ast.Call) and call_name(c).rsplit(".", 1)[-1] == "add_dependencies"):
                continue
            n_sites += 1
            kws = {k.arg: k.value for k in c.keywords}
            rt = kws.get("roots", c.args[1] if len(c.args) > 1 else None)
            key = f"{short(f)}::add_dependencies[{role_anon(rt, f.node) if rt is not None else ''}]"
            def forwarded(e: ast.AST | None) -> bool:  # the `roots` parameter itself (possibly defaulted: roots = roots or set())
                return isinstance(e, ast.Name) and e.id == "roots" and "roots" in params and \
                    all("roots" in names_in(v) for v in lc.values_of("roots"))

            if forwarded(rt):
                rep.ok("R08.6", key, "forwards the roots it received", "forwarded roots / exclusively owned class name")
                continue
            cfg = cfg_of(f, cfgs)
            sets = [rt] if isinstance(rt, ast.Set) else (lc.values_of(rt.id) if isinstance(rt, ast.Name) else [])
            elts = [e for s_ in sets if isinstance(s_, ast.Set) for e in s_.elts if not (isinstance(e, ast.Starred) and forwarded(e.value))]
            tests = [_rejects_registered_name(f, cfg, e) for e in elts]
            owned = bool(elts) and all(isinstance(s_, ast.Set) for s_ in sets) and all(t is not None for t in tests)
            at = stmt_of(f.node, c)
            if owned and at is not None and not all(cfg.is_dominated_by(at, lambda n, t=t: n is t) for t in tests):
                rep.observe(f"{short(f)}: the class name is recorded for removal before the function has checked that the name is not "
                            "already registered; when the check then fails, a later removal of the root pops the other class of that name")
            rep.check(owned, "R08.6", key,
                      "something is recorded for removal together with a schema although the recording function does not own it exclusively "
                      "(no rejection of an already registered class of that name): the removal cascade pops a class that other schemas "
                      "share, and what remains refers to a module that is not generated", where(f, c),
                      lhs=norm(rt) if rt is not None else None, rhs="roots (forwarded) or {<name rejected when already in classes_by_name>}")
    rep.floor("dependency_recording_sites", n_sites, 1)


# ---- R08.7: validation of the document models -----------------------------------------------------------------------------------------

VALIDATION_HOOKS = {"field_validator", "model_validator", "validator", "root_validator"}
VALIDATION_METHODS = {"__init__", "model_post_init", "__post_init__"}


def _piece_validators_do_not_raise(rep: Report, ix: Any) -> None:
    fd = ix.func("GeneratorData.from_dict")
    root_cls = None
    all_or_nothing = False
    for g in region(ix, fd):
        for t in ast.walk(g.node):
            if not isinstance(t, ast.Try):
                continue
            for c in [c for b in t.body for c in ast.walk(b)]:
                if isinstance(c, ast.Call) and call_name(c).rsplit(".", 1)[-1] in ("model_validate", "parse_obj") and "." in call_name(c):
                    root_cls = call_name(c).split(".")[-2]
                    all_or_nothing = any(isinstance(r, ast.Return) and constructs_error(r.value) or
                                         isinstance(r, ast.Raise) for h in t.handlers for r in ast.walk(h))
    rep.require(root_cls, "the validation of the whole document (<Model>.model_validate inside try) in GeneratorData.from_dict")
    if not all_or_nothing:
        rep.ok("R08.7", "GeneratorData.from_dict::validation", "a validation error is not turned into a failure of the run", "n/a")
        return
    models = [k for k in ix.classes.values() if k.module.name.startswith("openapi_python_client.schema")]
    repo_names = {k.name for k in models}
    n_hooks = 0
    for k in sorted(models, key=lambda k_: k_.qual):
        for m in k.methods.values():
            hooks = [d for d in m.node.decorator_list if (call_name(d) if isinstance(d, ast.Call) else norm(d)).rsplit(".", 1)[-1] in VALIDATION_HOOKS]
            if not hooks and m.name not in VALIDATION_METHODS:
                continue
            n_hooks += 1
            raising = [(g, n) for g in region(ix, m) for n in ast.walk(g.node) if isinstance(n, (ast.Raise, ast.Assert))]
            # the root model may reject the document as a whole on account of fields that hold no pieces (plain values)
            fields = [a.value for d in hooks if isinstance(d, ast.Call) for a in d.args if isinstance(a, ast.Constant) and isinstance(a.value, str)]
            plain = k.name == root_cls and bool(fields) and all(
                fld in k.fields and k.fields[fld] is not None and not (names_in(k.fields[fld]) & repo_names) for fld in fields)
            rep.check(not raising or plain, "R08.7", f"{k.name}.{m.name}::validator-raises",
                      "a validator of a piece-level document model raises: the document is validated in one step, so one such piece makes "
                      "the whole generation fail instead of being omitted with a diagnostic", where(m, raising[0][1] if raising else m.node),
                      lhs=[norm(n)[:60] for _, n in raising], rhs="no raise (the parser reports the piece and goes on)")
    rep.floor("document_model_validation_hooks", n_hooks, 1)


# ---- R08.8: built => handed on -----------------------------------------------------------------------------------------------------

NON_RETAINING = set(dir(builtins)) | {"cast"}
# calls whose result is (a collection of) the very object(s) they were given
CONVERSIONS = {"cast", "list", "tuple", "set", "frozenset", "sorted", "reversed", "iter", "copy", "deepcopy"}


def _is_error_ctor(c: ast.Call) -> bool:
    return call_name(c).rsplit(".", 1)[-1] in (ERROR_CLASSES | ERROR_ONLY_HELPERS)


def _root_name(e: ast.AST) -> str | None:
    while isinstance(e, (ast.Attribute, ast.Subscript, ast.Call)):
        e = e.func if isinstance(e, ast.Call) else e.value
    return e.id if isinstance(e, ast.Name) else None


def _annotation(e: ast.AST | None) -> ast.AST | None:
    """an annotation with string forms ("Endpoint") parsed"""
    if isinstance(e, ast.Constant) and isinstance(e.value, str):
        try:
            return ast.parse(e.value, mode="eval").body
        except SyntaxError:
            return None
    return e


def _union_members(e: ast.AST | None) -> list[ast.AST]:
    """the alternatives of a type annotation: A | B, Union[A, B], Optional[A]; anything else is its own single alternative"""
    e = _annotation(e)
    if e is None:
        return []
    if isinstance(e, ast.BinOp) and isinstance(e.op, ast.BitOr):
        return _union_members(e.left) + _union_members(e.right)
    if isinstance(e, ast.Subscript) and (dotted(e.value) or "").rsplit(".", 1)[-1] in ("Union", "Optional"):
        return [m for x in (e.slice.elts if isinstance(e.slice, ast.Tuple) else [e.slice]) for m in _union_members(x)]
    return [e]


def _type_names(e: ast.AST | None) -> set[str]:
    """class names of the alternatives of an annotation (list[X] is `list`, not X)"""
    out = set()
    for m in _union_members(e):
        m = m.value if isinstance(m, ast.Subscript) else m
        out.add((dotted(m) or "").rsplit(".", 1)[-1])
    return out


def _callee(ix: Any, f: FuncInfo, c: ast.Call) -> FuncInfo | None:
    cn = call_name(c)
    head, _, last = cn.rpartition(".")
    if head in ("self", "cls") and f.cls is not None:
        return ix.find_method(f.cls, last)
    r = ix.resolve(f.module, cn)
    if r is not None and r[0] == "func":
        return r[1]
    hits = [h for h in ix.all_functions if h.name == last and (not head or (h.cls is not None and h.cls.name == head.rsplit(".", 1)[-1]))]
    return hits[0] if len(hits) == 1 else None


def _fallible_products(ix: Any, f: FuncInfo, st: ast.Assign, errs: set[str]) -> list[str]:
    """Which targets of `a, b, c = step(..., schemas=...)` are products that may be an error.  The roles come from what the step is
    declared to return - tuple[<product or error>, Schemas, ...]: an element typed as the threaded state is the state, an element whose
    type admits one of the error classes is a fallible product, anything else (a count, a list of records) is neither - and not from
    the position of the element.  A step without a usable declaration: the targets this function itself narrows with
    isinstance(<target>, <error class>), the threaded state being what it passed in."""
    elts = st.targets[0].elts
    call = st.value
    g = _callee(ix, f, call)
    ann = _annotation(g.node.returns) if g is not None else None
    if isinstance(ann, ast.Subscript) and (dotted(ann.value) or "").rsplit(".", 1)[-1] in ("tuple", "Tuple"):
        parts = list(ann.slice.elts) if isinstance(ann.slice, ast.Tuple) else [ann.slice]
        if len(parts) == len(elts) and not any(isinstance(p_, ast.Constant) and p_.value is Ellipsis for p_ in parts):
            out = []
            for t, p_ in zip(elts, parts):
                kinds = _type_names(p_)
                if isinstance(t, ast.Name) and not (kinds & STATE_CLASSES) and kinds & ERROR_CLASSES:
                    out.append(t.id)
            return out
    passed = {k.value.id for k in call.keywords if k.arg in THREADED and isinstance(k.value, ast.Name)} | set(THREADED)
    return [t.id for t in elts if isinstance(t, ast.Name) and t.id not in passed and t.id in errs]


def _is_predicate(e: ast.AST) -> bool:
    """an expression whose value is a fact about its operands, not (a part of) them"""
    if isinstance(e, (ast.Compare, ast.Constant)) or (isinstance(e, ast.UnaryOp) and isinstance(e.op, ast.Not)):
        return True
    if isinstance(e, ast.BoolOp):
        return all(_is_predicate(v) for v in e.values)
    if isinstance(e, ast.Call):
        last = call_name(e).rsplit(".", 1)[-1]
        return last in NON_RETAINING and last not in CONVERSIONS
    return False


def _hands_on(st: object, al: frozenset[str] | set[str], parts: frozenset[str] | set[str] = frozenset(), carries: Any = None) -> bool:
    """the statement passes the product (held by the locals `al`; `parts` hold something computed from it) to something that outlives
    the iteration: as (part of) an argument of a call that is neither a builtin predicate/conversion, nor an error constructor, nor a
    method of the product itself; stored into a container or attribute; yielded; or a nested loop that does so for each of a
    collection (for each of the products, when the loop runs over a collection that holds them)"""
    if not isinstance(st, ast.stmt):
        return False
    m = set(al) | set(parts)
    if isinstance(st, (ast.For, ast.AsyncFor)):
        inner = set(al) | (names_in(st.target) if carries is not None and carries(st.iter, al) else set())
        if any(_hands_on(x, inner, parts, carries) for b in st.body for x in ast.walk(b) if isinstance(x, ast.stmt)):
            return True
    for n in walk_own(st):
        if isinstance(n, ast.Call) and call_name(n).rsplit(".", 1)[-1] not in NON_RETAINING and not _is_error_ctor(n) and \
                _root_name(n.func) not in al:
            if any(names_in(a) & m for a in [*n.args, *[k.value for k in n.keywords]]):
                return True
        if isinstance(n, (ast.Yield, ast.YieldFrom)) and names_in(n.value) & m:
            return True
    if isinstance(st, (ast.Assign, ast.AugAssign, ast.AnnAssign)) and st.value is not None and names_in(st.value) & m:
        tgts = st.targets if isinstance(st, ast.Assign) else [st.target]
        if any(isinstance(t, (ast.Subscript, ast.Attribute)) and _root_name(t) not in m for t in tgts):
            return True
    return False


class _Product:
    """One assumption about the product of a step (`it is an error` / `it is a value`): decides tests on it, and follows it through the
    locals that come to hold it."""

    def __init__(self, lc: Locals, assume: bool) -> None:
        self.lc = lc
        self.assume = assume

    def test(self, e: ast.expr, al: set[str] | frozenset[str], depth: int = 0) -> bool | None:
        """three-valued value of a test under the assumption; a local that holds the outcome of such a test (ok = isinstance(x, E)) is
        the test"""
        if isinstance(e, ast.BoolOp):
            vals = [self.test(v, al, depth) for v in e.values]
            if isinstance(e.op, ast.And):
                return False if any(v is False for v in vals) else (True if all(v is True for v in vals) else None)
            return True if any(v is True for v in vals) else (False if all(v is False for v in vals) else None)
        if isinstance(e, ast.UnaryOp) and isinstance(e.op, ast.Not):
            v = self.test(e.operand, al, depth)
            return None if v is None else not v
        if isinstance(e, ast.NamedExpr):
            return self.test(e.value, al, depth)
        if isinstance(e, ast.Name) and e.id not in al and depth < 3:
            ds = self.lc.defs.get(e.id, [])
            if len(ds) == 1 and ds[0][0] == "assign" and isinstance(ds[0][2], ast.expr):
                return self.test(ds[0][2], al, depth + 1)
            return None
        if isinstance(e, ast.Call) and call_name(e) == "isinstance" and len(e.args) == 2 and isinstance(e.args[0], ast.Name) and e.args[0].id in al:
            kinds = e.args[1].elts if isinstance(e.args[1], ast.Tuple) else [e.args[1]]
            is_err = [norm(k_).rsplit(".", 1)[-1] in ERROR_CLASSES for k_ in kinds]
            if all(is_err):
                return self.assume
            if self.assume and not any(is_err):
                return False  # an error value is not an instance of a property / model class
        return None

    def carries(self, e: ast.AST | None, al: set[str] | frozenset[str]) -> bool:
        """the value of e is the product, or a collection / conversion / conditional choice that holds it (also: an error built from it)"""
        if e is None:
            return False
        if isinstance(e, ast.Name):
            return e.id in al
        if isinstance(e, (ast.List, ast.Tuple, ast.Set)):
            return any(self.carries(x, al) for x in e.elts)
        if isinstance(e, ast.Dict):
            return any(self.carries(x, al) for x in e.values)
        if isinstance(e, (ast.Starred, ast.Await, ast.NamedExpr)):
            return self.carries(e.value, al)
        if isinstance(e, ast.IfExp):
            v = self.test(e.test, al)
            return any(self.carries(x, al) for x in ([e.body] if v is True else [e.orelse] if v is False else [e.body, e.orelse]))
        if isinstance(e, ast.BoolOp):
            return any(self.carries(x, al) for x in e.values)
        if isinstance(e, ast.BinOp) and isinstance(e.op, (ast.Add, ast.BitOr)):
            return self.carries(e.left, al) or self.carries(e.right, al)
        if isinstance(e, (ast.ListComp, ast.SetComp, ast.GeneratorExp)):
            inner = set(al)
            for gen in e.generators:
                if self.carries(gen.iter, inner):
                    inner |= names_in(gen.target)
            return self.carries(e.elt, inner)
        if isinstance(e, ast.Call):
            args = [*e.args, *[k.value for k in e.keywords]]
            if call_name(e).rsplit(".", 1)[-1] in CONVERSIONS:
                return any(self.carries(a, al) for a in args)
            if _is_error_ctor(e):
                return any(names_in(a) & al for a in args)
            if isinstance(e.func, ast.Attribute) and _root_name(e.func) in al:
                return True  # x = x.with_something(...): what a method of the product returns stands for the product
        return False

    def after(self, st: object, al: frozenset[str], parts: frozenset[str]) -> tuple[frozenset[str], frozenset[str]]:
        """(the locals that hold the product, the locals that hold something computed from it) once `st` has run"""
        hold, part = set(al), set(parts)

        def bind(name: str, v: ast.AST | None, keep: bool = False) -> None:
            if self.carries(v, al):
                hold.add(name)
                part.discard(name)
            elif v is not None and names_in(v) & (al | parts) and not _is_predicate(v):
                part.add(name)
                if not keep:
                    hold.discard(name)
            elif not keep:
                hold.discard(name)
                part.discard(name)

        if isinstance(st, (ast.For, ast.AsyncFor)):
            for x in names_in(st.target):
                if self.carries(st.iter, al):
                    hold.add(x)
                else:
                    hold.discard(x)
                part.discard(x)
            return frozenset(hold), frozenset(part)
        if not isinstance(st, ast.stmt):
            return al, parts
        for n in walk_own(st):
            if isinstance(n, ast.NamedExpr) and isinstance(n.target, ast.Name):
                bind(n.target.id, n.value)
        if isinstance(st, ast.AugAssign) and isinstance(st.target, ast.Name):
            bind(st.target.id, st.value, keep=True)
        if isinstance(st, (ast.Assign, ast.AnnAssign)) and st.value is not None:
            for t in (st.targets if isinstance(st, ast.Assign) else [st.target]):
                if isinstance(t, ast.Name):
                    bind(t.id, st.value)
                elif isinstance(t, (ast.Tuple, ast.List)):
                    vs = st.value.elts if isinstance(st.value, (ast.Tuple, ast.List)) and len(st.value.elts) == len(t.elts) else None
                    for i, x in enumerate(t.elts):
                        if isinstance(x, ast.Name):
                            bind(x.id, vs[i] if vs is not None else st.value)
        gone: set[str] = set()
        if isinstance(st, (ast.With, ast.AsyncWith)):
            gone = set().union(*[names_in(item.optional_vars) for item in st.items])
        if isinstance(st, ast.Delete):
            gone = {t.id for t in st.targets if isinstance(t, ast.Name)}
        return frozenset(hold - gone), frozenset(part - gone)


def _products_not_dropped(rep: Report, ix: Any, cfgs: dict[str, CFG]) -> None:
    n_p = 0
    for f in ix.all_functions:
        if not f.module.name.startswith("openapi_python_client.parser"):
            continue
        steps = [st for st in ast.walk(f.node) if isinstance(st, ast.Assign) and isinstance(st.value, ast.Call)
                 and {k.arg for k in st.value.keywords} & set(THREADED) and len(st.targets) == 1 and isinstance(st.targets[0], ast.Tuple)
                 and len(st.targets[0].elts) >= 2]
        if not steps:
            continue
        cfg = cfg_of(f, cfgs)
        lc = Locals(f.node)
        errs = error_names(f.node)
        for st in steps:
            lp = enclosing_loop_body(f.node, st)
            if lp is None or st not in cfg.succ:
                continue
            for prod in _fallible_products(ix, f, st, errs):
                n_p += 1
                dropped: list[str] = []
                for assume in (True, False):
                    pr = _Product(lc, assume)
                    none: frozenset[str] = frozenset()
                    seen: set[tuple[int, frozenset[str], frozenset[str]]] = {(id(st), frozenset({prod}), none)}
                    stack: list[tuple[object, frozenset[str], frozenset[str]]] = [(st, frozenset({prod}), none)]
                    while stack:
                        n, al, parts = stack.pop()
                        nxt = set(cfg.succ.get(n, ()))
                        if isinstance(n, ast.If) and n is not st:
                            v = pr.test(n.test, al)
                            if v is True:
                                nxt = {n.body[0]}
                            elif v is False:
                                nxt = _else_successors(cfg, n)
                        what = "error" if assume else "value"
                        for s_ in nxt:
                            if s_ is lp or (isinstance(s_, ast.Break) and enclosing_loop_body(f.node, s_) is lp):
                                dropped.append(f"{what} dropped after `{norm(n)[:50]}`" if isinstance(n, ast.AST) else "dropped")
                                continue
                            if s_ is EXIT or _hands_on(s_, al, parts, pr.carries):
                                continue
                            al2, parts2 = pr.after(s_, al, parts)
                            if not al2:  # nothing holds it any more, and it was not handed on
                                dropped.append(f"{what} overwritten by `{norm(s_)[:50]}`" if isinstance(s_, ast.AST) else "overwritten")
                                continue
                            if (id(s_), al2, parts2) not in seen:
                                seen.add((id(s_), al2, parts2))
                                stack.append((s_, al2, parts2))
                rep.check(not dropped, "R08.8", f"{short(f)}::{call_name(st.value).rsplit('.', 1)[-1]}-product-handed-on[{role_anon(getattr(lp, 'iter', getattr(lp, 'test', None)), f.node)[:40]}]",
                          "an item is built (a step that can fail its container and registers classes in the threaded state) and then dropped "
                          "without its product or error being handed on: a piece that does not contribute can damage what does not depend on it",
                          where(f, st), lhs=sorted(set(dropped))[:4], rhs="every end of the iteration after the build hands the product on")
    rep.floor("build_steps_in_item_loops", n_p, 3)
