"""C08 - a bad piece of the document never damages unrelated output (containment mechanisms)."""
from __future__ import annotations

import ast
from typing import Any

from ..astutil import Locals, call_name, cfg_of, constructs_error, error_names, norm, returns_error, short, stmt_calls, where
from ..cfg import CFG, ENTRY, EXIT
from ..core import Report

LEVEL = ("containment mechanisms only (byte equality of two trees is a relation between runs and is not decided): dependency "
         "recording on every successful path and roots forwarded to every recursive build; removal closed over recorded "
         "dependants; the threaded Schemas/Parameters state is only rebound from the result of a step that received it (no stale "
         "snapshot); an item's failure continues the loop, never ends it; the registry does not alias the caller's roots set.")

CONTAIN_LOOPS = {
    "parser.openapi.EndpointCollection.from_data", "parser.openapi.Endpoint._add_responses", "parser.bodies.body_from_data",
    "parser.properties._create_schemas", "parser.properties._process_models", "parser.properties.build_parameters",
    "parser.properties._propogate_removal", "parser.properties._process_model_errors",
}
THREADED = ("schemas", "parameters")


def run(rep: Report, ctx: Any) -> str:
    ix = ctx.py
    cfgs: dict[str, CFG] = {}
    rep.rule("R08.1", "dependency recording is unconditional: every successful return of a function that resolves a schema reference "
                      "passes through add_dependencies; `roots` is forwarded to every recursive property_from_data call")
    rep.rule("R08.2", "removal is closed: _propogate_removal deletes the reference and recurses over recorded dependants; "
                      "_process_model_errors applies it to every root of every failed model")
    rep.rule("R08.3", "the threaded state (schemas / parameters) is rebound only from results of steps that received it: a failure "
                      "hands back the caller's state, never a stale snapshot")
    rep.rule("R08.4", "loop containment: inside the per-item loops no `return` / `break` ends the traversal because of one item")
    rep.rule("R08.5", "Schemas.add_dependencies stores a fresh set and only copies the caller's roots into it")

    # ---- R08.1 -----------------------------------------------------------------------------------------------------
    pfr = ix.func("properties._property_from_ref")
    cfg = cfg_of(pfr, cfgs)
    errs = error_names(pfr.node)
    dep = [s for s in cfg.stmts() if stmt_calls(s, "add_dependencies")]
    ok_all = bool(dep)
    for s in cfg.stmts():
        if isinstance(s, ast.Return) and not returns_error(s, errs):
            ok = cfg.is_dominated_by(s, lambda n: n in dep)
            ok_all = ok_all and ok
            rep.check(ok, "R08.1", "_property_from_ref::success-records-dependency",
                      "a property built from a reference is returned without recording the dependency (its model survives the removal "
                      "of the referenced schema)", where(pfr, s), lhs=norm(s)[:60], rhs="dominated by schemas.add_dependencies")
    for d in dep:
        for c in ast.walk(d):
            if isinstance(c, ast.Call) and call_name(c).endswith("add_dependencies"):
                kws = {k.arg: norm(k.value) for k in c.keywords}
                refs = set(Locals(pfr.node).bound_from(lambda v: v == "parse_reference_path(data.ref)", "assign"))
                rep.check(kws.get("roots") == "roots" and kws.get("ref_path") in refs, "R08.1", "_property_from_ref::records-own-roots",
                          "the dependency is recorded for something else than (ref_path, roots)", where(pfr, c), lhs=kws,
                          rhs="ref_path=<parse_reference_path(data.ref)>, roots=roots")
    pp = ix.func("model_property._process_properties")
    from .c15 import allof_branch

    loop_, branch_ = allof_branch(rep, pp)
    member = norm(loop_.target)
    refs2 = set(Locals(pp.node).bound_from(lambda v: v == f"parse_reference_path({member}.ref)", "assign"))
    rec = [c for s_ in branch_.body for c in ast.walk(s_) if isinstance(c, ast.Call) and call_name(c).endswith("schemas.add_dependencies")
           and {k.arg: norm(k.value) for k in c.keywords}.get("roots") == "roots" and {k.arg: norm(k.value) for k in c.keywords}.get("ref_path") in refs2]
    rep.check(bool(rec), "R08.1", "_process_properties::allOf-reference-recorded",
              "an allOf parent is not recorded as a dependency of the child", where(pp, pp.node))
    n_calls = 0
    for f in ix.all_functions:
        params = {p.arg for p in f.params}
        for c in ast.walk(f.node):
            if isinstance(c, ast.Call) and call_name(c).rsplit(".", 1)[-1] == "property_from_data":
                kws = {k.arg: norm(k.value) for k in c.keywords}
                if "roots" in params or "roots" in {n.id for n in ast.walk(f.node) if isinstance(n, ast.Name)}:
                    n_calls += 1
                    # `roots` itself, or a local built from it (e.g. {*roots, class_info.name})
                    lc_ = Locals(f.node)
                    rv_ = kws.get("roots") or ""
                    grown = bool(lc_.values_of(rv_)) and all("roots" in {x.id for x in ast.walk(v_) if isinstance(x, ast.Name)} for v_ in lc_.values_of(rv_))
                    rep.check(rv_ == "roots" or grown, "R08.1", f"{short(f)}::forwards-roots",
                              "a nested schema is built without the roots of the enclosing schema: its references are not tied to the "
                              "enclosing model", where(f, c), lhs=kws.get("roots"), rhs="roots=roots")
                elif f.cls is not None and f.name == "build" and f.cls.name in ("UnionProperty", "ListProperty", "ModelProperty"):
                    n_calls += 1
                    rep.fail("R08.1", f"{short(f)}::forwards-roots",
                             f"{f.cls.name}.build builds its member schemas through property_from_data without `roots`: a model whose union "
                             "member refers to a schema that is later removed keeps importing the removed module", where(f, c),
                             lhs="no roots parameter", rhs="roots forwarded from property_from_data")
    rep.floor("recursive_build_calls", n_calls, 4)
    pfd = ix.func("properties.property_from_data")
    for c in ast.walk(pfd.node):
        if isinstance(c, ast.Call) and call_name(c).endswith(".build"):
            callee_cls = call_name(c).split(".")[0]
            cinfo = next((k for k in ix.classes.values() if k.name == callee_cls), None)
            b = cinfo.methods.get("build") if cinfo else None
            if b is not None and "roots" in {p.arg for p in b.params}:
                kws = {k.arg: norm(k.value) for k in c.keywords}
                rep.check(kws.get("roots") == "roots", "R08.1", f"property_from_data::{callee_cls}.build-roots", "roots not passed to the builder",
                          where(pfd, c), lhs=kws.get("roots"), rhs="roots")

    # ---- R08.2 ------------------------------------------------------------------------------------------------------------
    pr = ix.func("properties._propogate_removal")
    t = norm(pr.node)
    deletes_ref = any(isinstance(n, ast.Delete) and "classes_by_reference" in norm(n) for n in ast.walk(pr.node)) or \
        "classes_by_reference.pop(" in t
    visits_deps = any(isinstance(n, (ast.For, ast.ListComp, ast.GeneratorExp)) and "dependencies" in norm(getattr(n, "iter", n)) for n in ast.walk(pr.node)) \
        or ".extend(schemas.dependencies" in t or ".extend(sorted(schemas.dependencies" in t
    pops_class = "classes_by_name.pop(" in t or any(isinstance(n, ast.Delete) and "classes_by_name" in norm(n) for n in ast.walk(pr.node))
    rep.check(deletes_ref and visits_deps and pops_class, "R08.2", "_propogate_removal::closed",
              "removal no longer deletes the reference, pops class names and visits the recorded dependants", where(pr, pr.node),
              lhs=[deletes_ref, visits_deps, pops_class], rhs="delete reference, visit dependants, pop class names")
    pme = ix.func("properties._process_model_errors")
    t = norm(pme.node)
    loops_ = [n for n in ast.walk(pme.node) if isinstance(n, ast.For)]
    outer = [n for n in loops_ if norm(n.iter) == "model_errors"]
    inner = [n for n in loops_ if norm(n.iter).endswith(".roots")]
    rep.check(bool(outer) and bool(inner) and any(x is inner[0] for x in ast.walk(outer[0])) and "_propogate_removal(root=" in t, "R08.2",
              "_process_model_errors::every-root", "removal is not applied to every root of every failed model", where(pme, pme.node))

    # ---- R08.3 --------------------------------------------------------------------------------------------------------------
    n_thr = 0
    for f in ix.all_functions:
        if not f.module.name.startswith("openapi_python_client.parser"):
            continue
        pnames = {p_.arg for p_ in f.params}
        state_vars = {v_ for v_ in THREADED if v_ in pnames} | set(Locals(f.node).bound_from(
            lambda t_: t_.startswith(("Schemas(", "Parameters(")), "assign"))
        for var in sorted(state_vars):
            assigns = []
            for n in ast.walk(f.node):
                if isinstance(n, ast.Assign):
                    for tg in n.targets:
                        names = [tg] if isinstance(tg, ast.Name) else (list(tg.elts) if isinstance(tg, ast.Tuple) else [])
                        if any(isinstance(x, ast.Name) and x.id == var for x in names):
                            assigns.append(n)
            if not assigns:
                continue
            # names that hold results of steps which received the state
            derived = {var}
            changed = True
            while changed:
                changed = False
                for n in ast.walk(f.node):
                    if isinstance(n, (ast.Assign, ast.AnnAssign)) and n.value is not None:
                        tgts = n.targets if isinstance(n, ast.Assign) else [n.target]
                        if _takes(n.value, derived):
                            for tg in tgts:
                                for x in ([tg] if isinstance(tg, ast.Name) else (list(tg.elts) if isinstance(tg, ast.Tuple) else [])):
                                    if isinstance(x, ast.Name) and x.id not in derived:
                                        derived.add(x.id)
                                        changed = True
            for a in assigns:
                n_thr += 1
                v = a.value
                ok = _takes(v, derived) or (isinstance(v, ast.Call) and call_name(v).rsplit(".", 1)[-1] in ("Schemas", "Parameters")) or \
                    (isinstance(v, ast.Name) and v.id in derived and _result_name(f.node, v.id, var)) or \
                    (isinstance(v, ast.Attribute) and isinstance(v.value, ast.Name) and v.value.id in derived)
                rep.check(ok, "R08.3", f"{short(f)}::{var} = {norm(v)[:40]}",
                          f"`{var}` is rebound from something that is not the result of a step which received it (a stale snapshot discards "
                          "the classes registered by earlier, valid items)", where(f, a), lhs=norm(a)[:80], rhs="result of f(..., " + var + "=...) / evolve")
    rep.floor("threaded_state_assignments", n_thr, 30)
    # error returns hand back the input state
    n_ret = 0
    for f in ix.all_functions:
        ann = norm(f.node.returns) if f.node.returns is not None else ""
        if "tuple[" not in ann or "Schemas" not in ann:
            continue
        errs = error_names(f.node)
        for r in ast.walk(f.node):
            if isinstance(r, ast.Return) and isinstance(r.value, ast.Tuple) and len(r.value.elts) >= 2 and returns_error(r, errs):
                n_ret += 1
                s2 = r.value.elts[1]
                rep.check(isinstance(s2, ast.Name) and s2.id in ("schemas",), "R08.3", f"{short(f)}::error-return-state[{norm(r.value.elts[0])[:30]}]",
                          "an error is returned together with something other than the threaded `schemas` variable", where(f, r),
                          lhs=norm(s2), rhs="schemas")
    rep.floor("error_returns_with_state", n_ret, 20)

    # ---- R08.4 ----------------------------------------------------------------------------------------------------------------
    n_l = 0
    for f in ix.all_functions:
        if short(f) not in CONTAIN_LOOPS:
            continue
        for lp in [n for n in ast.walk(f.node) if isinstance(n, (ast.For, ast.While))]:
            n_l += 1
            for st in ast.walk(lp):
                if isinstance(st, (ast.Return, ast.Break)) and st is not lp:
                    # returns inside nested function definitions do not count
                    if any(isinstance(g, (ast.FunctionDef, ast.Lambda)) and any(x is st for x in ast.walk(g)) for g in ast.walk(lp)):
                        continue
                    rep.fail("R08.4", f"{short(f)}::{type(st).__name__.lower()}-inside-loop[{norm(getattr(lp, 'iter', getattr(lp, 'test', None)))[:40]}]",
                             "one item ends the traversal of all remaining items (`return`/`break` inside the per-item loop)", where(f, st),
                             lhs=norm(st)[:60], rhs="continue / re-queue")
            rep.ok("R08.4", f"{short(f)}::loop[{norm(getattr(lp, 'iter', getattr(lp, 'test', None)))[:40]}]", "no return/break", "per-item containment")
    rep.floor("containment_loops", n_l, 12)

    check_no_alias(rep, ctx, "R08.5")
    rep.not_decided += ["byte equality of the output trees with and without the bad piece"]
    return LEVEL


def check_no_alias(rep: Report, ctx: Any, rid: str) -> None:
    """Schemas.add_dependencies stores a fresh set and only copies the caller's roots into it (shared by C08 / C20)"""
    ix = ctx.py
    ad = ix.func("Schemas.add_dependencies")
    uses = [n for n in ast.walk(ad.node) if isinstance(n, ast.Name) and n.id == "roots" and isinstance(n.ctx, ast.Load)]
    bad = []
    for u in uses:
        par = _parent_call(ad.node, u)
        if par is None or not (isinstance(par.func, ast.Attribute) and par.func.attr in ("update", "union") and u in par.args):
            bad.append(norm(par)[:70] if par is not None else "bare use")
    rep.check(bool(uses) and not bad, rid, "Schemas.add_dependencies::no-alias",
              f"the caller's `roots` set is stored in the registry itself ({bad}): later additions for other dependants land in the first "
              "dependant's roots, and its failure removes unrelated schemas", where(ad, ad.node), lhs=bad, rhs="only `.update(roots)` into a fresh set()")
    fresh = any(isinstance(c, ast.Call) and call_name(c).endswith("setdefault") and len(c.args) == 2 and norm(c.args[1]) == "set()" for c in ast.walk(ad.node))
    rep.check(fresh, rid, "Schemas.add_dependencies::fresh-set", "the registry entry is not created as a fresh set()", where(ad, ad.node))


def _takes(v: ast.expr, names: set[str]) -> bool:
    """v is a call (or a tuple/await of it) that receives one of `names` as an argument, or evolve(<name>, ...)"""
    if isinstance(v, ast.Call):
        args = [a for a in v.args] + [k.value for k in v.keywords]
        for a in args:
            if isinstance(a, ast.Name) and a.id in names:
                return True
            if isinstance(a, ast.Attribute) and isinstance(a.value, ast.Name) and a.value.id in names:
                return True
        return False
    return False


def _result_name(fn: ast.AST, name: str, var: str) -> bool:
    """`name` is bound (only) from results of calls taking the state, e.g. schemas_or_err / new_schemas"""
    if name == var:
        return True
    defs = [n for n in ast.walk(fn) if isinstance(n, ast.Assign) and any(
        (isinstance(t, ast.Name) and t.id == name) or (isinstance(t, ast.Tuple) and any(isinstance(x, ast.Name) and x.id == name for x in t.elts))
        for t in n.targets)]
    return bool(defs) and all(isinstance(d.value, ast.Call) for d in defs)


def _parent_call(fn: ast.AST, node: ast.AST) -> ast.Call | None:
    best = None
    for c in ast.walk(fn):
        if isinstance(c, ast.Call) and any(x is node for x in ast.walk(c)) and c is not node:
            best = c
    return best
