"""Lazy container of the engines for one analysed tree."""
from __future__ import annotations

import time
from functools import cached_property
from pathlib import Path

from .core import AnalysisError, PKG


class Ctx:
    def __init__(self, root: Path):
        self.root = Path(root)
        self.timings: dict[str, float] = {}

    @cached_property
    def py(self):
        from .pyindex import PyIndex

        t = time.time()
        ix = PyIndex(self.root)
        self.timings["pyindex"] = time.time() - t
        from .astutil import register_error_helpers

        register_error_helpers(ix.all_functions)
        return ix

    @cached_property
    def tables(self):
        from .charclass import Tables

        t = time.time()
        tb = Tables()
        self.timings["tables"] = time.time() - t
        return tb

    @cached_property
    def chars(self):
        from .charclass import CharInterp

        return CharInterp(self.py, self.tables)

    @cached_property
    def jinja(self):
        from .jinja_interp import JinjaIndex

        return JinjaIndex(self.py)

    @cached_property
    def flow(self):
        """(python interpreter, template interpreter) at their joint fixpoint."""
        from .absint import Interp
        from .jinja_interp import JinjaInterp
        from .domain import WORD

        t = time.time()
        it = Interp(self.py)
        # E6 establishes which helpers are sanitisers (their result alphabet contains nothing that can break a context)
        danger = 0
        for ch in "\"'\\\n\r{}#`$/\x00":
            danger |= 1 << ord(ch)
        self.sanitizer_charsets: dict[str, int] = {}
        for fn in ("sanitize", "snake_case", "pascal_case", "kebab_case"):
            q = f"{PKG}.utils.{fn}"
            f = it.func_by_qual.get(q)
            if f is None:
                continue
            try:
                out, _ = self.chars.run_function(f, {"value": self.chars.TOP})
            except AnalysisError:
                continue
            from .charclass import S

            if isinstance(out, S) and not (out.any & danger):
                it.sanitizers[q] = WORD
                self.sanitizer_charsets[q] = out.any
        it.run(24)
        ji = JinjaInterp(self.jinja, it)
        outer = 0
        while True:
            outer += 1
            jr = ji.run()
            before = (dict(it.params), dict(it.fields), dict(it.rets))
            it.changed = False
            it.run(24)
            if (dict(it.params), dict(it.fields), dict(it.rets)) == before:
                break
            ji._collect_bridge()
            if outer > 6:
                raise AnalysisError("python/template joint fixpoint not reached")
        self.timings["flow"] = time.time() - t
        self.flow_rounds = (it.rounds, outer)
        return it, ji
