"""Lazy container of the engines for one analysed tree."""
from __future__ import annotations

from functools import cached_property
from pathlib import Path


class Ctx:
    def __init__(self, root: Path):
        self.root = Path(root)

    @cached_property
    def py(self):
        from .pyindex import PyIndex

        return PyIndex(self.root)
