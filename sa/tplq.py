"""Queries over Jinja ASTs used by the sibling / guard rules."""
from __future__ import annotations

import itertools
from dataclasses import dataclass
from typing import Any, Iterator

from jinja2 import nodes

from .jinja_interp import expr_text


@dataclass
class Frag:
    """a piece of template text or an output expression with the stack of Jinja conditions it sits under"""
    kind: str                 # data | expr
    text: str
    line: int
    guards: tuple[tuple[str, bool], ...]   # (test text, polarity)
    guard_nodes: tuple[Any, ...]
    loops: tuple[str, ...]
    node: Any = None


def frags(body: list[nodes.Node], guards: tuple = (), gnodes: tuple = (), loops: tuple = ()) -> Iterator[Frag]:
    for n in body:
        if isinstance(n, nodes.Output):
            for c in n.nodes:
                if isinstance(c, nodes.TemplateData):
                    yield Frag("data", c.data, c.lineno, guards, gnodes, loops, c)
                else:
                    yield Frag("expr", expr_text(c), c.lineno, guards, gnodes, loops, c)
        elif isinstance(n, nodes.If):
            t = expr_text(n.test)
            yield from frags(n.body, guards + ((t, True),), gnodes + (n.test,), loops)
            neg = guards + ((t, False),)
            gn = gnodes + (n.test,)
            for el in n.elif_:
                t2 = expr_text(el.test)
                yield from frags(el.body, neg + ((t2, True),), gn + (el.test,), loops)
                neg = neg + ((t2, False),)
                gn = gn + (el.test,)
            if n.else_:
                yield from frags(n.else_, neg, gn, loops)
        elif isinstance(n, nodes.For):
            if n.test is not None:
                # a loop filter (`for x in XS if T`) guards the body exactly like `{% if T %}` around the whole body; the loop's
                # `else` part is not under it
                yield from frags(n.body, guards + ((expr_text(n.test), True),), gnodes + (n.test,), loops + (expr_text(n.iter),))
            else:
                yield from frags(n.body, guards, gnodes, loops + (expr_text(n.iter),))
            if n.else_:
                yield from frags(n.else_, guards, gnodes, loops)
        elif isinstance(n, (nodes.With, nodes.Scope, nodes.CallBlock, nodes.FilterBlock, nodes.AssignBlock)):
            yield from frags(getattr(n, "body", []), guards, gnodes, loops)
        elif isinstance(n, nodes.Macro):
            continue


def atoms(test: nodes.Node) -> list[str]:
    if isinstance(test, (nodes.And, nodes.Or)):
        out: list[str] = []
        for a in atoms(test.left) + atoms(test.right):
            if a not in out:
                out.append(a)
        return out
    if isinstance(test, nodes.Not):
        return atoms(test.node)
    return [expr_text(test)]


def evaluate(test: nodes.Node, env: dict[str, bool]) -> bool:
    if isinstance(test, nodes.And):
        return evaluate(test.left, env) and evaluate(test.right, env)
    if isinstance(test, nodes.Or):
        return evaluate(test.left, env) or evaluate(test.right, env)
    if isinstance(test, nodes.Not):
        return not evaluate(test.node, env)
    return env[expr_text(test)]


def guard_holds(fr: Frag, env: dict[str, bool]) -> bool:
    """is the fragment emitted under the assignment env of its guard atoms?"""
    for gn, (_, pol) in zip(fr.guard_nodes, fr.guards):
        if evaluate(gn, env) != pol:
            return False
    return True


def guard_atoms(fr: Frag) -> list[str]:
    out: list[str] = []
    for gn in fr.guard_nodes:
        for a in atoms(gn):
            if a not in out:
                out.append(a)
    return out


def assignments(names: list[str]) -> Iterator[dict[str, bool]]:
    for vals in itertools.product([False, True], repeat=len(names)):
        yield dict(zip(names, vals))


def implies(fr: Frag, atom: str, value: bool) -> bool:
    """whenever the fragment is emitted, `atom` has truth value `value` (truth table over the guard atoms)"""
    names = guard_atoms(fr)
    if atom not in names:
        return False
    some = False
    for env in assignments(names):
        if guard_holds(fr, env):
            some = True
            if env[atom] != value:
                return False
    return some


def macro_frags(ti: Any, macro: str) -> list[Frag]:
    m = ti.macros.get(macro)
    return list(frags(m.body)) if m is not None else []
