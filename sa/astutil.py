"""Small AST helpers shared by the structural rules."""
from __future__ import annotations

import ast
import itertools
from typing import Any, Callable, Iterable, Iterator

from .cfg import CFG, walk_own
from .pyindex import FuncInfo, dotted

ERROR_CLASSES = {"ParseError", "PropertyError", "ParameterError", "GeneratorError"}


def norm(n: ast.AST | None) -> str:
    return ast.unparse(n) if n is not None else ""


def calls_in(node: ast.AST) -> Iterator[ast.Call]:
    for n in ast.walk(node):
        if isinstance(n, ast.Call):
            yield n


def call_name(c: ast.Call) -> str:
    return dotted(c.func) or ast.unparse(c.func)


def stmt_calls(st: ast.stmt, suffix: str) -> list[ast.Call]:
    """calls made by the statement itself (not by nested statements) whose dotted name ends with `suffix`"""
    out = []
    for n in walk_own(st):
        if isinstance(n, ast.Call) and call_name(n).endswith(suffix):
            out.append(n)
    return out


def constructs_error(e: ast.AST | None) -> bool:
    if e is None:
        return False
    for c in calls_in(e):
        if call_name(c).rsplit(".", 1)[-1] in ERROR_CLASSES:
            return True
    return False


def error_names(fn: ast.AST) -> set[str]:
    """Local names that (may) hold an error value: assigned from an error constructor, or narrowed by
    isinstance(x, <ErrorClass>)."""
    out: set[str] = set()
    for n in ast.walk(fn):
        if isinstance(n, ast.Assign) and constructs_error(n.value):
            for t in n.targets:
                if isinstance(t, ast.Name):
                    out.add(t.id)
        if isinstance(n, ast.Call) and call_name(n) == "isinstance" and len(n.args) == 2 and isinstance(n.args[0], ast.Name):
            names = [dotted(x) or "" for x in (n.args[1].elts if isinstance(n.args[1], ast.Tuple) else [n.args[1]])]
            if any(x.rsplit(".", 1)[-1] in ERROR_CLASSES for x in names):
                out.add(n.args[0].id)
    return out


def returns_error(st: ast.stmt, err_names: set[str]) -> bool:
    if not isinstance(st, ast.Return) or st.value is None:
        return False
    v = st.value
    if constructs_error(v):
        return True
    cands = [v] + (list(v.elts) if isinstance(v, ast.Tuple) else [])
    return any(isinstance(c, ast.Name) and c.id in err_names for c in cands)


def find_stmts(fn: ast.AST, pred: Callable[[ast.stmt], bool]) -> list[ast.stmt]:
    return [n for n in ast.walk(fn) if isinstance(n, ast.stmt) and pred(n)]


def bool_atoms(e: ast.expr) -> list[str]:
    if isinstance(e, ast.BoolOp):
        out: list[str] = []
        for v in e.values:
            for a in bool_atoms(v):
                if a not in out:
                    out.append(a)
        return out
    if isinstance(e, ast.UnaryOp) and isinstance(e.op, ast.Not):
        return bool_atoms(e.operand)
    return [norm(e)]


def bool_eval(e: ast.expr, env: dict[str, bool]) -> bool:
    if isinstance(e, ast.BoolOp):
        vals = [bool_eval(v, env) for v in e.values]
        return all(vals) if isinstance(e.op, ast.And) else any(vals)
    if isinstance(e, ast.UnaryOp) and isinstance(e.op, ast.Not):
        return not bool_eval(e.operand, env)
    return env[norm(e)]


def truth_table(e: ast.expr) -> Iterator[tuple[dict[str, bool], bool]]:
    atoms = bool_atoms(e)
    for vals in itertools.product([False, True], repeat=len(atoms)):
        env = dict(zip(atoms, vals))
        yield env, bool_eval(e, env)


def enclosing_loop_body(fn: ast.AST, st: ast.stmt) -> ast.stmt | None:
    """innermost for/while statement containing st"""
    best = None
    for n in ast.walk(fn):
        if isinstance(n, (ast.For, ast.While, ast.AsyncFor)) and n is not st:
            for sub in ast.walk(n):
                if sub is st:
                    best = n  # later (deeper) loops overwrite earlier ones in walk order (BFS: deeper come later)
    return best


def cfg_of(f: FuncInfo, cache: dict[str, CFG]) -> CFG:
    if f.qual not in cache:
        cache[f.qual] = CFG(f.node)
    return cache[f.qual]


def where(f: FuncInfo, n: ast.AST) -> str:
    return f"{f.module.rel}:{getattr(n, 'lineno', f.node.lineno)}"


def short(f: FuncInfo) -> str:
    return f.qual.replace("openapi_python_client.", "")
