"""Small AST helpers shared by the structural rules."""
from __future__ import annotations

import ast
import itertools
from typing import Any, Callable, Iterable, Iterator

from .cfg import CFG, walk_own
from .pyindex import FuncInfo, dotted

ERROR_CLASSES = {"ParseError", "PropertyError", "ParameterError", "GeneratorError"}


def norm(n: ast.AST | None) -> str:
    return ast.unparse(n) if n is not None else ""


def calls_in(node: ast.AST) -> Iterator[ast.Call]:
    for n in ast.walk(node):
        if isinstance(n, ast.Call):
            yield n


def call_name(c: ast.Call) -> str:
    return dotted(c.func) or ast.unparse(c.func)


def stmt_calls(st: ast.stmt, suffix: str) -> list[ast.Call]:
    """calls made by the statement itself (not by nested statements) whose dotted name ends with `suffix`"""
    out = []
    for n in walk_own(st):
        if isinstance(n, ast.Call) and call_name(n).endswith(suffix):
            out.append(n)
    return out


# helpers of the repository that can only return an error value (return annotation is one of the error classes, nothing else), filled
# by context.Ctx from the current source: `return _duplicate_parameter_error(...)` constructs an error just like `return ParseError(...)`
ERROR_ONLY_HELPERS: set[str] = set()


def register_error_helpers(functions: Iterable[FuncInfo]) -> None:
    ERROR_ONLY_HELPERS.clear()
    for f in functions:
        ann = ast.unparse(f.node.returns).strip("'\"") if f.node.returns is not None else ""
        if ann and ann.rsplit(".", 1)[-1] in ERROR_CLASSES:
            ERROR_ONLY_HELPERS.add(f.name)


def constructs_error(e: ast.AST | None) -> bool:
    if e is None:
        return False
    for c in calls_in(e):
        last = call_name(c).rsplit(".", 1)[-1]
        if last in ERROR_CLASSES or last in ERROR_ONLY_HELPERS:
            return True
    return False


def error_names(fn: ast.AST) -> set[str]:
    """Local names that (may) hold an error value: assigned from an error constructor, or narrowed by
    isinstance(x, <ErrorClass>)."""
    out: set[str] = set()
    for n in ast.walk(fn):
        if isinstance(n, ast.Assign) and constructs_error(n.value):
            for t in n.targets:
                if isinstance(t, ast.Name):
                    out.add(t.id)
        if isinstance(n, ast.Call) and call_name(n) == "isinstance" and len(n.args) == 2 and isinstance(n.args[0], ast.Name):
            names = [dotted(x) or "" for x in (n.args[1].elts if isinstance(n.args[1], ast.Tuple) else [n.args[1]])]
            if any(x.rsplit(".", 1)[-1] in ERROR_CLASSES for x in names):
                out.add(n.args[0].id)
    return out


def returns_error(st: ast.stmt, err_names: set[str]) -> bool:
    if not isinstance(st, ast.Return) or st.value is None:
        return False
    v = st.value
    if constructs_error(v):
        return True
    cands = [v] + (list(v.elts) if isinstance(v, ast.Tuple) else [])
    return any(isinstance(c, ast.Name) and c.id in err_names for c in cands)


def find_stmts(fn: ast.AST, pred: Callable[[ast.stmt], bool]) -> list[ast.stmt]:
    return [n for n in ast.walk(fn) if isinstance(n, ast.stmt) and pred(n)]


def bool_atoms(e: ast.expr) -> list[str]:
    if isinstance(e, ast.BoolOp):
        out: list[str] = []
        for v in e.values:
            for a in bool_atoms(v):
                if a not in out:
                    out.append(a)
        return out
    if isinstance(e, ast.UnaryOp) and isinstance(e.op, ast.Not):
        return bool_atoms(e.operand)
    return [norm(e)]


def bool_eval(e: ast.expr, env: dict[str, bool]) -> bool:
    if isinstance(e, ast.BoolOp):
        vals = [bool_eval(v, env) for v in e.values]
        return all(vals) if isinstance(e.op, ast.And) else any(vals)
    if isinstance(e, ast.UnaryOp) and isinstance(e.op, ast.Not):
        return not bool_eval(e.operand, env)
    return env[norm(e)]


def truth_table(e: ast.expr) -> Iterator[tuple[dict[str, bool], bool]]:
    atoms = bool_atoms(e)
    for vals in itertools.product([False, True], repeat=len(atoms)):
        env = dict(zip(atoms, vals))
        yield env, bool_eval(e, env)


def enclosing_loop_body(fn: ast.AST, st: ast.stmt) -> ast.stmt | None:
    """innermost for/while statement containing st"""
    best = None
    for n in ast.walk(fn):
        if isinstance(n, (ast.For, ast.While, ast.AsyncFor)) and n is not st:
            for sub in ast.walk(n):
                if sub is st:
                    best = n  # later (deeper) loops overwrite earlier ones in walk order (BFS: deeper come later)
    return best


def cfg_of(f: FuncInfo, cache: dict[str, CFG]) -> CFG:
    if f.qual not in cache:
        cache[f.qual] = CFG(f.node)
    return cache[f.qual]


def where(f: FuncInfo, n: ast.AST) -> str:
    return f"{f.module.rel}:{getattr(n, 'lineno', f.node.lineno)}"


def short(f: FuncInfo) -> str:
    return f.qual.replace("openapi_python_client.", "")


# ---- name-independent access to local variables -----------------------------------------------------------------------
# Rules must not depend on how a local variable is spelled (alpha-renaming preserves behaviour).  Locals are therefore found
# by their *role*: what they are bound from (the iterable of their loop, the call that produces them, ...).  Parameters,
# attributes, functions and classes are part of the repository's interface and may be named.

class Locals:
    def __init__(self, fn: ast.AST) -> None:
        self.fn = fn
        self.defs: dict[str, list[tuple[str, ast.AST, ast.AST | None]]] = {}
        for n in ast.walk(fn):
            if isinstance(n, ast.Assign):
                for t in n.targets:
                    self._bind(t, "assign", n, n.value)
            elif isinstance(n, ast.AnnAssign) and n.value is not None:
                self._bind(n.target, "assign", n, n.value)
            elif isinstance(n, ast.AugAssign):
                self._bind(n.target, "aug", n, n.value)
            elif isinstance(n, (ast.For, ast.AsyncFor)):
                self._bind(n.target, "for", n, n.iter)
            elif isinstance(n, ast.comprehension):
                self._bind(n.target, "for", n, n.iter)
            elif isinstance(n, ast.NamedExpr):
                self._bind(n.target, "assign", n, n.value)
            elif isinstance(n, (ast.With, ast.AsyncWith)):
                for item in n.items:
                    if item.optional_vars is not None:
                        self._bind(item.optional_vars, "with", n, item.context_expr)
            elif isinstance(n, ast.ExceptHandler) and n.name:
                self.defs.setdefault(n.name, []).append(("except", n, n.type))

    def _bind(self, t: ast.AST, kind: str, st: ast.AST, value: ast.AST | None) -> None:
        if isinstance(t, ast.Name):
            self.defs.setdefault(t.id, []).append((kind, st, value))
        elif isinstance(t, (ast.Tuple, ast.List)):
            for i, e in enumerate(t.elts):
                self._bind(e, f"{kind}[{i}]", st, value)
        elif isinstance(t, ast.Starred):
            self._bind(t.value, kind, st, value)

    def bound_from(self, pred: Callable[[str], bool], kind: str = "") -> list[str]:
        """local names with a binding of the given kind prefix whose value expression (unparsed) satisfies pred"""
        out = []
        for name, ds in self.defs.items():
            if any(k.startswith(kind) and v is not None and pred(norm(v)) for k, _, v in ds):
                out.append(name)
        return out

    def one(self, pred: Callable[[str], bool], kind: str = "") -> str | None:
        got = self.bound_from(pred, kind)
        return got[0] if len(got) == 1 else None

    def values_of(self, name: str) -> list[ast.AST]:
        return [v for _, _, v in self.defs.get(name, []) if v is not None]


def receivers(fn: ast.AST, attr: str, arg_pred: Callable[[str], bool] | None = None) -> list[tuple[str, ast.Call]]:
    """(receiver text, call) of every method call `<recv>.<attr>(...)` whose unparsed argument list satisfies arg_pred"""
    out = []
    for c in calls_in(fn):
        if isinstance(c.func, ast.Attribute) and c.func.attr == attr:
            args = ", ".join([norm(a) for a in c.args] + [f"{k.arg}={norm(k.value)}" for k in c.keywords])
            if arg_pred is None or arg_pred(args):
                out.append((norm(c.func.value), c))
    return out


def stmt_of(fn: ast.AST, node: ast.AST) -> ast.stmt | None:
    """innermost statement of fn that contains node"""
    best = None
    for st in ast.walk(fn):
        if isinstance(st, ast.stmt):
            for sub in walk_own(st):
                if sub is node:
                    best = st
    return best


def names_in(e: ast.AST | None) -> set[str]:
    return {n.id for n in ast.walk(e) if isinstance(n, ast.Name)} if e is not None else set()


def local_names(fn: ast.AST) -> set[str]:
    """names bound inside fn (incl. comprehension / loop targets, nested functions' locals) that are not parameters of fn"""
    a = fn.args if isinstance(fn, (ast.FunctionDef, ast.AsyncFunctionDef, ast.Lambda)) else None
    params = set()
    if a is not None:
        params = {x.arg for x in [*a.posonlyargs, *a.args, *a.kwonlyargs]} | ({a.vararg.arg} if a.vararg else set()) | ({a.kwarg.arg} if a.kwarg else set())
    out = {n.id for n in ast.walk(fn) if isinstance(n, ast.Name) and isinstance(n.ctx, ast.Store)}
    out |= {h.name for h in ast.walk(fn) if isinstance(h, ast.ExceptHandler) and h.name}
    return out - params


class _Anon(ast.NodeTransformer):
    def __init__(self, names: set[str]) -> None:
        self.names = names

    def visit_Name(self, n: ast.Name) -> ast.AST:
        return ast.copy_location(ast.Name(id="_", ctx=n.ctx), n) if n.id in self.names else n


def anon(e: ast.AST, names: set[str]) -> str:
    """unparsed expression with the given (local) names replaced by `_`: construct keys must survive alpha-renaming"""
    import copy

    return ast.unparse(_Anon(names).visit(copy.deepcopy(e)))


_ROLE_CACHE: dict[int, tuple[ast.AST, dict[str, str]]] = {}


def _role_of(name: str, lc: Locals, lnames: set[str]) -> str:
    descs = set()
    for kind, _, v in lc.defs.get(name, []):
        idx = kind[kind.index("["):] if "[" in kind else ""
        if kind.startswith("for") and v is not None:
            descs.add(f"<each {anon(v, lnames)}{idx}>")
        elif kind.startswith(("assign", "with")) and isinstance(v, ast.Call):
            descs.add(f"<={call_name(v).rsplit('.', 1)[-1]}(){idx}>")
        else:
            descs.add("_")
    return next(iter(descs)) if len(descs) == 1 else "_"


def role_anon(e: ast.AST, fn: ast.AST) -> str:
    """unparsed expression in which every local of fn is replaced by its role: `<each ITER>` for a loop variable, `<=f()>` for a
    local only ever bound to the result of f, `_` otherwise.  Keys built this way identify a construct without depending on how
    locals are spelled."""
    import copy

    if id(fn) not in _ROLE_CACHE:
        lnames = local_names(fn)
        lc = Locals(fn)
        _ROLE_CACHE[id(fn)] = (fn, {n: _role_of(n, lc, lnames) for n in lnames})
    roles = _ROLE_CACHE[id(fn)][1]
    if not (names_in(e) & set(roles)):
        return norm(e)

    class R(ast.NodeTransformer):
        def visit_Name(self, n: ast.Name) -> ast.AST:
            return ast.copy_location(ast.Name(id=roles[n.id], ctx=n.ctx), n) if n.id in roles else n

    return ast.unparse(R().visit(copy.deepcopy(e)))


def resolved_text(e: ast.AST, fn: ast.AST, depth: int = 3) -> str:
    """the expression's text followed by the texts of everything its local names are bound from (transitively, `depth` levels):
    lets a rule recognise `for x in to_process` as a loop over `schemas.models_to_process` however the local is spelled"""
    lc = Locals(fn)
    seen: set[str] = set()
    out = [norm(e)]
    frontier = names_in(e)
    for _ in range(depth):
        nxt: set[str] = set()
        for n in sorted(frontier - seen):
            seen.add(n)
            for v in lc.values_of(n):
                out.append(norm(v))
                nxt |= names_in(v)
        frontier = nxt
    return " <- ".join(out)


def region(ix: Any, f: FuncInfo, depth: int = 2) -> list[FuncInfo]:
    """f and the private helpers it delegates to (extract-helper refactorings move code, not behaviour): functions of the same module
    or class whose name starts with `_`, called from f by plain name / self. / cls. / ClassName. , transitively up to `depth` levels.
    Rules that ask "does this mechanism exist in f" search the region; rules about paths stay within one function and treat a call to
    a region helper as the place where the helper's effects happen."""
    out = [f]
    seen = {f.qual}
    frontier = [f]
    for _ in range(depth):
        nxt: list[FuncInfo] = []
        for g in frontier:
            names = set()
            for c in calls_in(g.node):
                cn = call_name(c)
                last = cn.rsplit(".", 1)[-1]
                head = cn.rsplit(".", 1)[0] if "." in cn else ""
                if last.startswith("_") and not last.startswith("__") and (head in ("", "self", "cls") or (g.cls is not None and head == g.cls.name)
                                                                         or head[:1].isupper()):
                    names.add(last)
            for h in ix.all_functions:
                if h.name in names and h.qual not in seen and h.module is g.module and (h.cls is None or g.cls is None or h.cls is g.cls or True):
                    seen.add(h.qual)
                    out.append(h)
                    nxt.append(h)
        frontier = nxt
    return out


def region_walk(ix: Any, f: FuncInfo, depth: int = 2) -> Iterator[tuple[FuncInfo, ast.AST]]:
    for g in region(ix, f, depth):
        for n in ast.walk(g.node):
            yield g, n


def terminals(body: list[ast.stmt], ev: Callable[[ast.expr], "bool | None"]) -> tuple[set[ast.stmt], bool]:
    """(statements that can END the function - return / raise -, can the block fall through) when `if` tests are decided by `ev`
    (True / False / None = both ways).  Tests are evaluated structurally (not / and / or over atoms given to ev); loops, with and try
    bodies may or may not run.  Indifferent to early-return versus nested-if form and to branch order."""

    def val(t: ast.expr) -> "bool | None":
        v = ev(t)
        if v is not None:
            return v
        if isinstance(t, ast.UnaryOp) and isinstance(t.op, ast.Not):
            x = val(t.operand)
            return None if x is None else not x
        if isinstance(t, ast.BoolOp):
            xs = [val(x) for x in t.values]
            if isinstance(t.op, ast.And):
                return False if any(x is False for x in xs) else (True if all(x is True for x in xs) else None)
            return True if any(x is True for x in xs) else (False if all(x is False for x in xs) else None)
        return None

    terms: set[ast.stmt] = set()
    for st in body:
        if isinstance(st, (ast.Return, ast.Raise)):
            terms.add(st)
            return terms, False
        if isinstance(st, ast.If):
            v = val(st.test)
            arms = [st.body] if v is True else [st.orelse] if v is False else [st.body, st.orelse]
            falls = False
            for arm in arms:
                t2, f2 = terminals(arm, ev)
                terms |= t2
                falls = falls or f2
            if not falls:
                return terms, False
            continue
        for fld in ("body", "orelse", "finalbody"):
            sub = getattr(st, fld, None)
            if isinstance(sub, list) and sub and isinstance(sub[0], ast.stmt) and not isinstance(st, (ast.FunctionDef, ast.AsyncFunctionDef, ast.ClassDef)):
                terms |= terminals(sub, ev)[0]
        for h in getattr(st, "handlers", []) or []:
            terms |= terminals(h.body, ev)[0]
    return terms, True
