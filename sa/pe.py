"""A tiny path enumerator for small methods: which string constants are executed on the paths selected by known
boolean atoms (used for the type-string / declaration sibling rules)."""
from __future__ import annotations

import ast
from typing import Any

from .pyindex import ClassInfo, FuncInfo, PyIndex


def _atom(e: ast.expr) -> str:
    return ast.unparse(e)


def _eval(test: ast.expr, env: dict[str, bool]) -> bool | None:
    if isinstance(test, ast.BoolOp):
        vals = [_eval(v, env) for v in test.values]
        if isinstance(test.op, ast.And):
            if any(v is False for v in vals):
                return False
            return True if all(v is True for v in vals) else None
        if any(v is True for v in vals):
            return True
        return False if all(v is False for v in vals) else None
    if isinstance(test, ast.UnaryOp) and isinstance(test.op, ast.Not):
        v = _eval(test.operand, env)
        return None if v is None else not v
    if isinstance(test, ast.Compare) and len(test.ops) == 1 and isinstance(test.comparators[0], ast.Constant) and \
            test.comparators[0].value is None and isinstance(test.ops[0], (ast.Is, ast.IsNot)):
        v = env.get(_atom(test.left) + " is None")
        if v is None:
            return None
        return v if isinstance(test.ops[0], ast.Is) else not v
    return env.get(_atom(test))


class PathEnum:
    def __init__(self, ix: PyIndex):
        self.ix = ix

    def outcomes(self, f: FuncInfo, cls: ClassInfo, env: dict[str, bool], needle: str, depth: int = 0) -> set[bool]:
        """{True/False}: over the paths consistent with env, does some executed statement mention `needle` in a string
        constant (callee paths included for self.<method>(...) calls)?"""
        res: set[bool] = set()
        self._block(f.node.body, cls, dict(env), needle, False, res, depth, f)
        return res

    def _mentions(self, node: ast.AST, needle: str) -> bool:
        return any(isinstance(n, ast.Constant) and isinstance(n.value, str) and needle in n.value for n in ast.walk(node))

    def _calls(self, node: ast.AST, cls: ClassInfo, env: dict[str, bool], needle: str, depth: int, f: FuncInfo) -> set[bool]:
        """mention outcomes contributed by self.<method>(...) calls inside node"""
        out = {False}
        if depth > 3:
            return out
        for c in ast.walk(node):
            if isinstance(c, ast.Call) and isinstance(c.func, ast.Attribute) and isinstance(c.func.value, ast.Name) and \
                    c.func.value.id == "self":
                m = self.ix.find_method(cls, c.func.attr)
                if m is None or m is f:
                    continue
                e2 = {k: v for k, v in env.items() if k.startswith("self.")}
                params = [p.arg for p in m.params if p.arg != "self"]
                a = m.node.args
                pos = [p.arg for p in [*a.posonlyargs, *a.args] if p.arg != "self"]
                defaults = {}
                allpos = [*a.posonlyargs, *a.args]
                for p, d in zip(allpos[len(allpos) - len(a.defaults):], a.defaults):
                    defaults[p.arg] = d
                for p, d in zip(a.kwonlyargs, a.kw_defaults):
                    if d is not None:
                        defaults[p.arg] = d
                bound: dict[str, ast.expr] = dict(defaults)
                for i, arg in enumerate(c.args):
                    if i < len(pos):
                        bound[pos[i]] = arg
                for kw in c.keywords:
                    if kw.arg:
                        bound[kw.arg] = kw.value
                for pn in params:
                    if pn in bound:
                        v = bound[pn]
                        if isinstance(v, ast.Constant) and isinstance(v.value, bool):
                            e2[pn] = v.value
                        else:
                            ev = _eval(v, env)
                            if ev is not None:
                                e2[pn] = ev
                sub = self.outcomes(m, cls, e2, needle, depth + 1)
                out = {a_ or b_ for a_ in out for b_ in (sub or {False})}
        return out

    def _block(self, body: list[ast.stmt], cls: ClassInfo, env: dict[str, bool], needle: str, seen: bool, res: set[bool],
               depth: int, f: FuncInfo) -> list[tuple[dict[str, bool], bool]]:
        """returns the fall-through states"""
        states = [(env, seen)]
        for st in body:
            nxt: list[tuple[dict[str, bool], bool]] = []
            for e, s in states:
                if isinstance(st, ast.Expr) and isinstance(st.value, ast.Constant):
                    nxt.append((e, s))
                    continue
                if isinstance(st, ast.If):
                    v = _eval(st.test, e)
                    arms = []
                    if v is not False:
                        arms.append(st.body)
                    if v is not True:
                        arms.append(st.orelse)
                    for arm in arms:
                        for callm in self._calls(st.test, cls, e, needle, depth, f):
                            nxt += self._block(arm, cls, dict(e), needle, s or callm, res, depth, f) if arm else [(e, s or callm)]
                    continue
                if isinstance(st, (ast.Assign, ast.AnnAssign)):
                    tgt = st.targets[0] if isinstance(st, ast.Assign) else st.target
                    val = st.value
                    if isinstance(tgt, ast.Name) and val is not None:
                        e = dict(e)
                        k = tgt.id + " is None"
                        if isinstance(val, ast.Constant):
                            e[k] = val.value is None
                        elif isinstance(val, (ast.JoinedStr, ast.Attribute)):
                            e[k] = False
                        else:
                            e.pop(k, None)
                m_here = self._mentions(st, needle)
                for callm in self._calls(st, cls, e, needle, depth, f):
                    s2 = s or m_here or callm
                    if isinstance(st, ast.Return):
                        res.add(s2)
                    elif isinstance(st, ast.Raise):
                        pass
                    else:
                        nxt.append((e, s2))
            states = nxt
        if depth == 0 and body is f.node.body:
            for e, s in states:
                res.add(s)
        elif body is f.node.body:
            for e, s in states:
                res.add(s)
        return states


def fstring_text(n: ast.AST, hole: str = "\x00") -> str | None:
    """text of a string constant / f-string with every replacement field turned into `hole`"""
    if isinstance(n, ast.Constant) and isinstance(n.value, str):
        return n.value
    if isinstance(n, ast.JoinedStr):
        out = []
        for v in n.values:
            if isinstance(v, ast.Constant):
                out.append(str(v.value))
            else:
                out.append(hole)
        return "".join(out)
    return None


class StringCollector:
    """union of the string constants executed on the paths of a small method that are consistent with known boolean
    atoms; follows self.<m>() and super().<m>() calls"""

    def __init__(self, ix: PyIndex):
        self.ix = ix

    def collect(self, f: FuncInfo, cls: ClassInfo, env: dict[str, bool], depth: int = 0, defining: "ClassInfo | None" = None) -> set[str]:
        out: set[str] = set()
        self._block(f.node.body, cls, env, out, depth, f, defining or f.cls or cls)
        return out

    def _block(self, body: list[ast.stmt], cls: ClassInfo, env: dict[str, bool], out: set[str], depth: int, f: FuncInfo, defining: ClassInfo) -> bool:
        """returns True when every consistent path through the block ends in return/raise"""
        for st in body:
            if isinstance(st, ast.Expr) and isinstance(st.value, ast.Constant):
                continue
            if isinstance(st, ast.If):
                v = _eval(st.test, env)
                self._expr(st.test, cls, env, out, depth, f, defining)
                ra = rb = False
                if v is not False:
                    ra = self._block(st.body, cls, env, out, depth, f, defining)
                if v is not True:
                    rb = self._block(st.orelse, cls, env, out, depth, f, defining) if st.orelse else False
                if (v is True and ra) or (v is False and rb) or (v is None and ra and rb):
                    return True
                continue
            if isinstance(st, (ast.Return, ast.Raise)):
                self._expr(st, cls, env, out, depth, f, defining)
                return True
            if isinstance(st, (ast.For, ast.While, ast.With, ast.Try)):
                for fld in ("body", "orelse", "finalbody"):
                    self._block(getattr(st, fld, []) or [], cls, env, out, depth, f, defining)
                for h in getattr(st, "handlers", []) or []:
                    self._block(h.body, cls, env, out, depth, f, defining)
                for e in (getattr(st, "iter", None), getattr(st, "test", None)):
                    if e is not None:
                        self._expr(e, cls, env, out, depth, f, defining)
                continue
            self._expr(st, cls, env, out, depth, f, defining)
        return False

    def _expr(self, node: ast.AST, cls: ClassInfo, env: dict[str, bool], out: set[str], depth: int, f: FuncInfo, defining: ClassInfo) -> None:
        inner_fs = {id(v) for n in ast.walk(node) if isinstance(n, ast.JoinedStr) for v in ast.walk(n) if v is not n}
        for n in ast.walk(node):
            if id(n) in inner_fs:
                continue
            t = fstring_text(n)
            if t is not None:
                out.add(t)
            if isinstance(n, ast.Call) and isinstance(n.func, ast.Attribute) and depth < 4:
                m = None
                d2 = defining
                if isinstance(n.func.value, ast.Name) and n.func.value.id == "self":
                    m = self.ix.find_method(cls, n.func.attr)
                    d2 = m.cls if m is not None and m.cls is not None else defining
                elif isinstance(n.func.value, ast.Call) and isinstance(n.func.value.func, ast.Name) and n.func.value.func.id == "super":
                    mro = self.ix.mro(cls)
                    idx = next((i for i, k in enumerate(mro) if k is defining), -1)
                    for k in mro[idx + 1:]:
                        if n.func.attr in k.methods:
                            m = k.methods[n.func.attr]
                            d2 = k
                            break
                if m is not None and m is not f:
                    e2 = {k: v for k, v in env.items() if k.startswith("self.")}
                    out |= self.collect(m, cls, e2, depth + 1, d2)
