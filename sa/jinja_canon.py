"""Role-canonical names for the variables a template binds itself.

Rules and construct keys must not depend on how a template spells its own loop variables and `{% set %}` variables
(renaming them preserves behaviour).  After parsing, every such variable is renamed *in the AST* to a name that states
its role, so every engine that reads the AST (template interpreter, guard queries, skeletons) sees the same program
whatever the spelling:

    {% for response in endpoint.responses %}        response       ->  endpoint.responses[*]
    {% for k, v in d.items() %}                     k, v           ->  d.items()[*].0 , d.items()[*].1
    {% set property = body.prop %}                  property       ->  (endpoint.bodies[*].prop)
    {% set e = a %} ... {% set e = b %}             e              ->  (a|b)            (all definitions of the scope, sorted)
    {% set x %}...{% endset %}                      x              ->  (block#k)

Names that belong to the interface between templates keep their spelling: macro names and macro parameters (also when a
macro re-`set`s one of its parameters), render arguments (`endpoint`, `model`, ...), import aliases and imported macro names,
`loop`.  Inside the text of a definition other `set` variables of the same scope appear as `•` (no recursion).
Scopes: the template's top level and each macro; a `for` target is scoped to its loop; macros see the top-level `set`s.
"""
from __future__ import annotations

from jinja2 import nodes

MAXLEN = 120


def _text(n: nodes.Node) -> str:
    from .jinja_interp import expr_text

    return expr_text(n)


def _cap(s: str) -> str:
    return s if len(s) <= MAXLEN else s[: MAXLEN - 1] + "…"


class _Scope:
    def __init__(self, body: list[nodes.Node], keep: set[str], parent: dict[str, str]):
        self.body = body
        self.keep = keep
        self.parent = parent
        self.set_names: dict[str, list[nodes.Node]] = {}
        self.block_n = 0


def _own_nodes(body: list[nodes.Node]):
    """all nodes of the scope, not descending into nested macros"""
    stack = list(reversed(body))
    while stack:
        n = stack.pop()
        yield n
        if isinstance(n, nodes.Macro):
            continue
        stack.extend(reversed(list(n.iter_child_nodes())))


def _collect_sets(sc: _Scope) -> None:
    for n in _own_nodes(sc.body):
        if isinstance(n, nodes.Macro):
            continue
        if isinstance(n, (nodes.Assign, nodes.AssignBlock)) and isinstance(n.target, nodes.Name) and n.target.name not in sc.keep:
            sc.set_names.setdefault(n.target.name, []).append(n)


def _is_primary(e: nodes.Node) -> bool:
    """a name, attribute / item access or call chain: substituting it for a variable needs no parentheses, so a loop over a `set`
    variable and a loop over the expression itself read the same"""
    return isinstance(e, (nodes.Name, nodes.Getattr, nodes.Getitem, nodes.Call, nodes.Const))


def _is_empty_literal(e: nodes.Node | None) -> bool:
    return (isinstance(e, (nodes.List, nodes.Tuple)) and not e.items) or (isinstance(e, nodes.Const) and e.value in ("", (), None)) \
        or e is None


def _elem_source(e: nodes.Node) -> nodes.Node:
    """the part of an iterable expression its elements come from: a conditional with an empty alternative yields the other one"""
    while isinstance(e, nodes.CondExpr):
        if _is_empty_literal(e.expr2) and not _is_empty_literal(e.expr1):
            e = e.expr1
        elif _is_empty_literal(e.expr1) and not _is_empty_literal(e.expr2):
            e = e.expr2
        else:
            break
    return e


def _rename_expr(e: nodes.Node, env: dict[str, str]) -> None:
    for x in [e] + list(e.find_all((nodes.Name, nodes.NSRef))):
        if isinstance(x, (nodes.Name, nodes.NSRef)) and x.name in env:
            x.name = env[x.name]


def _walk(body: list[nodes.Node], env: dict[str, str], sc: _Scope, active_loops: list[str]) -> None:
    for n in body:
        if isinstance(n, nodes.Macro):
            continue
        if isinstance(n, nodes.For):
            orig = n.iter.name if isinstance(n.iter, nodes.Name) else None
            _rename_expr(n.iter, env)
            it = _text(n.iter)
            # the loop variable is named by where its elements come from: an alternative that is an empty literal contributes none,
            # so `for x in ([] if c else XS)` - written inline or through a `set` variable - reads as a loop over XS
            src = n.iter
            defs = sc.set_names.get(orig, []) if orig is not None else []
            if len(defs) == 1 and isinstance(defs[0], nodes.Assign):
                src = defs[0].node
            el = _elem_source(src)
            if el is not src:
                it = _text(el)
                if not _is_primary(el) and not it.startswith("("):
                    it = "(" + it + ")"
            base = f"{it}[*]"
            while base in active_loops:
                base += "'"
            env2 = dict(env)
            if isinstance(n.target, nodes.Name):
                if n.target.name not in sc.keep:
                    env2[n.target.name] = base
            else:
                for i, t in enumerate(n.target.find_all(nodes.Name)):
                    if t.name not in sc.keep:
                        env2[t.name] = f"{base}.{i}"
            _rename_expr(n.target, env2)
            if n.test is not None:
                _rename_expr(n.test, env2)
            _walk(n.body, env2, sc, active_loops + [base])
            _walk(n.else_, env2, sc, active_loops + [base])
            continue
        if isinstance(n, nodes.If):
            _rename_expr(n.test, env)
            _walk(n.body, env, sc, active_loops)
            for el in n.elif_:
                _rename_expr(el.test, env)
                _walk(el.body, env, sc, active_loops)
            _walk(n.else_, env, sc, active_loops)
            continue
        if isinstance(n, nodes.Assign):
            _rename_expr(n.node, env)
            _rename_expr(n.target, env)
            continue
        if isinstance(n, nodes.AssignBlock):
            _rename_expr(n.target, env)
            if n.filter is not None:
                _rename_expr(n.filter, env)
            _walk(n.body, env, sc, active_loops)
            continue
        if isinstance(n, nodes.With):
            # `{% with x = EXPR %}`: x is scoped to the block and reads as its definition, like a single-definition `set`
            env2 = dict(env)
            for t, v in zip(n.targets, n.values):
                _rename_expr(v, env2)
                if isinstance(t, nodes.Name) and t.name not in sc.keep:
                    env2[t.name] = _cap(_text(v)) if _is_primary(v) else "(" + _cap(_text(v)) + ")"
            for t in n.targets:
                _rename_expr(t, env2)
            _walk(n.body, env2, sc, active_loops)
            continue
        if isinstance(n, (nodes.CallBlock, nodes.FilterBlock, nodes.Scope)):
            for fld in ("call", "filter"):
                v = getattr(n, fld, None)
                if v is not None:
                    _rename_expr(v, env)
            for v in getattr(n, "values", []) or []:
                _rename_expr(v, env)
            _walk(n.body, env, sc, active_loops)
            continue
        # Output, Import, FromImport, Include, ExprStmt, Continue, Break ...
        for ch in n.iter_child_nodes():
            _rename_expr(ch, env)


def _def_texts(sc: _Scope, env_outer: dict[str, str]) -> dict[str, str]:
    """canonical names of the scope's set variables, from the texts of their definitions.  The texts are computed on a scratch
    renaming in which loop variables are already canonical and set variables of the scope are `•`."""
    import copy

    if not sc.set_names:
        return {}

    def one_pass(inner: dict[str, str]) -> dict[str, str]:
        scratch = copy.deepcopy(sc.body)
        sc2 = _Scope(scratch, sc.keep, sc.parent)
        _collect_sets(sc2)
        # targets must keep their spelling in the scratch copy so that they can be told apart: rename expressions only
        targets = {id(d.target): d.target.name for ds in sc2.set_names.values() for d in ds}
        selfref = {id(d) for nm_, ds in sc2.set_names.items() for d in ds if isinstance(d, nodes.Assign)
                   and any(x.name == nm_ for x in [d.node, *d.node.find_all(nodes.Name)] if isinstance(x, nodes.Name))}
        env = dict(env_outer)
        env.update(inner)
        _walk(scratch, env, sc2, [])
        for ds in sc2.set_names.values():
            for d in ds:
                d.target.name = targets[id(d.target)]
        out: dict[str, str] = {}
        used: set[str] = set(env_outer.values())
        k = 0
        for nm, ds in sc2.set_names.items():
            texts = []
            for d in ds:
                if isinstance(d, nodes.AssignBlock):
                    k += 1
                    texts.append(f"block#{k}")
                else:
                    # a definition that mentions the variable itself (x = x + 1) shows it as a bullet
                    texts.append(_text(d.node).replace(inner.get(nm, "\0"), "•")
                                 if id(d) in selfref and inner.get(nm) not in (None, "•") else _text(d.node))
            cand = "(" + _cap("|".join(sorted(set(texts)))) + ")"
            if len(ds) == 1 and isinstance(ds[0], nodes.Assign) and _is_primary(ds[0].node) and "•" not in texts[0]:
                cand = _cap(texts[0])
            while cand in used:
                cand += "'"
            used.add(cand)
            out[nm] = cand
        return out

    # pass 1: other set variables of the scope appear as bullets; pass 2: as their pass-1 names (one level of unfolding)
    first = one_pass({nm: "•" for nm in sc.set_names})
    return one_pass(first)


def canonicalise(tree: nodes.Template) -> dict[str, dict[str, str]]:
    """renames in place; returns {scope name: {original: canonical}} for diagnostics"""
    report: dict[str, dict[str, str]] = {}
    imported: set[str] = {"loop"}
    for n in tree.find_all(nodes.FromImport):
        imported |= {(x[1] if isinstance(x, tuple) else x) for x in n.names}
    for n in tree.find_all(nodes.Import):
        imported.add(n.target)
    macros = list(tree.find_all(nodes.Macro))
    imported |= {m.name for m in macros}
    top = _Scope(tree.body, set(imported), {})
    _collect_sets(top)
    top_env = _def_texts(top, {})
    report["<top>"] = dict(top_env)
    for m in macros:
        keep = set(imported) | {a.name for a in m.args}
        sc = _Scope(m.body, keep, top_env)
        _collect_sets(sc)
        outer = {k: v for k, v in top_env.items() if k not in keep}
        env = dict(outer)
        env.update(_def_texts(sc, outer))
        report[m.name] = {k: v for k, v in env.items() if k not in outer}
        for d in m.defaults:
            _rename_expr(d, outer)
        _walk(m.body, env, sc, [])
    _walk(tree.body, dict(top_env), top, [])
    return report
