"""C09, found by hand while hardening (no rule reports it): the package name derived from info.title is not always an identifier.

Project.__init__:  project_name = kebab_case(title).lower() + "-client";  package_name = project_name.replace("-", "_").
Nothing supplies a start character: a title that begins with a digit (or with a \\w character outside ID_Start / ID_Continue, e.g. U+00B2)
gives a package directory that cannot be imported under the name the README / pyproject print.
Run: PYTHONPATH=/repo /venv/bin/python repro_c09_package_name.py
"""
import sys
from pathlib import Path

sys.path.insert(0, str(Path(__file__).parent))
from _gen import base_doc, cleanup, generate  # noqa: E402

r = {}
for title in ("123 API", "a²b"):
    d = base_doc()
    d["info"]["title"] = title
    td, out, errs = generate(d, meta="poetry")
    pkgs = [p.parent.name for p in out.glob("*/__init__.py")]
    r[f"title {title!r} -> package directory {pkgs} is not an identifier, no diagnostic"] = \
        bool(pkgs) and not pkgs[0].isidentifier() and not errs
    cleanup(td)

for k, v in r.items():
    print(("REPRODUCED  " if v else "not reproduced  ") + k)
sys.exit(0 if all(r.values()) else 1)
