"""C15: a 3.0-style `nullable: true` schema that composes with allOf and has NO `type` is rewritten by Schema.handle_nullable to
oneOf[null, Schema(allOf=...)]; the `properties` and `required` written next to the allOf stay on the outer (now union) schema and
are silently dropped from the composed model.  Run with /venv/bin/python from /repo.  Exit 0 = the composed class has the sibling
properties, 1 = broken."""
import json, shutil, sys, tempfile
from pathlib import Path
import openapi_python_client
from openapi_python_client import MetaType
from openapi_python_client.config import Config, ConfigFile

DOC = {"openapi": "3.0.3", "info": {"title": "t", "version": "1"}, "paths": {},
       "components": {"schemas": {
           "Animal": {"type": "object", "properties": {"name": {"type": "string"}}},
           "Owner": {"type": "object", "properties": {"pet": {
               "nullable": True, "allOf": [{"$ref": "#/components/schemas/Animal"}],
               "required": ["nick"], "properties": {"nick": {"type": "string"}, "chipped": {"type": "boolean"}}}}}}}}
tmp = Path(tempfile.mkdtemp())
try:
    (tmp / "d.json").write_text(json.dumps(DOC))
    cfg = Config.from_sources(ConfigFile(post_hooks=[]), MetaType.POETRY, tmp / "d.json", "utf-8", overwrite=True, output_path=tmp / "out")
    for e in openapi_python_client.generate(config=cfg):
        print("DIAG", getattr(e, "header", ""), "|", getattr(e, "detail", ""))
    mods = sorted(p.name for p in (tmp / "out" / "t_client" / "models").glob("*.py"))
    print("models:", mods)
    text = "".join(p.read_text() for p in (tmp / "out" / "t_client" / "models").glob("*.py"))
    has = {n: (f"    {n}:" in text) for n in ("name", "nick", "chipped")}
    print("attributes found in any generated class:", has)
    ok = all(has.values())
    print("CONSISTENT" if ok else "BROKEN: properties written next to the allOf are missing from the composed class, and no diagnostic says so")
    sys.exit(0 if ok else 1)
finally:
    shutil.rmtree(tmp, ignore_errors=True)
