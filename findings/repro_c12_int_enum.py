"""C12: the member order of a generated IntEnum depends on the order of components.schemas.

Two inline integer enums whose class names collide (model `User`, property `status_type` and model `UserStatus`, property `type`
both become `UserStatusType`) list the same values in a different order.  EnumProperty.build accepts the second declaration because
`values != existing.values` compares dicts (order ignored) and registers it in place of the first, and int_enum.py.jinja emits
`enum.values.items()` in stored order (str_enum.py.jinja sorts: `enum.values|dictsort(true)`).  So whichever declaration is parsed
last decides models/user_status_type.py, without any diagnostic.  Run with /venv/bin/python from /repo.
Exit 0 = same bytes for both orders, 1 = broken."""
import json, shutil, sys, tempfile
from pathlib import Path
import openapi_python_client
from openapi_python_client import MetaType
from openapi_python_client.config import Config, ConfigFile

SCHEMAS = {
    "User": {"type": "object", "properties": {"status_type": {"type": "integer", "enum": [1, 2, 3]}}},
    "UserStatus": {"type": "object", "properties": {"type": {"type": "integer", "enum": [3, 1, 2]}}},
}


def doc(order: list[str]) -> dict:
    return {"openapi": "3.1.0", "info": {"title": "t", "version": "1"}, "paths": {},
            "components": {"schemas": {name: SCHEMAS[name] for name in order}}}


def enum_module(d: dict) -> tuple[str, list[str]]:
    tmp = Path(tempfile.mkdtemp())
    try:
        (tmp / "d.json").write_text(json.dumps(d))
        cfg = Config.from_sources(ConfigFile(post_hooks=[]), MetaType.POETRY, tmp / "d.json", "utf-8", overwrite=True, output_path=tmp / "out")
        diags = [f"{getattr(e, 'header', '')} | {(getattr(e, 'detail', '') or '')[:120]}" for e in openapi_python_client.generate(config=cfg)]
        return (tmp / "out" / "t_client" / "models" / "user_status_type.py").read_text(), diags
    finally:
        shutil.rmtree(tmp, ignore_errors=True)


first, diags_1 = enum_module(doc(["User", "UserStatus"]))
second, diags_2 = enum_module(doc(["UserStatus", "User"]))
for d in diags_1 + diags_2:
    print("DIAG", d.replace("\n", " "))
members = lambda text: [line.strip() for line in text.splitlines() if line.strip().startswith("VALUE_")]  # noqa: E731
print("schemas User, UserStatus:", members(first))
print("schemas UserStatus, User:", members(second))
ok = first == second and not diags_1 and not diags_2
print("CONSISTENT" if ok else "BROKEN: models/user_status_type.py depends on the order of components.schemas (no diagnostic)")
sys.exit(0 if ok else 1)
