"""C12 / C20: ListProperty.build appended `items` to the parsed document's own `prefixItems` list, so every further use of the same
array schema (a component parameter used by two paths) saw one more member.  The two paths use the same parameter by reference, so
they must get the same classes; and swapping the two paths must only swap names.  Run with /venv/bin/python from /repo.
Exit 0 = consistent, 1 = broken."""
import json, shutil, sys, tempfile
from pathlib import Path
import openapi_python_client
from openapi_python_client import MetaType
from openapi_python_client.config import Config, ConfigFile


def doc(first: str, second: str) -> dict:
    op = lambda oid: {"operationId": oid, "parameters": [{"$ref": "#/components/parameters/Ids"}], "responses": {"200": {"description": "ok"}}}  # noqa: E731
    return {"openapi": "3.1.0", "info": {"title": "t", "version": "1"},
            "paths": {f"/{first}": {"get": op(f"get_{first}")}, f"/{second}": {"get": op(f"get_{second}")}},
            "components": {"parameters": {"Ids": {"name": "ids", "in": "query", "required": True, "schema": {
                "type": "array", "prefixItems": [{"type": "string"}],
                "items": {"type": "object", "properties": {"q": {"type": "string"}}}}}}}}


def models(d: dict) -> list[str]:
    tmp = Path(tempfile.mkdtemp())
    try:
        (tmp / "d.json").write_text(json.dumps(d))
        cfg = Config.from_sources(ConfigFile(post_hooks=[]), MetaType.POETRY, tmp / "d.json", "utf-8", overwrite=True, output_path=tmp / "out")
        for e in openapi_python_client.generate(config=cfg):
            print("DIAG", getattr(e, "header", ""), "|", (getattr(e, "detail", "") or "")[:120].replace("\n", " "))
        return sorted(p.name for p in (tmp / "out" / "t_client" / "models").glob("*.py") if p.name != "__init__.py")
    finally:
        shutil.rmtree(tmp, ignore_errors=True)


ab, ba = models(doc("a", "b")), models(doc("b", "a"))
print("paths a,b:", ab)
print("paths b,a:", ba)
per_op = {op: sum(1 for m in ab if m.startswith(f"get_{op}_")) for op in ("a", "b")}
ok = ab == ba and per_op["a"] == per_op["b"]
print("CONSISTENT" if ok else f"BROKEN: classes per operation {per_op}; the set of generated classes depends on the order of the paths map")
sys.exit(0 if ok else 1)
