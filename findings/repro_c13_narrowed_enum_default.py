"""C13 / C15 / C01: an allOf child narrows an inherited enum property (`enum: [a, b]` over the parent's `[a, b, c]`) and inherits the
parent's default: the merged property took the child's class but kept the default converted for the parent's (`e: Union[Unset, CE] = PE.A`):
NameError when the models package is imported; a default outside the narrowed table was kept silently.  Exit 0 = imports, 1 = broken."""
import shutil, subprocess, sys, tempfile
from pathlib import Path
import openapi_python_client
from openapi_python_client import MetaType
from openapi_python_client.config import Config, ConfigFile
DOC = """
openapi: 3.1.0
info: {title: t, version: "1"}
paths: {}
components:
  schemas:
    P:
      type: object
      properties:
        e: {type: string, enum: [a, b, c], default: a}
    C:
      allOf:
        - $ref: "#/components/schemas/P"
        - type: object
          properties:
            e: {type: string, enum: [a, b]}
"""
tmp = Path(tempfile.mkdtemp())
try:
    (tmp / "d.yaml").write_text(DOC)
    cfg = Config.from_sources(ConfigFile(post_hooks=[]), MetaType.POETRY, tmp / "d.yaml", "utf-8", overwrite=True, output_path=tmp / "out")
    diags = openapi_python_client.generate(config=cfg)
    for e in diags:
        print("DIAG", getattr(e, "header", ""), "|", getattr(e, "detail", ""))
    src = tmp/"out"/"t_client"/"models"/"c.py"
    print([l.strip() for l in src.read_text().splitlines() if l.strip().startswith("e:")][:1] if src.exists() else "model C not generated")
    p = subprocess.run([sys.executable, "-c", "import t_client.models"], cwd=tmp / "out", capture_output=True, text=True)
    print(p.stderr.strip().splitlines()[-1] if p.returncode else "imports")
    sys.exit(p.returncode and 1)
finally:
    shutil.rmtree(tmp, ignore_errors=True)
