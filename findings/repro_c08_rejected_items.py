"""C08: an item that is rejected leaves the classes it declared inline behind.  Three loops adopt the registry handed back by a step
before they know whether the item is kept: (1) EndpointCollection.from_data - an operation rejected late (here: a path-item level path
parameter that is not required) still generates the inline models / enums of its body and responses; (2) Endpoint._add_responses - a
response whose schema fails half-way (a oneOf whose first member is an inline enum and whose second member is an array without items)
leaves the enum module behind; (3) body_from_data - the same for a request media type that is rejected while another one survives.
In each case the output differs from what the document with that piece deleted generates (extra modules under models/).
Run with /venv/bin/python and PYTHONPATH=<checkout>.  Exit 0 = nothing is left behind, 1 = broken."""
import shutil, sys, tempfile
from pathlib import Path
import openapi_python_client
from openapi_python_client import MetaType
from openapi_python_client.config import Config, ConfigFile


def gen(doc: str):
    tmp = Path(tempfile.mkdtemp())
    try:
        (tmp / "d.yaml").write_text(doc)
        cfg = Config.from_sources(ConfigFile(post_hooks=[]), MetaType.POETRY, tmp / "d.yaml", "utf-8", overwrite=True, output_path=tmp / "out")
        diags = openapi_python_client.generate(config=cfg)
        files = sorted(str(p.relative_to(tmp / "out")) for p in (tmp / "out").rglob("*.py"))
        return files, [(getattr(e, "header", ""), (getattr(e, "detail", "") or "")[:70]) for e in diags]
    finally:
        shutil.rmtree(tmp, ignore_errors=True)


HEAD = 'openapi: 3.0.0\ninfo: {title: t, version: "1"}\npaths:\n  /good:\n    get:\n      operationId: good\n      responses: {"200": {description: ok}}\n'
BAD_OP = """  /bad/{id}:
    parameters:
      - {name: id, in: path, required: false, schema: {type: string}}
    post:
      operationId: bad
      requestBody:
        content:
          application/json:
            schema: {type: object, properties: {a: {type: string, enum: [x, y]}}}
      responses:
        "200":
          description: ok
          content:
            application/json:
              schema: {type: object, properties: {b: {type: integer}}}
"""
HALF = "{oneOf: [{type: string, enum: [x, y]}, {type: array}]}"
OP = "  /op:\n    post:\n      operationId: op\n%s      responses:\n        \"200\": {description: ok}\n%s"
RESP = '        "404":\n          description: nf\n          content:\n            application/json:\n              schema: ' + HALF + "\n"
BODY_OK = "      requestBody:\n        content:\n          application/octet-stream:\n            schema: {type: string, format: binary}\n"
BODY_BAD = BODY_OK + "          application/json:\n            schema: " + HALF + "\n"
CASES = [
    ("operation rejected late", HEAD + BAD_OP, HEAD),
    ("response rejected half-way", HEAD + OP % ("", RESP), HEAD + OP % ("", "")),
    ("request media type rejected half-way", HEAD + OP % (BODY_BAD, ""), HEAD + OP % (BODY_OK, "")),
]
rc = 0
for label, with_piece, without in CASES:
    fb, db = gen(with_piece)
    fg, _ = gen(without)
    extra = sorted(set(fb) - set(fg))
    print(f"{label}: diagnostics {db}; left behind: {extra}")
    rc |= bool(extra)
print("CONSISTENT" if not rc else "BROKEN: a rejected piece leaves modules behind")
sys.exit(rc)
