import sys
from openapi_python_client.parser.openapi import GeneratorData
from openapi_python_client import Config, MetaType
from openapi_python_client.config import ConfigFile
from pathlib import Path
cfg = Config.from_sources(ConfigFile(), MetaType.POETRY, document_source=Path("x"), file_encoding="utf-8", overwrite=False, output_path=None)
doc = {"openapi":"3.0.0","info":{"title":"t","version":"1"},"paths":{},"components":{"schemas":{"A":{"type":"object","properties":{"b":{"$ref":"//["}}}}}}
try:
    r = GeneratorData.from_dict(doc, config=cfg)
    print("ok", type(r).__name__, getattr(r, 'errors', None))
except Exception as e:
    print("CRASH", type(e).__name__, e); sys.exit(1)
