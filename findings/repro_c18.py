"""Triage harness for C18 findings (never part of a registered check): for a (scope kind, name) pair, generate a
client from a document that uses `name` as a property / parameter name and from the same document with a neutral
name, exercise the generated code, and report whether behaviour differs (beyond the renaming).

usage: PYTHONPATH=/repo /venv/bin/python repro_c18.py model <name> | endpoint <name>
prints REPRODUCED <what> or 'not reproduced'
"""
import importlib
import json
import sys
import traceback
from pathlib import Path

sys.path.insert(0, str(Path(__file__).parent))
from _gen import base_doc, cleanup, generate  # noqa: E402

NEUTRAL = "zzneutral"


def model_doc(name: str, first: bool) -> dict:
    props = {
        "other_date": {"type": "string", "format": "date"},
        "other_list": {"type": "array", "items": {"type": "string", "format": "date"}},
        "other_union": {"oneOf": [{"type": "integer"}, {"$ref": "#/components/schemas/Inner"}]},
        "other_model": {"$ref": "#/components/schemas/Inner"},
        "other_str": {"type": "string"},
    }
    mine = {name: {"type": "string"}}
    ordered = {**mine, **props} if first else {**props, **mine}
    d = base_doc()
    d["components"]["schemas"]["Inner"] = {"type": "object", "properties": {"q": {"type": "string"}}}
    d["components"]["schemas"]["M"] = {"type": "object", "properties": ordered, "required": ["other_str"],
                                       "additionalProperties": {"type": "string", "format": "date"}}
    d["paths"] = {"/up": {"post": {"operationId": "up", "requestBody": {"content": {"multipart/form-data": {
        "schema": {"$ref": "#/components/schemas/M"}}}}, "responses": {"200": {"description": "ok"}}}}}
    return d


def exercise_model(out: Path, name: str) -> object:
    pkg = out
    sys.path.insert(0, str(out.parent))
    for k in [k for k in sys.modules if k.startswith(pkg.name)]:
        del sys.modules[k]
    try:
        mod = importlib.import_module(f"{pkg.name}.models")
        M = mod.M
        data = {name: "v1", "other_date": "2020-01-02", "other_list": ["2020-01-03"], "other_union": {"q": "x"},
                "other_model": {"q": "y"}, "other_str": "s", "extra1": "2021-01-01"}
        obj = M.from_dict(dict(data))
        enc = obj.to_dict()
        mp = obj.to_multipart() if hasattr(obj, "to_multipart") else None
        keys = sorted(mp) if mp is not None else None
        return {"enc": json.loads(json.dumps(enc).replace(name, NEUTRAL)), "mp_keys": [k.replace(name, NEUTRAL) for k in keys] if keys else None,
                "again": M.from_dict(enc) == obj, "keys": sorted(obj.additional_keys)}
    finally:
        sys.path.remove(str(out.parent))


def endpoint_doc(name: str, location: str, with_body: bool) -> dict:
    params = [{"name": name, "in": location, "required": True, "schema": {"type": "string"}},
              {"name": "other_q", "in": "query", "required": True, "schema": {"type": "string"}},
              {"name": "other_h", "in": "header", "required": True, "schema": {"type": "string"}},
              {"name": "other_c", "in": "cookie", "required": True, "schema": {"type": "string"}}]
    path = "/x/{%s}" % name if location == "path" else "/x"
    op = {"operationId": "opx", "parameters": params, "responses": {"200": {"description": "ok", "content": {
        "application/json": {"schema": {"type": "string"}}}}}}
    if with_body:
        op["requestBody"] = {"content": {"application/json": {"schema": {"type": "object", "properties": {"b": {"type": "string"}}}}}}
    return base_doc(paths={path: {"post": op}})


def exercise_endpoint(out: Path, name: str, with_body: bool) -> object:
    import asyncio

    import httpx

    pkg = out
    sys.path.insert(0, str(out.parent))
    for k in [k for k in sys.modules if k.startswith(pkg.name)]:
        del sys.modules[k]
    try:
        api = importlib.import_module(f"{pkg.name}.api.default.opx")
        client_mod = importlib.import_module(f"{pkg.name}.client")
        seen = []

        def handler(req: httpx.Request) -> httpx.Response:
            seen.append({"path": req.url.path, "q": sorted(req.url.params.multi_items()), "h": {k: v for k, v in req.headers.items() if k.startswith(("other", name.lower(), NEUTRAL))},
                         "cookie": req.headers.get("cookie"), "body": req.content.decode()})
            return httpx.Response(200, json="ok")

        c = client_mod.Client(base_url="http://t").set_httpx_client(httpx.Client(base_url="http://t", transport=httpx.MockTransport(handler)))
        c.set_async_httpx_client(httpx.AsyncClient(base_url="http://t", transport=httpx.MockTransport(handler)))
        import inspect

        sig = inspect.signature(api.sync_detailed)
        kwargs = {}
        for pname in sig.parameters:
            if pname == "client":
                kwargs[pname] = c
            elif pname == "body":
                models = importlib.import_module(f"{pkg.name}.models")
                kwargs[pname] = models.OpxBody(b="bb") if with_body and hasattr(models, "OpxBody") else "x"
            else:
                kwargs[pname] = "val_" + pname.replace(name, NEUTRAL)
        r1 = api.sync_detailed(**kwargs)
        r2 = api.sync(**kwargs) if hasattr(api, "sync") else None
        r3 = asyncio.run(api.asyncio_detailed(**kwargs))
        r4 = asyncio.run(api.asyncio(**kwargs)) if hasattr(api, "asyncio") else None
        return json.loads(json.dumps({"seen": seen, "parsed": [r1.parsed, r2, r3.parsed, r4]}).replace(name, NEUTRAL).replace(name.lower(), NEUTRAL))
    finally:
        sys.path.remove(str(out.parent))


def run(kind: str, name: str) -> str | None:
    variants = []
    if kind == "model":
        for first in (True, False):
            variants.append((lambda n, f=first: model_doc(n, f), lambda out, n: exercise_model(out, n)))
    else:
        for loc in ("query", "header", "cookie", "path"):
            for wb in (True, False):
                variants.append((lambda n, l=loc, w=wb: endpoint_doc(n, l, w), lambda out, n, w=wb: exercise_endpoint(out, n, w)))
    for mk, ex in variants:
        res = {}
        for nm in (NEUTRAL, name):
            td, out, errs = generate(mk(nm), meta="none")
            try:
                res[nm] = ("ok", ex(out, nm), [e.detail for e in errs])
            except BaseException as e:  # noqa: BLE001
                res[nm] = ("exc", f"{type(e).__name__}: {e}", traceback.format_exc().splitlines()[-3:])
            finally:
                cleanup(td)
        if res[NEUTRAL][0] != "ok":
            continue  # the control itself does not work in this variant: inconclusive
        if res[name][0] == "exc":
            return f"exception only with the name: {res[name][1]}"
        if res[name][1] != res[NEUTRAL][1]:
            return f"behaviour differs: {json.dumps(res[name][1])[:200]} vs {json.dumps(res[NEUTRAL][1])[:200]}"
    return None


if __name__ == "__main__":
    import contextlib
    import io

    kind, name = sys.argv[1], sys.argv[2]
    buf = io.StringIO()
    with contextlib.redirect_stdout(buf):
        r = run(kind, name)
    print(f"{kind} {name}: " + (f"REPRODUCED {r}" if r else "not reproduced"))
