"""C13: a declared default is neither turned into a Python default nor rejected with a diagnostic (a) on a `format: binary` string
(property_from_data hands default=None to FileProperty.build, although FileProperty.convert_value would reject any default) and
(b) on an enum whose only value is null (the builders hand the constant 'None' to NoneProperty.build whatever was declared).
Run with /venv/bin/python from /repo.  Exit 0 = every bad default is reported, 1 = silently ignored."""
import json, shutil, sys, tempfile
from pathlib import Path
import openapi_python_client
from openapi_python_client import MetaType
from openapi_python_client.config import Config, ConfigFile

DOC = {"openapi": "3.1.0", "info": {"title": "t", "version": "1"}, "paths": {},
       "components": {"schemas": {
           "A": {"type": "object", "properties": {"blob": {"type": "string", "format": "binary", "default": "x"}}},
           "B": {"type": "object", "properties": {"nothing": {"enum": [None], "default": "x"}}}}}}
tmp = Path(tempfile.mkdtemp())
try:
    (tmp / "d.json").write_text(json.dumps(DOC))
    cfg = Config.from_sources(ConfigFile(post_hooks=[]), MetaType.POETRY, tmp / "d.json", "utf-8", overwrite=True, output_path=tmp / "out")
    diags = openapi_python_client.generate(config=cfg)
    for e in diags:
        print("DIAG", getattr(e, "header", ""), "|", (getattr(e, "detail", "") or "")[:100].replace("\n", " "))
    bad = []
    for mod, attr in (("a", "blob"), ("b", "nothing")):
        p = tmp / "out" / "t_client" / "models" / f"{mod}.py"
        if p.exists():
            line = next((l.strip() for l in p.read_text().splitlines() if l.strip().startswith(f"{attr}:")), "?")
            print(f"{mod}.py:", line)
            bad.append(f"{attr}: default 'x' ignored without a diagnostic")
    print("CONSISTENT" if not bad else "BROKEN: " + "; ".join(bad))
    sys.exit(1 if bad else 0)
finally:
    shutil.rmtree(tmp, ignore_errors=True)
