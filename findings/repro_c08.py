"""Reproduction of the C08 finding: union members are built without `roots` (PYTHONPATH=/repo /venv/bin/python repro_c08.py)."""
import sys
from pathlib import Path

sys.path.insert(0, str(Path(__file__).parent))
from _gen import base_doc, cleanup, generate  # noqa: E402

d = base_doc()
d["components"]["schemas"]["Bad"] = {"type": "object", "properties": {"x": {"type": "array"}}}  # array without items: removed
d["components"]["schemas"]["Holder"] = {"type": "object", "properties": {"u": {"oneOf": [{"$ref": "#/components/schemas/Bad"}, {"type": "string"}]}}}
td, out, errs = generate(d, meta="none")
files = sorted(p.name for p in (out / "models").glob("*.py"))
holder = (out / "models" / "holder.py").read_text() if (out / "models" / "holder.py").exists() else ""
dangling = "from ..models.bad import Bad" in holder and "bad.py" not in files
print("models:", files)
print(("REPRODUCED " if dangling else "not reproduced ") + "surviving models/holder.py imports the removed models/bad.py")
cleanup(td)
