"""C01 / C05: a `number` property whose default is an infinity or NaN (YAML `.inf`, JSON `Infinity`, or the string "1e999") is
rendered as the bare name `inf` / `nan` in the generated model (`x: float = inf`), a NameError when the models package is imported.
Run with /venv/bin/python from /repo.  Exit 0 = the generated package imports (or the default was rejected with a diagnostic),
1 = broken."""
import json, shutil, subprocess, sys, tempfile
from pathlib import Path
import openapi_python_client
from openapi_python_client import MetaType
from openapi_python_client.config import Config, ConfigFile

DOC = """
openapi: 3.1.0
info: {title: t, version: "1"}
paths: {}
components:
  schemas:
    M:
      type: object
      properties:
        ratio: {type: number, default: .inf}
"""
tmp = Path(tempfile.mkdtemp())
try:
    (tmp / "d.yaml").write_text(DOC)
    cfg = Config.from_sources(ConfigFile(post_hooks=[]), MetaType.POETRY, tmp / "d.yaml", "utf-8", overwrite=True, output_path=tmp / "out")
    diags = openapi_python_client.generate(config=cfg)
    for e in diags:
        print("DIAG", getattr(e, "header", ""), "|", getattr(e, "detail", ""))
    src = (tmp / "out" / "t_client" / "models" / "m.py")
    if src.exists():
        print([line.strip() for line in src.read_text().splitlines() if "ratio:" in line][:1])
    p = subprocess.run([sys.executable, "-c", "import t_client.models"], cwd=tmp / "out", capture_output=True, text=True)
    print(p.stderr.strip().splitlines()[-1] if p.returncode else "imports")
    print("CONSISTENT" if p.returncode == 0 else "BROKEN: the generated models package cannot be imported")
    sys.exit(0 if p.returncode == 0 else 1)
finally:
    shutil.rmtree(tmp, ignore_errors=True)
