"""Triage harness for the R18.4 findings of C18 (never part of a registered check): two document names, one local of the generated code.

usage: PYTHONPATH=/repo /venv/bin/python repro_c18_holes.py
Each line shows the value that is decoded / encoded / sent for a property or parameter whose document value is "S" (controls: zeta).
"""
import datetime
import importlib
import sys
from pathlib import Path
sys.path.insert(0, str(Path(__file__).parent))
from _gen import base_doc, cleanup, generate
D = datetime.date
S, DT = {"type": "string"}, {"type": "string", "format": "date"}
LD = {"type": "array", "items": DT}
dates = [D(2020, 1, 2), D(2021, 2, 3)]

def gen(doc, sub):
    td, out, _ = generate(doc, meta="none")
    sys.path.insert(0, str(out.parent))
    for k in [k for k in sys.modules if k.startswith(out.name)]:
        del sys.modules[k]
    try:
        return importlib.import_module(f"{out.name}.{sub}"), td
    finally:
        sys.path.remove(str(out.parent))

def model(first, addl=None):
    d = base_doc()
    props = {first: S} if addl else {first: S, "tags": LD}
    d["components"]["schemas"]["M"] = {"type": "object", "required": list(props), "properties": props, **({"additionalProperties": addl} if addl else {})}
    d["paths"] = {"/up": {"post": {"operationId": "up", "requestBody": {"content": {"multipart/form-data": {"schema": {"$ref": "#/components/schemas/M"}}}},
                                   "responses": {"200": {"description": "ok"}}}}}
    mod, td = gen(d, "models")
    if addl:
        o = mod.M(**{first: "S"}); o["k"] = dates
        print(first, "+ additionalProperties array<date>: to_dict ->", o.to_dict()[first])
    else:
        print(first, "+ tags array<date>: from_dict ->", repr(getattr(mod.M.from_dict({first: "S", "tags": ["2020-01-02", "2021-02-03"]}), first)),
              "| to_dict ->", repr(mod.M(**{first: "S", "tags": dates}).to_dict()[first]),
              "| to_multipart ->", repr(mod.M(**{first: "S", "tags": dates}).to_multipart()[first]))
    cleanup(td)

def endpoint(params, kwargs):
    ps = [{"name": n, "in": "query", "required": True, "schema": s} for n, s in params]
    mod, td = gen(base_doc(paths={"/x": {"get": {"operationId": "opx", "parameters": ps, "responses": {"200": {"description": "ok"}}}}}), "api.default.opx")
    print("query", [n for n, _ in params], "->", mod._get_kwargs(**kwargs)["params"])
    cleanup(td)

model("tags_item"); model("tags_item_data"); model("zeta")
model("additional_property_item", LD); model("additional_property_item_data", LD); model("zeta", LD)
endpoint([("x", DT), ("json_x", S)], {"x": D(2020, 1, 2), "json_x": "S"})
endpoint([("tags", LD), ("tags_item", S)], {"tags": dates, "tags_item": "S"})
endpoint([("tags", LD), ("tags_item_data", S)], {"tags": dates, "tags_item_data": "S"})
