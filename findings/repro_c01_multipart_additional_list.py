"""C01: a multipart/form-data body model whose additionalProperties is an array: the generated `to_multipart` writes
`_temp_field_dict[prop_name] = []` - the list template prefixes its *destination text* with `_temp_`, and for additional
properties the destination is the expression `field_dict[prop_name]` - so calling it raises NameError (`_temp_field_dict`).
Run with /venv/bin/python and PYTHONPATH=<checkout>.  Exit 0 = to_multipart works, 1 = broken."""
import shutil, subprocess, sys, tempfile
from pathlib import Path
import openapi_python_client
from openapi_python_client import MetaType
from openapi_python_client.config import Config, ConfigFile

DOC = """
openapi: 3.1.0
info: {title: t, version: "1"}
paths:
  /u:
    post:
      operationId: up
      requestBody:
        content:
          multipart/form-data:
            schema: {$ref: "#/components/schemas/M"}
      responses: {"200": {description: ok}}
components:
  schemas:
    M:
      type: object
      properties:
        a: {type: string}
      additionalProperties: {type: array, items: {type: string}}
"""
PROG = """
from t_client.models import M
m = M(a="x")
m.additional_properties["tags"] = ["p", "q"]
print(m.to_multipart())
"""
tmp = Path(tempfile.mkdtemp())
try:
    (tmp / "d.yaml").write_text(DOC)
    cfg = Config.from_sources(ConfigFile(post_hooks=[]), MetaType.POETRY, tmp / "d.yaml", "utf-8", overwrite=True, output_path=tmp / "out")
    diags = openapi_python_client.generate(config=cfg)
    for e in diags:
        print("DIAG", getattr(e, "header", ""), "|", getattr(e, "detail", ""))
    p = subprocess.run([sys.executable, "-c", PROG], cwd=tmp / "out", capture_output=True, text=True)
    print(p.stdout.strip() or p.stderr.strip().splitlines()[-1])
    print("CONSISTENT" if p.returncode == 0 else "BROKEN: to_multipart of the generated model raises")
    sys.exit(0 if p.returncode == 0 else 1)
finally:
    shutil.rmtree(tmp, ignore_errors=True)
