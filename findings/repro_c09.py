"""Reproductions of the C09 / C07 / C14 naming findings (run: PYTHONPATH=/repo /venv/bin/python repro_c09.py)."""
import sys
from pathlib import Path

sys.path.insert(0, str(Path(__file__).parent))
from _gen import base_doc, cleanup, generate, syntax_errors  # noqa: E402
from openapi_python_client.utils import ClassName, PythonIdentifier  # noqa: E402

r = {}
r["PythonIdentifier[snake] prefixed path: 'a²' -> %r" % str(PythonIdentifier("a²", "field_"))] = not PythonIdentifier("a²", "field_").isidentifier()
r["PythonIdentifier[raw] prefixed path: 'foo bar' -> %r" % str(PythonIdentifier("foo bar", "field_", skip_snake_case=True))] = not PythonIdentifier("foo bar", "field_", skip_snake_case=True).isidentifier()
r["ClassName prefixed path: '²x' -> %r" % str(ClassName("²x", "field_"))] = not ClassName("²x", "field_").isidentifier()

d = base_doc()
d["components"]["schemas"]["M"] = {"type": "object", "properties": {"foo bar": {"type": "string"}, "foo_bar": {"type": "string"}}}
td, out, errs = generate(d)
r["model with 'foo bar' + 'foo_bar': raw-name fallback emits invalid attribute"] = bool(syntax_errors(out)) and not errs
cleanup(td)

d = base_doc()
d["components"]["schemas"]["E"] = {"type": "string", "enum": ["a²", "b"]}
td, out, errs = generate(d)
r["enum member name 'A²' invalid"] = bool(syntax_errors(out)) and not errs
cleanup(td)

d = base_doc()
d["components"]["schemas"]["E"] = {"type": "string", "enum": ["a_b", "a b"]}
td, out, errs = generate(d)
src = next(out.rglob("models/e.py")).read_text()
r["enum ['a_b','a b'] merges into one member silently (test on key, store on sanitized_key)"] = src.count(" = ") == 1 and not errs
cleanup(td)

d = base_doc()
d["components"]["schemas"]["AB"] = {"type": "object", "properties": {"x": {"type": "string"}}}
d["components"]["schemas"]["Ab"] = {"type": "object", "properties": {"y": {"type": "string"}}}
td, out, errs = generate(d)
files = [p.name for p in out.rglob("models/*.py")]
r["schemas AB + Ab -> one module file ab.py, no diagnostic: %s" % files] = files.count("ab.py") == 1 and len([f for f in files if f != "__init__.py"]) == 1 and not errs
cleanup(td)

d = base_doc()
d["components"]["schemas"]["AB"] = {"type": "string", "enum": ["x"]}
d["components"]["schemas"]["Ab"] = {"type": "string", "enum": ["y"]}
td, out, errs = generate(d)
files = [p.name for p in out.rglob("models/*.py")]
r["enums AB + Ab -> one module file: %s" % files] = len([f for f in files if f != "__init__.py"]) == 1 and not errs
cleanup(td)

resp = {"200": {"description": "ok"}}
d = base_doc(paths={"/a": {"get": {"operationId": "a b", "responses": resp}}, "/b": {"get": {"operationId": "a_b", "responses": resp}}})
td, out, errs = generate(d)
files = [p.name for p in out.rglob("api/default/*.py")]
r["operationIds 'a b' + 'a_b' -> one endpoint module: %s" % files] = len([f for f in files if f != "__init__.py"]) == 1 and not errs
cleanup(td)

for k, v in r.items():
    print(("REPRODUCED " if v else "not reproduced ") + k)
