"""C14: a nullable enum accepts every value.

`{"enum": ["a", "b", null]}` makes the property nullable: EnumProperty.build / LiteralEnumProperty.build turn it into a union of the
enum (without null) and null.  The union decoder that union_property.py.jinja generates wraps the enum member in `try: ... except: pass`
(the member has a check_type_for_construct macro and an undecoded member - null - exists) and ends with the unconditional
`return cast(Union[...], data)`: the ValueError by which `Enum(value)` / `check_<name>(value)` rejects an unlisted value is discarded
and the value is handed back as it came.  `Model.from_dict({"x": "zzz"})` therefore succeeds with x == "zzz" (statement of C14:
"decoding a value that is not listed fails instead of being passed through").  The same holds for an enum in a union with any member
that needs no decoding (string, integer, number, boolean).  Checked for Enum classes and for literal_enums, string and integer enums.
Run: PYTHONPATH=<checkout> /venv/bin/python repro_c14_nullable_enum_passthrough.py      Exit 0 = consistent, 1 = broken."""
import importlib
import json
import shutil
import sys
import tempfile
from pathlib import Path

import openapi_python_client
from openapi_python_client import MetaType
from openapi_python_client.config import Config, ConfigFile

DOC = {"openapi": "3.1.0", "info": {"title": "t", "version": "1"}, "paths": {},
       "components": {"schemas": {"M": {"type": "object", "required": ["s", "i"], "properties": {
           "s": {"enum": ["a", "b", None]},
           "i": {"enum": [1, 2, None]},
           "plain": {"type": "string", "enum": ["a", "b"]},
       }}}}}

broken = []
for literal in (False, True):
    style = "literal_enums" if literal else "Enum classes"
    tmp = Path(tempfile.mkdtemp())
    try:
        (tmp / "d.json").write_text(json.dumps(DOC))
        pkg = f"c14_nullable_{'lit' if literal else 'cls'}_client"
        cfg = Config.from_sources(ConfigFile(post_hooks=[], literal_enums=literal, package_name_override=pkg), MetaType.NONE, tmp / "d.json",
                                  "utf-8", overwrite=True, output_path=tmp / pkg)
        for e in openapi_python_client.generate(config=cfg):
            print("DIAG", getattr(e, "header", ""), "|", (getattr(e, "detail", "") or "")[:120].replace("\n", " "))
        sys.path.insert(0, str(tmp))
        try:
            M = importlib.import_module(f"{pkg}.models").M
        finally:
            sys.path.remove(str(tmp))
        good = M.from_dict({"s": "a", "i": 1, "plain": "b"})
        assert good.to_dict() == {"s": "a", "i": 1, "plain": "b"}, good.to_dict()
        assert M.from_dict({"s": None, "i": None}).to_dict() == {"s": None, "i": None}
        try:
            M.from_dict({"s": "a", "i": 1, "plain": "zzz"})
            print(f"[{style}] plain enum: unlisted 'zzz' accepted")
            broken.append(f"{style}: plain")
        except (ValueError, TypeError):
            print(f"[{style}] ok: plain (not nullable) enum rejects 'zzz'")
        for field, doc in (("s", {"s": "zzz", "i": 1}), ("i", {"s": "a", "i": 99}), ("s", {"s": 3.5, "i": 1})):
            try:
                m = M.from_dict(doc)
            except (ValueError, TypeError) as ex:
                print(f"[{style}] ok: nullable enum {field!r} rejects {doc[field]!r} ({type(ex).__name__})")
            else:
                print(f"[{style}] BROKEN: nullable enum {field!r} lists {DOC['components']['schemas']['M']['properties'][field]['enum']} but "
                      f"from_dict accepted {doc[field]!r}: decoded to {getattr(m, field)!r}")
                broken.append(f"{style}: {field}={doc[field]!r}")
    finally:
        shutil.rmtree(tmp, ignore_errors=True)

print("CONSISTENT" if not broken else f"BROKEN: nullable enums pass unlisted values through ({len(broken)} cases: {broken})")
sys.exit(0 if not broken else 1)
