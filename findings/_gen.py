"""Helper for reproduction scripts (triage only, never part of a registered check): run the real generator on a document."""
import ast
import json
import shutil
import sys
import tempfile
from pathlib import Path


def generate(doc: dict, meta="setup", config: dict | None = None, as_yaml: str | None = None):
    from openapi_python_client import generate as gen
    from openapi_python_client.config import Config, ConfigFile, MetaType

    td = Path(tempfile.mkdtemp(prefix="repro_"))
    p = td / ("doc.yaml" if as_yaml is not None else "doc.json")
    p.write_text(as_yaml if as_yaml is not None else json.dumps(doc))
    out = td / "out"
    cfg = Config.from_sources(ConfigFile(post_hooks=[], **(config or {})), MetaType(meta), p, "utf-8", True, output_path=out)
    errs = gen(config=cfg)
    return td, out, errs


def base_doc(**kw):
    d = {"openapi": "3.0.3", "info": {"title": "t", "version": "1.0"}, "paths": {}, "components": {"schemas": {}}}
    d.update(kw)
    return d


def syntax_errors(out: Path):
    bad = []
    for f in out.rglob("*.py"):
        try:
            ast.parse(f.read_text())
        except SyntaxError as e:
            bad.append((str(f.relative_to(out)), str(e)))
    return bad


def canary_outside_strings(out: Path, canary: str):
    hits = []
    for f in out.rglob("*.py"):
        try:
            tree = ast.parse(f.read_text())
        except SyntaxError:
            continue
        for n in ast.walk(tree):
            if isinstance(n, ast.Name) and canary in n.id:
                hits.append((str(f.relative_to(out)), n.lineno))
            if isinstance(n, ast.Attribute) and canary in n.attr:
                hits.append((str(f.relative_to(out)), n.lineno))
    return hits


def cleanup(td):
    shutil.rmtree(td, ignore_errors=True)
