"""C01 (and C14): an OPTIONAL property with a boolean / null const generated `if flag != Trueand not isinstance(flag, Unset):` - the
template glued the keyword `and` to the interpolated value - so the model module was a SyntaxError and the package could not be
imported.  Run with /venv/bin/python from /repo.  Exit 0 = the generated model imports and admits the const, 1 = broken."""
import json, shutil, sys, tempfile
from pathlib import Path
import openapi_python_client
from openapi_python_client import MetaType
from openapi_python_client.config import Config, ConfigFile

DOC = {"openapi": "3.1.0", "info": {"title": "t", "version": "1"}, "paths": {},
       "components": {"schemas": {"M": {"type": "object", "properties": {"flag": {"const": True}, "kind": {"const": "x"}}}}}}
tmp = Path(tempfile.mkdtemp())
try:
    (tmp / "d.json").write_text(json.dumps(DOC))
    cfg = Config.from_sources(ConfigFile(post_hooks=[]), MetaType.POETRY, tmp / "d.json", "utf-8", overwrite=True, output_path=tmp / "out")
    for e in openapi_python_client.generate(config=cfg):
        print("DIAG", getattr(e, "header", ""), "|", getattr(e, "detail", ""))
    src = (tmp / "out" / "t_client" / "models" / "m.py").read_text()
    print([line.strip() for line in src.splitlines() if "!=" in line])
    try:
        compile(src, "m.py", "exec")
    except SyntaxError as ex:
        print("BROKEN: generated models/m.py does not compile:", ex)
        sys.exit(1)
    sys.path.insert(0, str(tmp / "out"))
    from t_client.models.m import M
    print(M.from_dict({"flag": True, "kind": "x"}), M.from_dict({}))
    print("CONSISTENT")
finally:
    shutil.rmtree(tmp, ignore_errors=True)
