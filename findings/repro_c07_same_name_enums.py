"""C07 (R07.12): two component enum schemas whose names derive the same class name (`Status` / `status`) and whose values are equal
are collapsed into the single class `Status`: the enum builders (EnumProperty.build, LiteralEnumProperty.build) reuse a registered
enum of the same name and the same values and return success, so no diagnostic names either schema.  The same pair with different
values, and the same pair of object schemas, are diagnosed ("Attempted to generate duplicate ...") - they are the control.
Both enum styles are covered (class enums, `literal_enums: true`).
Run: PYTHONPATH=<checkout> /venv/bin/python repro_c07_same_name_enums.py.  Exit 0 = every schema has a class of its own or is
named in a diagnostic, 1 = broken (a schema vanished silently)."""
import re
import sys
from pathlib import Path

sys.path.insert(0, str(Path(__file__).parent))
from _gen import base_doc, cleanup, generate  # noqa: E402
from openapi_python_client.utils import ClassName  # noqa: E402

SCHEMAS = {
    # same derived class name, same values: merged silently (the finding)
    "Status": {"type": "string", "enum": ["open", "closed"]},
    "status": {"type": "string", "enum": ["open", "closed"]},
    # controls: same derived class name, different values / object schemas - the second one is diagnosed
    "Colour": {"type": "string", "enum": ["red", "green"]},
    "colour": {"type": "string", "enum": ["red", "blue"]},
    "Address": {"type": "object", "properties": {"street": {"type": "string"}}},
    "address": {"type": "object", "properties": {"street": {"type": "string"}}},
}


def named(name: str, diags) -> bool:
    pat = re.compile(rf"/components/schemas/{re.escape(name)}(?![\w-])")
    return any(pat.search(f"{getattr(d, 'header', '')}\n{getattr(d, 'detail', '') or ''}") for d in diags)


broken = False
for style, config in (("class enums", {}), ("literal enums", {"literal_enums": True})):
    doc = base_doc()
    doc["components"]["schemas"] = dict(SCHEMAS)
    td, out, diags = generate(doc, meta="none", config=config)
    try:
        by_class: dict[str, list[str]] = {}
        for name in SCHEMAS:
            by_class.setdefault(str(ClassName(name, "field_")), []).append(name)
        for cls, names in by_class.items():
            silent = [n for n in names if not named(n, diags)]
            # one schema owns the class; every other schema that derives the same class name must be named in a diagnostic
            ok = len(silent) <= 1
            broken = broken or not ok
            print(f"[{style}] class {cls}: schemas {names}, named in a diagnostic {[n for n in names if n not in silent]}"
                  + ("" if ok else f"  <- REPRODUCED: {silent} share one class and no diagnostic names any of them"))
    finally:
        cleanup(td)
print("broken: a component schema vanished silently" if broken else "consistent: every schema has its own class or a diagnostic")
sys.exit(1 if broken else 0)
