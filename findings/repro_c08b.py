import json, shutil, sys, tempfile
from pathlib import Path
import openapi_python_client
from openapi_python_client import MetaType
from openapi_python_client.config import Config, ConfigFile
DOC = {"openapi": "3.0.3", "info": {"title": "t", "version": "1"},
 "paths": {"/ab": {"get": {"operationId": "getAb", "responses": {"200": {"description": "ok", "content": {"application/json": {"schema": {"$ref": "#/components/schemas/AB"}}}}}}}},
 "components": {"schemas": {
   "AB": {"type": "object", "properties": {"x": {"type": "string"}}},
   "A": {"type": "object", "properties": {"b": {"type": "object", "properties": {"y": {"type": "string"}}}}},
 }}}
tmp = Path(tempfile.mkdtemp())
try:
    (tmp/"d.json").write_text(json.dumps(DOC))
    cfg = Config.from_sources(ConfigFile(post_hooks=[]), MetaType.POETRY, tmp/"d.json", "utf-8", overwrite=True, output_path=tmp/"out")
    errs = openapi_python_client.generate(config=cfg)
    for e in errs: print("DIAG", getattr(e,'header',''), '|', (getattr(e,'detail','') or '')[:120].replace('\n',' '))
    models = sorted(p.name for p in (tmp/"out"/"t_client"/"models").glob("*.py"))
    print("models:", models)
    api = (tmp/"out"/"t_client"/"api"/"default"/"get_ab.py")
    print("api imports AB:", "models.ab import AB" in api.read_text() if api.exists() else "no api module")
    ok = ("ab.py" in models) == (api.exists() and "models.ab import AB" in api.read_text())
    print("CONSISTENT" if ok else "BROKEN: endpoint imports a model module that was not generated")
    sys.exit(0 if ok else 1)
finally:
    shutil.rmtree(tmp, ignore_errors=True)
