"""C08 (and C15): a child composed with allOf rewrites the PARENT's property object in place, so the parent's module depends on the
child - also when the child is invalid and removed.  (a) _merge_same_type assigns the merged item type onto the inherited
ListProperty; (b) _resolve_naming_conflict calls set_python_name on the property object shared with the parent.
Run with /venv/bin/python from /repo.  Exit 0 = the parent module is the same with and without the (bad) child, 1 = broken."""
import json, shutil, sys, tempfile
from pathlib import Path
import openapi_python_client
from openapi_python_client import MetaType
from openapi_python_client.config import Config, ConfigFile


def parent_module(schemas: dict) -> str:
    doc = {"openapi": "3.1.0", "info": {"title": "t", "version": "1"}, "paths": {}, "components": {"schemas": schemas}}
    tmp = Path(tempfile.mkdtemp())
    try:
        (tmp / "d.json").write_text(json.dumps(doc))
        cfg = Config.from_sources(ConfigFile(post_hooks=[]), MetaType.POETRY, tmp / "d.json", "utf-8", overwrite=True, output_path=tmp / "out")
        openapi_python_client.generate(config=cfg)
        return (tmp / "out" / "t_client" / "models" / "parent.py").read_text()
    finally:
        shutil.rmtree(tmp, ignore_errors=True)


bad = []
P1 = {"type": "object", "properties": {"tags": {"type": "array", "items": {"type": "string", "enum": ["a", "b", "c"]}}}}
C1 = {"allOf": [{"$ref": "#/components/schemas/Parent"}, {"type": "object", "properties": {
    "tags": {"type": "array", "items": {"type": "string", "enum": ["a", "b"]}}, "zzz": {"type": "array"}}}]}
if parent_module({"Parent": P1}) != parent_module({"Parent": P1, "Child": C1}):
    bad.append("(a) models/parent.py changes when an invalid child narrows the inherited list's item enum")
P2 = {"type": "object", "properties": {"fooBar": {"type": "string"}}}
C2 = {"allOf": [{"$ref": "#/components/schemas/Parent"}, {"type": "object", "properties": {"foo_bar": {"type": "string"}, "zzz": {"type": "array"}}}]}
if parent_module({"Parent": P2}) != parent_module({"Parent": P2, "Child": C2}):
    bad.append("(b) models/parent.py renames its field when an invalid child declares a colliding property name")
print("CONSISTENT" if not bad else "BROKEN: " + "; ".join(bad))
sys.exit(1 if bad else 0)
