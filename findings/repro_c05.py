"""Reproductions of the C05 findings listed in known_findings.json (run: PYTHONPATH=/repo /venv/bin/python repro_c05.py)."""
import sys
from pathlib import Path

sys.path.insert(0, str(Path(__file__).parent))
from _gen import base_doc, canary_outside_strings, cleanup, generate, syntax_errors  # noqa: E402

results = {}


def op(path="/x", **kw):
    o = {"operationId": "getx", "responses": {"200": {"description": "ok"}}}
    o.update(kw)
    return {path: {"get": o}}


# package_version -> setup.py / pyproject.toml
d = base_doc()
d["info"]["version"] = '1.0", evil=CANARY_V, x="'
td, out, errs = generate(d)
results["version in setup.py"] = bool(canary_outside_strings(out, "CANARY_V"))
cleanup(td)

# model description / property description / example -> docstrings
d = base_doc()
d["components"]["schemas"]["M"] = {"type": "object", "description": 'x """ + CANARY_D + """ y',
                                   "properties": {"a": {"type": "string", "description": 'p """ + CANARY_P + """ q',
                                                        "example": 'e """ + CANARY_E + """ f'}}}
td, out, errs = generate(d)
results["model.description in docstring"] = bool(canary_outside_strings(out, "CANARY_D"))
results["property.description/example via to_docstring"] = bool(canary_outside_strings(out, "CANARY_P")) or bool(canary_outside_strings(out, "CANARY_E"))
cleanup(td)
d = base_doc()
d["components"]["schemas"]["M"] = {"type": "object", "example": 'e """ + CANARY_ME + """ f', "properties": {"a": {"type": "string"}}}
td, out, errs = generate(d)
results["model.example in docstring"] = bool(canary_outside_strings(out, "CANARY_ME"))
cleanup(td)
d = base_doc()
d["components"]["schemas"]["M"] = {"type": "object", "properties": {"a": {"type": "string", "description": 'p """ + CANARY_PA + """ q'}}}
td, out, errs = generate(d, config={"docstrings_on_attributes": True})
results["property.description via safe_docstring (docstrings_on_attributes)"] = bool(canary_outside_strings(out, "CANARY_PA"))
cleanup(td)

# endpoint.path / content_type
d = base_doc(paths=op('/x" + CANARY_PATH + "'))
td, out, errs = generate(d)
results["endpoint.path"] = bool(canary_outside_strings(out, "CANARY_PATH")) or bool(syntax_errors(out))
cleanup(td)
d = base_doc(paths=op(requestBody={"content": {'application/json; a="b" + CANARY_CT + "c"': {"schema": {"type": "string"}}}}))
td, out, errs = generate(d)
results["body.content_type"] = bool(canary_outside_strings(out, "CANARY_CT")) or bool(syntax_errors(out))
cleanup(td)

# escape inadequate: backslash before quote in a property name
d = base_doc()
d["components"]["schemas"]["M"] = {"type": "object", "properties": {'a\\"]; CANARY_N; x["': {"type": "string"}}}
td, out, errs = generate(d)
results["remove_string_escapes vs backslash (STR1)"] = bool(canary_outside_strings(out, "CANARY_N")) or bool(syntax_errors(out))
cleanup(td)
d = base_doc()
d["info"]["title"] = "t\\"
td, out, errs = generate(d, meta="poetry")
import tomllib
try:
    tomllib.loads((out / "pyproject.toml").read_text())
    results["remove_string_escapes vs backslash (TOML)"] = False
except Exception:
    results["remove_string_escapes vs backslash (TOML)"] = True
cleanup(td)

# const f-string
d = base_doc()
d["components"]["schemas"]["M"] = {"type": "object", "properties": {"a{CANARY_F}": {"const": "v"}, "b": {"const": 'q"{CANARY_G}'}}}
td, out, errs = generate(d)
results["const f-string (name / python_code)"] = bool(canary_outside_strings(out, "CANARY_F")) or bool(canary_outside_strings(out, "CANARY_G")) or bool(syntax_errors(out))
cleanup(td)

# literal enum default repr in docstring
d = base_doc()
v = 'x""" + CANARY_L + """'
d["components"]["schemas"]["M"] = {"type": "object", "properties": {"a": {"type": "string", "enum": [v, "y"], "default": v}}}
td, out, errs = generate(d, config={"literal_enums": True})
results["PYREPR default in docstring (literal enum)"] = bool(canary_outside_strings(out, "CANARY_L")) or bool(syntax_errors(out))
cleanup(td)

# uuid default
d = base_doc()
d["components"]["schemas"]["M"] = {"type": "object", "properties": {"a": {"type": "string", "format": "uuid", "default": "\n1234567890abcdef1234567890abcde"}}}
td, out, errs = generate(d)
results["uuid default pasted"] = bool(syntax_errors(out))
cleanup(td)

# string default double escape
d = base_doc()
d["components"]["schemas"]["M"] = {"type": "object", "properties": {"a": {"type": "string", "default": 'a"b'}}}
td, out, errs = generate(d)
src = (out / "t_client" / "models" / "m.py").read_text() if (out / "t_client").exists() else ""
import re
m = re.search(r"a: Union\[Unset, str\] = (.*)", src)
val = eval(m.group(1)) if m else None
results["string default double-escaped (value differs)"] = val != 'a"b'
cleanup(td)

for k, v in results.items():
    print(("REPRODUCED " if v else "not reproduced ") + k)
