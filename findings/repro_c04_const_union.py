"""C04: const_property.py.jinja has a `construct` macro but no `check_type_for_construct`, so the union decoder emits a const member's
construct outside try/except and without a type test wherever it stands: a response `oneOf [const "a", const "b", integer]` whose
body is "b" or 3 raises ValueError out of the response parser instead of being decoded by the later alternative.
Run with /venv/bin/python from /repo.  Exit 0 = every documented alternative decodes, 1 = broken."""
import json, shutil, sys, tempfile
from pathlib import Path
import openapi_python_client
from openapi_python_client import MetaType
from openapi_python_client.config import Config, ConfigFile

DOC = {"openapi": "3.1.0", "info": {"title": "t", "version": "1"},
       "paths": {"/x": {"get": {"operationId": "getX", "responses": {"200": {"description": "ok", "content": {"application/json": {
           "schema": {"oneOf": [{"const": "a"}, {"const": "b"}, {"type": "integer"}]}}}}}}}}}
tmp = Path(tempfile.mkdtemp())
try:
    (tmp / "d.json").write_text(json.dumps(DOC))
    cfg = Config.from_sources(ConfigFile(post_hooks=[]), MetaType.POETRY, tmp / "d.json", "utf-8", overwrite=True, output_path=tmp / "out")
    for e in openapi_python_client.generate(config=cfg):
        print("DIAG", getattr(e, "header", ""), "|", (getattr(e, "detail", "") or "")[:100])
    sys.path.insert(0, str(tmp / "out"))
    import httpx
    from t_client import Client
    from t_client.api.default import get_x
    bad = []
    for body in ("a", "b", 3):
        client = Client(base_url="http://t").with_headers({})
        client.set_httpx_client(httpx.Client(base_url="http://t", transport=httpx.MockTransport(lambda req, body=body: httpx.Response(200, json=body))))
        try:
            got = get_x.sync(client=client)
            print(f"body {body!r} -> {got!r}")
            if got != body:
                bad.append(f"{body!r} decoded as {got!r}")
        except Exception as ex:  # noqa: BLE001
            print(f"body {body!r} -> raised {type(ex).__name__}: {ex}")
            bad.append(f"{body!r} raised {type(ex).__name__}")
    print("CONSISTENT" if not bad else "BROKEN: " + "; ".join(bad))
    sys.exit(1 if bad else 0)
finally:
    shutil.rmtree(tmp, ignore_errors=True)
