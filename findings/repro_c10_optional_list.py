"""C10: an OPTIONAL array property that is absent from the payload is decoded to [] (not UNSET) by the generated from_dict, and
to_dict then transmits `"tags": []`: 'absent' is not distinguishable from 'present and empty'.  Run with /venv/bin/python from
/repo.  Exit 0 = absent reads back as UNSET and is not transmitted, 1 = broken."""
import json, shutil, sys, tempfile
from pathlib import Path
import openapi_python_client
from openapi_python_client import MetaType
from openapi_python_client.config import Config, ConfigFile

DOC = {"openapi": "3.1.0", "info": {"title": "t", "version": "1"}, "paths": {},
       "components": {"schemas": {"M": {"type": "object", "properties": {
           "tags": {"type": "array", "items": {"type": "string", "format": "date"}}, "n": {"type": "integer"}}}}}}
tmp = Path(tempfile.mkdtemp())
try:
    (tmp / "d.json").write_text(json.dumps(DOC))
    cfg = Config.from_sources(ConfigFile(post_hooks=[]), MetaType.POETRY, tmp / "d.json", "utf-8", overwrite=True, output_path=tmp / "out")
    for e in openapi_python_client.generate(config=cfg):
        print("DIAG", getattr(e, "header", ""), "|", getattr(e, "detail", ""))
    sys.path.insert(0, str(tmp / "out"))
    from t_client.models.m import M
    from t_client.types import UNSET
    m = M.from_dict({})
    print("decoded:", m, "-> re-encoded:", m.to_dict())
    ok = m.tags is UNSET and m.n is UNSET and m.to_dict() == {}
    print("CONSISTENT" if ok else "BROKEN: the absent optional list reads back as [] and is transmitted")
    sys.exit(0 if ok else 1)
finally:
    shutil.rmtree(tmp, ignore_errors=True)
