#!/venv/bin/python
"""Maintenance helper (never run by a check): prepares a hardening round - one git worktree of /verif (branch h<N>-<PROP>) and one task
file per rule module that has items of wave N: the refactorings on which its check changed its verdict at arrival, and the changes of
its property that its check did not report.
usage: mk_hardening.py <N> [notes.json]     -> /tmp/vw/<PROP> (worktree), /tmp/h<N>/<PROP>.md"""
import glob
import json
import os
import re
import subprocess
import sys
from pathlib import Path

V = Path(__file__).resolve().parent.parent
N = int(sys.argv[1])
NOTES = json.loads(Path(sys.argv[2]).read_text()) if len(sys.argv) > 2 else {}
props = [c["property_id"] for c in json.loads((V / "MANIFEST.json").read_text())["checks"]]
ref: dict[str, list] = {}
for m in sorted(glob.glob(str(V / "refactors" / "*-*" / "meta.json"))):
    d = json.load(open(m))
    rid = m.split("/")[-2]
    if d.get("wave") != N:
        continue
    v = str(d.get("verdict_at_arrival") or d.get("verdict") or "")
    for mm in re.finditer(r'"(C\d\d)": \{"rc": \["rc=\d", "rc=(\d)"\], "reports": \[(.*?)(?:\]\}|$)', v):
        reps = re.findall(r'"((?:[^"\\]|\\.)*)"', mm.group(3))
        ref.setdefault(mm.group(1), []).append((rid, d["title"], "rc=" + mm.group(2), reps[:4]))
seeds: dict[str, list] = {}
for m in sorted(glob.glob(str(V / "seeded" / "C*-*" / "meta.json"))):
    d = json.load(open(m))
    if d.get("wave") != N:
        continue
    sid = m.split("/")[-2]
    cb = [c["property"] for c in d.get("caught_by", [])]
    if d["property"] not in cb:
        seeds.setdefault(d["property"], []).append((sid, d["title"], cb))
os.makedirs(f"/tmp/h{N}", exist_ok=True)
os.makedirs("/tmp/vw", exist_ok=True)
for p in props:
    if not ref.get(p) and not seeds.get(p):
        continue
    d = f"/tmp/vw/{p}"
    if not os.path.exists(d):
        subprocess.check_call(["git", "-C", str(V), "worktree", "add", "-q", "-b", f"h{N}-{p}", d, "HEAD"])
    refs_txt = "\n".join(f"* `refactors/{rid}` - {t}\n  now exit {rc[-1]}: {'; '.join(r[:160] for r in rep)}" for rid, t, rc, rep in ref.get(p, [])) or "(none this round)"
    seeds_txt = "\n".join(
        f"* `seeded/{sid}` - {t}\n  reported by other checks: {cb or 'none'}. My note: "
        f"{NOTES.get(sid, 'decide whether the broken mechanism is a structural necessary condition that a general rule can state.')}"
        for sid, t, cb in seeds.get(p, [])) or "(none this round)"
    txt = f"""# Hardening round {N} - property {p}

Your working directory is `{d}` - a git worktree (branch `h{N}-{p}`) of the static-analysis checkers for openapi-python-client.
Work ONLY there (plus scratch dirs under /tmp/h{N}w/{p}/ that you remove afterwards). **Read `selftest/HARDENING.md` first** - it is the rulebook
(what the two tests are, what a good fix looks like, what is forbidden) - then the entry of {p} in `properties.jsonl`, then `sa/rules/{p.lower()}.py`.
`DESIGN.md` §3 (conventions) and §4 ({p}) give the intent of each rule. Never modify `/repo` (not even temporarily: other workers test against it). Static analysis only:
a check reads source and never imports or runs anything of `/repo`.

You own `sa/rules/{p.lower()}.py` (and rule-private helper modules only it uses). Shared rule helpers (`sa/rules/registries.py`, `inplace.py`, `siblings.py`,
`scenario.py`, `effects.py`, `glue.py`, `determinants.py`, `rejected_items.py`) and `sa/astutil.py`, `sa/cfg.py`, `sa/tplq.py`, `sa/pe.py` may be changed only additively and
minimally (other workers edit other modules in parallel; your branch will be merged). The engines `sa/skeleton.py`, `sa/skelscan.py`, `sa/jinja_interp.py`,
`sa/jinja_canon.py`, `sa/absint.py`, `sa/domain.py`, `sa/pyindex.py`, `sa/charclass.py`, `sa/lexstate.py`, `sa/core.py`, `sa/context.py` are NOT yours: if the root cause of an
item lies there, tell me at once (SendMessage to `main`: which engine function, which construct) and go on with the other items.
Do not edit `known_findings.json`, `MANIFEST.json`, `DESIGN.md`, `seeded/`, `refactors/` (if a known finding must be re-keyed because a rule's key changes, list the old and
new key in full in your report). The machine is shared with ~17 other workers: run the self-tests with `VERIF_JOBS=4`, prefer `--only <ids>` while iterating.

## Items of this round (all new, written by people who never saw the checkers)

### Behaviour-preserving refactorings on which `./check {p}` changes its verdict (must become silent: same exit code and same KNOWN-FINDING lines as on /repo)
{refs_txt}

### Property-breaking changes of {p} that `./check {p}` does not report (each confirmed: tests pass, demo fails with the patch)
{seeds_txt}

## What to do

1. For each refactoring above: find out why the rule changes its verdict, and generalise the rule (HARDENING.md: region, paths, value flow, roles) so that it
   is silent there - without losing any seed it reports today and without special-casing the refactoring. If a clause cannot be made both robust and meaningful, drop it and say so.
2. For each missed seed: decide whether the broken mechanism is a structural necessary condition of {p} that a general rule can state for all inputs. If yes, add or
   generalise a rule (test it on two or three *other* ways of making the same mistake and on correct rewrites - by hand, on scratch copies). If it is value-level
   behaviour no static rule here can bound, say so in one sentence. Never write a rule that recognises one patch. An ANALYSIS-ERROR (exit 2) on a seed is not a report.
   A new rule that fires on the unchanged /repo has found either a genuine defect (give me the failing input as a `findings/repro_*.py` script on your branch and the
   construct keys; do not add it to known findings yourself) or is wrong.
3. Keep everything else green: `selftest/refactor_silent.py {p}` (all stored refactorings), `selftest/seeded_fire.py {p}` (all stored seeds of {p}: nothing that fires today
   may stop firing), `./check {p}` on /repo exits 0, and at the very end the eight mechanical variants for {p}.
4. Commit to your branch as you go (`git add -A && git commit`). Budget: about 75 minutes of wall time; stop then even if items remain, and say which.

Final message (short): per item - fixed how (rule id, the general statement) / out of reach because ... / engine cause (where); new or changed rule texts; re-keyed known findings
(old -> new, full keys); genuine defects of /repo you came across (with the failing input); anything left red.
"""
    Path(f"/tmp/h{N}/{p}.md").write_text(txt)
    print(p, len(ref.get(p, [])), len(seeds.get(p, [])))
