#!/venv/bin/python
"""Regenerates the machine-written parts of DESIGN.md (between `<!-- BEGIN GENERATED:x -->` / `<!-- END GENERATED:x -->` markers)
from what is actually on disk: evidence/*.json (rules as implemented, instance counts), seeded/*/meta.json (which checks report
which seeded change), refactors/*/meta.json (behaviour-preserving changes on which every check stays silent) and
known_findings.json (dispositions).  Nothing is typed by hand, so the tables cannot drift from the machinery."""
import json
import re
from pathlib import Path

V = Path(__file__).resolve().parent.parent


def rules_table() -> str:
    out = []
    for ev in sorted((V / "evidence").glob("C*.json")):
        d = json.loads(ev.read_text())
        c = d["coverage"]
        out.append(f"**{d['property_id']}** — {c['obligations']} obligations ({c['distinct_nontrivial']} distinct non-trivial), "
                   f"{c['discharged']} discharged, {len(c.get('known_findings_hit', []))} known findings; floors/instances: "
                   + ", ".join(f"{k}={v}" for k, v in sorted(c.get("indexed", {}).items()) if not isinstance(v, (list, dict))) + ".")
        out.append("")
        for rid, txt in sorted(c.get("rules", {}).items()):
            pr = c.get("per_rule", {}).get(rid, {})
            out.append(f"* `{rid}` ({pr.get('obligations', 0)} obl.) — {txt}")
        nd = c.get("not_decided", [])
        if nd:
            out.append(f"* *not decided:* {'; '.join(nd)}")
        out.append("")
    return "\n".join(out)


def seeds_table() -> str:
    rows = ["| seed | change (as described by its author) | files | reported by (first rule of each check) |", "|---|---|---|---|"]
    for d in sorted((V / "seeded").iterdir()):
        mp = d / "meta.json"
        if not mp.exists():
            continue
        m = json.loads(mp.read_text())
        files = ", ".join(Path(f).name for f in (m.get("files") or []))
        cb = []
        for c in m.get("caught_by", []):
            first = (c.get("findings") or [""])[0]
            first = re.sub(r"\s+", " ", first)[:90]
            own = "**" if c["property"] == m["property"] else ""
            cb.append(f"{own}{c['property']}{own}: `{first}`")
        title = (m.get("title") or "").replace("|", "/")
        rows.append(f"| {d.name} | {title} | {files} | {'<br>'.join(cb)} |")
    return "\n".join(rows)


def refactors_table() -> str:
    rdir = V / "refactors"
    if not rdir.is_dir():
        return "(none yet)"
    rows = ["| refactoring (round) | what was restructured | files | at arrival | now |", "|---|---|---|---|---|"]
    for d in sorted(rdir.iterdir()):
        mp = d / "meta.json"
        if not mp.exists():
            continue
        m = json.loads(mp.read_text())
        files = ", ".join(Path(f).name for f in (m.get("files") or []))
        def short(v: object) -> str:
            v = str(v or "?")
            if v.startswith("SILENT"):
                return "silent"
            mm = re.findall(r"\b(C\d\d)\b", v.split(":", 1)[0] if v.startswith("DIFFERS for") else v)
            return "differs: " + ", ".join(sorted(set(mm))) if mm else v[:80]

        rows.append(f"| {d.name} ({m.get('wave', 1)}) | {(m.get('title') or '').replace('|', '/')[:160]} | {files} | "
                    f"{short(m.get('verdict_at_arrival'))} | {short(m.get('verdict'))} |")
    n_arr = {1: [0, 0], 2: [0, 0], 3: [0, 0], 4: [0, 0], 5: [0, 0], 6: [0, 0]}
    for d in sorted(rdir.iterdir()):
        mp = d / "meta.json"
        if mp.exists():
            m = json.loads(mp.read_text())
            w = m.get("wave", 1)
            n_arr.setdefault(w, [0, 0])
            n_arr[w][0] += 1 if str(m.get("verdict_at_arrival", "")).startswith("SILENT") else 0
            n_arr[w][1] += 1 if str(m.get("verdict", "")).startswith("SILENT") else 0
    tot = {w: sum(1 for d in rdir.iterdir() if (d / "meta.json").exists() and json.loads((d / "meta.json").read_text()).get("wave", 1) == w)
           for w in n_arr}
    rows.append("")
    has_arr = {w: any((d / "meta.json").exists() and json.loads((d / "meta.json").read_text()).get("wave", 1) == w
                      and json.loads((d / "meta.json").read_text()).get("verdict_at_arrival") is not None for d in rdir.iterdir()) for w in n_arr}
    rows.append("Silent for all 18 checks: " + "; ".join(
        f"round {w}: " + (f"{a} of {tot[w]} at arrival, " if has_arr[w] else "(at arrival: see the text above) ") + f"{b} of {tot[w]} now"
        for w, (a, b) in sorted(n_arr.items()) if tot[w]) + ".")
    return "\n".join(rows)


def findings_table() -> str:
    d = json.loads((V / "known_findings.json").read_text())
    rows = ["| property · rule | construct | disposition | what fails |", "|---|---|---|---|"]
    for f in d.get("fixed", []):
        what = f["line"].split(f["commit"], 1)[-1].strip().replace("|", "/")
        rows.append(f"| {f['property']} · {f['rule']} | `{f['construct'][:90]}` | **fixed** `{f['commit']}` | {what[:260]} |")
    groups: dict[tuple[str, str], list[dict]] = {}
    for k in d.get("known", []):
        groups.setdefault((k["property"], k["rule"]), []).append(k)
    for (p, r), ks in sorted(groups.items()):
        if len(ks) > 4:
            ex = "; ".join(f"`{k['construct'][:60]}`" for k in ks[:3])
            rows.append(f"| {p} · {r} | {len(ks)} constructs, e.g. {ex} | known | {ks[0].get('what', '')[:200].replace('|', '/')} |")
        else:
            for k in ks:
                rows.append(f"| {p} · {r} | `{k['construct'][:90]}` | known | {k.get('what', '')[:220].replace('|', '/')} |")
    return "\n".join(rows)


def waves_table() -> str:
    waves = ("w1", "w2", "w3", "w4", "w5", "w6")

    def wave_of(n: int) -> str:
        return "w1" if n <= 3 else "w2" if n <= 6 else "w3" if n <= 9 else "w4" if n <= 11 else "w5" if n <= 13 else "w6"

    per: dict[str, dict[str, list[int]]] = {}
    unreported = []
    other_only = []
    for d in sorted((V / "seeded").iterdir(), key=lambda x: (x.name.split("-")[0], int(x.name.split("-")[1]) if "-" in x.name and x.name.split("-")[1].isdigit() else 0)):
        mp = d / "meta.json"
        if not mp.exists():
            continue
        m = json.loads(mp.read_text())
        prop, n = d.name.split("-")
        wave = wave_of(int(n))
        cb = [c["property"] for c in m.get("caught_by", [])]
        arr = m.get("caught_by_at_arrival")
        if arr is not None:
            arr = [c["property"] if isinstance(c, dict) else c for c in arr]
        row = per.setdefault(prop, {w: [0, 0, 0, 0, 0] for w in waves})
        row[wave][0] += 1
        row[wave][1] += 1 if prop in cb else 0
        row[wave][2] += 1 if cb else 0
        row[wave][3] += 1 if arr is not None and prop in arr else 0
        row[wave][4] += 1 if arr else 0
        if not cb:
            unreported.append(f"* **{d.name}** — {(m.get('title') or '')[:200]}")
        elif prop not in cb:
            other_only.append(f"{d.name} ({', '.join(cb)})")
    rows = ["| property | round 1 now (own / any) | round 2 at arrival | round 2 now | round 3 at arrival | round 3 now | round 4 at arrival | round 4 now | round 5 at arrival | round 5 now | round 6 at arrival | round 6 now |",
            "|---|---|---|---|---|---|---|---|---|---|---|---|"]
    tot = {w: [0, 0, 0, 0, 0] for w in waves}
    for prop, r in sorted(per.items()):
        rows.append(f"| {prop} | {r['w1'][1]} / {r['w1'][2]} | " + " | ".join(f"{r[w][3]} / {r[w][4]} | {r[w][1]} / {r[w][2]}" for w in waves[1:]) + " |")
        for w in waves:
            for i in range(5):
                tot[w][i] += r[w][i]
    rows.append(f"| **all** | **{tot['w1'][1]} / {tot['w1'][2]}** of {tot['w1'][0]} | "
                + " | ".join(f"**{tot[w][3]} / {tot[w][4]}** of {tot[w][0]} | **{tot[w][1]} / {tot[w][2]}**" for w in waves[1:]) + " |")
    out = "\n".join(rows)
    out += "\n\nReported only by the check of another property: " + ("; ".join(other_only) if other_only else "none") + "."
    out += "\n\nNot reported by any check:\n\n" + ("\n".join(unreported) if unreported else "(none)")
    return out


GEN = {"rules": rules_table, "seeds": seeds_table, "refactors": refactors_table, "findings": findings_table, "waves": waves_table}


def main() -> None:
    p = V / "DESIGN.md"
    s = p.read_text()
    for name, fn in GEN.items():
        b, e = f"<!-- BEGIN GENERATED:{name} -->", f"<!-- END GENERATED:{name} -->"
        if b in s and e in s:
            s = s[: s.index(b) + len(b)] + "\n" + fn() + "\n" + s[s.index(e):]
    p.write_text(s)
    print("DESIGN.md tables regenerated")


if __name__ == "__main__":
    main()
