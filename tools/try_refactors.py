#!/venv/bin/python
"""Behaviour-preserving refactorings (written by sub-agents that saw nothing of /verif) as a false-alarm test.

For each candidate <root>/out_<AREA>/<n>/{patch.diff, meta.json}: scratch git worktree of /repo HEAD (outside /repo and /verif, removed
afterwards), apply the patch, run the 403-test baseline, run `./check ALL --root <worktree>` and compare with the verdict on /repo:
exit codes, KNOWN-FINDING lines, obligation counts.  Prints one line per candidate; with --store, candidates are copied to
/verif/refactors/<AREA>-<n>/ with the verdict recorded in meta.json.

usage: try_refactors.py <root> [AREA/n ...] [--store] [--no-baseline]
"""
import concurrent.futures as cf
import json
import os
import re
import shutil
import subprocess
import sys
import tempfile
from pathlib import Path

V = Path(__file__).resolve().parent.parent
OFFSET = int(next((a.split("=", 1)[1] for a in sys.argv if a.startswith("--offset=")), "0"))   # later rounds: --offset=4 stores out_A/1 as A-5
WAVE = int(next((a.split("=", 1)[1] for a in sys.argv if a.startswith("--wave=")), "1"))
sys.path.insert(0, str(V / "selftest"))
from thorough import VOLATILE  # noqa: E402


def sh(cmd, cwd=None, env=None, timeout=1200):
    p = subprocess.run(cmd, cwd=cwd, env=env, capture_output=True, text=True, timeout=timeout)
    return p.returncode, p.stdout + p.stderr


def verdict(root: Path) -> dict:
    rc, out = sh([str(V / "check"), "ALL", "--root", str(root)], cwd=str(V), env=dict(os.environ, VERIF_NO_EVIDENCE="1", **({"VERIF_SCRATCH_DIR": str(root)} if str(root) != "/repo" else {})))
    res: dict = {"known": sorted(l.split(" :: ")[0] for l in out.splitlines() if l.startswith("KNOWN-FINDING:")), "props": {}, "lines": {}}
    cur: list[str] = []
    for line in out.splitlines():
        if line.startswith("  R") or line.startswith("ANALYSIS-ERROR"):
            cur.append(line.strip()[:200])
        m = re.match(r"\[(C\d+)\] tier=\w+ obligations=(\d+) discharged=(\d+) known=(\d+) new_violations=(\d+) indexed=(\{.*\}) wall", line)
        if m:
            idx = json.loads(m.group(6))
            for k in VOLATILE:
                idx.pop(k, None)
            res["props"].setdefault(m.group(1), {}).update(obligations=int(m.group(2)), discharged=int(m.group(3)), indexed=idx)
        if line.startswith("RESULT "):
            _, p, rcs = line.split()
            res["props"].setdefault(p, {})["rc"] = rcs
            res["lines"][p] = cur
            cur = []
    return res


def one(cand: Path, base: dict, baseline: bool) -> dict:
    area = cand.parent.name.replace("out_", "")
    rid = f"{area}-{int(cand.name) + OFFSET}"
    wt = Path(tempfile.mkdtemp(prefix=f"ref_{rid}_", dir=os.environ.get("TMPDIR", "/tmp")))
    shutil.rmtree(wt)
    r: dict = {"id": rid, "dir": str(cand)}
    try:
        rc, out = sh(["git", "-C", "/repo", "worktree", "add", "-q", "--detach", str(wt), "HEAD"])
        if rc:
            r["error"] = out[-200:]
            return r
        rc, out = sh(["git", "-C", str(wt), "apply", str(cand / "patch.diff")])
        if rc:
            r["error"] = "patch does not apply: " + out[-200:]
            return r
        if baseline:
            rc, out = sh([str(V / "tools" / "run_baseline.py"), str(wt)])
            r["baseline_rc"] = rc
            r["baseline"] = (out.strip().splitlines() or [""])[0]
        v = verdict(wt)
        diffs = {}
        for p, b in base["props"].items():
            n = v["props"].get(p, {})
            if n.get("rc") != b.get("rc"):
                diffs[p] = {"rc": [b.get("rc"), n.get("rc")], "reports": v["lines"].get(p, [])[:6]}
            elif n != b:
                diffs[p] = {"counts": {k: [b.get(k), n.get(k)] for k in b if b.get(k) != n.get(k)}}
        kd = sorted(set(v["known"]) ^ set(base["known"]))
        r["diffs"] = diffs
        r["known_diffs"] = kd
        # a refactoring may legitimately add or remove functions, call sites and template sites, so instance counts may move; what must
        # not change is the verdict: exit codes and the set of known findings
        r["count_changes"] = {p: d for p, d in diffs.items() if "counts" in d}
        r["diffs"] = {p: d for p, d in diffs.items() if "rc" in d}
        r["silent"] = not r["diffs"] and not kd
        return r
    finally:
        sh(["git", "-C", "/repo", "worktree", "remove", "--force", str(wt)])
        shutil.rmtree(wt, ignore_errors=True)


def main() -> int:
    args = [a for a in sys.argv[1:] if not a.startswith("--")]
    root = Path(args[0])
    wanted = args[1:]
    cands = sorted(p for p in root.glob("out_*/[0-9]") if (p / "patch.diff").exists())
    if wanted:
        cands = [c for c in cands if f"{c.parent.name.replace('out_', '')}/{c.name}" in wanted]
    base = verdict(Path("/repo"))
    bad = 0
    with cf.ThreadPoolExecutor(max_workers=6) as ex:
        for r in ex.map(lambda c: one(c, base, "--no-baseline" not in sys.argv), cands):
            status = "SILENT" if r.get("silent") else ("ERROR" if r.get("error") else "DIFFERS")
            print(f"{status:<8} {r['id']} baseline={r.get('baseline_rc')} {r.get('error', '')}", flush=True)
            for p, d in sorted(r.get("diffs", {}).items()):
                print(f"           {p}: {json.dumps(d)[:900]}")
            for k in r.get("known_diffs", [])[:6]:
                print(f"           known set differs: {k[:160]}")
            if status != "SILENT":
                bad += 1
            if "--store" in sys.argv and not r.get("error"):
                cand = Path(r["dir"])
                dst = V / "refactors" / r["id"]
                dst.mkdir(parents=True, exist_ok=True)
                shutil.copy(cand / "patch.diff", dst / "patch.diff")
                meta = json.loads((cand / "meta.json").read_text()) if (cand / "meta.json").exists() else {}
                head = subprocess.run(["git", "-C", "/repo", "log", "--format=%h", "-1"], capture_output=True, text=True).stdout.strip()
                meta_out = {"area": meta.get("area"), "wave": WAVE, "title": meta.get("title"), "files": meta.get("files"), "what": meta.get("what"),
                            "why_equivalent": meta.get("why_equivalent"),
                            "author": "independent sub-agent given only an area of the code base and a scratch worktree; its own evidence: "
                                      "403-test baseline and byte-for-byte comparison of generated output and diagnostics on the "
                                      "end-to-end documents plus documents of its own",
                            "checked_by_me": {"repo_head": head, "baseline_rc": r.get("baseline_rc"), "baseline": r.get("baseline")},
                            "verdict": "SILENT (same exit codes and known findings for all 18 properties" + (
                                "; instance counts moved in " + ", ".join(sorted(r.get("count_changes", {}))) if r.get("count_changes") else "") + ")" if r.get("silent")
                            else "DIFFERS: " + json.dumps({"diffs": r.get("diffs"), "known_diffs": r.get("known_diffs")})[:1500]}
                (dst / "meta.json").write_text(json.dumps(meta_out, indent=1))
    print(f"candidates={len(cands)} not_silent={bad}")
    return 1 if bad else 0


if __name__ == "__main__":
    sys.exit(main())
