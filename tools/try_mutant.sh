#!/bin/bash
# usage: try_mutant.sh <dir with patch.diff> [PROP ...]   - applies the patch to /repo, runs the checks, reverts.
d=$1; shift
props=${@:-$(jq -r '.checks[].property_id' /verif/MANIFEST.json)}
cd /repo || exit 9
if ! git apply --check "$d/patch.diff" 2>/dev/null; then
  if ! git apply --3way --check "$d/patch.diff" 2>/dev/null; then echo "PATCH DOES NOT APPLY: $d"; exit 8; fi
fi
git apply "$d/patch.diff" 2>/dev/null || git apply --3way "$d/patch.diff"
caught=""
for p in $props; do
  out=$(cd /verif && ./check $p 2>&1); rc=$?
  if [ $rc -eq 1 ]; then caught="$caught $p"; echo "== $p exit 1"; echo "$out" | grep -B3 VIOLATION | grep -v "^--" | head -12; 
  elif [ $rc -eq 2 ]; then echo "== $p ANALYSIS-ERROR"; echo "$out" | grep ANALYSIS-ERROR | head -3; fi
done
git checkout -- . ; git clean -fdq openapi_python_client
git reset -q
echo "CAUGHT-BY:${caught:- none}"
