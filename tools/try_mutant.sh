#!/bin/bash
# usage: try_mutant.sh <dir with patch.diff> [PROP ...]   - applies the patch to /repo, runs the checks, reverts.
d=$1; shift
props=${@:-$(jq -r '.checks[].property_id' /verif/MANIFEST.json)}
cd /repo || exit 9
pf="$d/patch.diff"
[ -f "$d/patch.ported.diff" ] && pf="$d/patch.ported.diff"
if ! git apply --check "$pf" 2>/dev/null; then echo "PATCH DOES NOT APPLY: $pf"; exit 8; fi
git apply "$pf"
caught=""
for p in $props; do
  out=$(cd /verif && ./check $p 2>&1); rc=$?
  if [ $rc -eq 1 ]; then caught="$caught $p"; echo "== $p exit 1"; echo "$out" | grep -B3 VIOLATION | grep -v "^--" | head -12; 
  elif [ $rc -eq 2 ]; then echo "== $p ANALYSIS-ERROR"; echo "$out" | grep ANALYSIS-ERROR | head -3; fi
done
git reset -q --hard HEAD; git clean -fdq openapi_python_client
echo "CAUGHT-BY:${caught:- none}"
