#!/venv/bin/python
"""Maintenance helper (never run by a check): add the currently reported violations of a property to
known_findings.json, each with a description and the concrete failing input that was used to reproduce it.
usage: add_known.py <PROP> <rules.json>   where rules.json maps a substring of '<rule> <construct>' to
       {"what": ..., "input": ..., "repro": ...}; violations matching no pattern are NOT added."""
import json
import subprocess
import sys
from pathlib import Path

V = Path(__file__).resolve().parent.parent
prop = sys.argv[1]
pats = json.loads(Path(sys.argv[2]).read_text())
subprocess.run([str(V / "check"), prop], capture_output=True, text=True)
kf = json.loads((V / "known_findings.json").read_text())
have = {(e["property"], e["rule"], e["construct"]) for e in kf["known"]}
added = 0
for rp in sorted((V / "evidence" / "replay").glob(f"{prop}-*.json")):
    d = json.loads(rp.read_text())
    key = f"{d['rule']} {d['construct']}"
    for pat, meta in pats.items():
        if pat in key:
            if (prop, d["rule"], d["construct"]) not in have:
                kf["known"].append({"property": prop, "rule": d["rule"], "construct": d["construct"], **meta})
                have.add((prop, d["rule"], d["construct"]))
                added += 1
            break
    else:
        print("UNMATCHED", key)
(V / "known_findings.json").write_text(json.dumps(kf, indent=1) + "\n")
print("added", added)
